(* Fields.v — model of the field layer of multipart/form-data parsing (C07):
     ombott/request_pkg/multipart.py : FieldStorage.parse_header / read / iter_items,
                                       BytesIOProxy.read
     ombott/request_pkg/body_mixin.py: BodyMixin.POST (multipart branch: the
                                       collection into POST / forms / files)
   as they are AFTER the fixes F8 (option regex honours double quotes), F9 (list
   promotion per dictionary) and F16 (header-parsing exceptions are
   BodyParsingError).  The sections come from the one-piece reference scanner
   [MultipartRef.ref] (C06 relates it to the streaming parser).  No proofs here.

   Strings: a Python [str] is a list of code points, [bytes] a list of byte
   values; [bytes.decode()] is [Utf8.utf8_dec] (strict). *)
From Verif Require Import lib.Base lib.Str lib.Utf8 model.MultipartRef.
Local Open Scope N_scope.

(* ------------------------------------------------------------------ *)
(* str.splitlines(): line breaks are exactly LF VT FF CR FS GS RS NEL U+2028
   U+2029, CRLF counts as one; no empty last line (DESIGN A.3). *)
Definition is_linebreak (c : N) : bool :=
  N.eqb c 10 || N.eqb c 11 || N.eqb c 12 || N.eqb c 13 || N.eqb c 28 || N.eqb c 29 ||
  N.eqb c 30 || N.eqb c 133 || N.eqb c 8232 || N.eqb c 8233.

Fixpoint splitlines (s : str) : list str :=
  match s with
  | [] => []
  | c :: s' =>
    if is_linebreak c then
      [] :: match s' with
            | d :: s'' => if N.eqb c 13 && N.eqb d 10 then splitlines s'' else splitlines s'
            | [] => []
            end
    else match splitlines s' with
         | [] => [[c]]
         | h :: t => (c :: h) :: t
         end
  end.

(* str.strip() without argument: the characters with str.isspace() *)
Definition py_isspace (c : N) : bool :=
  ((9 <=? c) && (c <=? 13)) || ((28 <=? c) && (c <=? 32)) || N.eqb c 133 || N.eqb c 160 ||
  N.eqb c 5760 || ((8192 <=? c) && (c <=? 8202)) || N.eqb c 8232 || N.eqb c 8233 ||
  N.eqb c 8239 || N.eqb c 8287 || N.eqb c 12288.

Definition strip (s : str) : str := strip_set py_isspace s.
Definition QUOTE : N := 34.
Definition SEMI : N := 59.
Definition EQ : N := 61.
Definition COLON : N := 58.
Definition strip_quotes (s : str) : str := strip_set (fun c => N.eqb c QUOTE) s.

(* ------------------------------------------------------------------ *)
(* FieldStorage._patt = '(.+?)(=(Q[^Q]*Q|.+?))?(;|$)' used with finditer, where Q
   stands for the double-quote character (written Q in these comments only)
   (multipart.py:407, text pinned in proofs/C07_fields.v against Gen.v).
   Hand derivation (validated against `re` on all 488 281 strings of length <= 8
   over {a = ; Q space}; the strings here never contain LF — they are lines
   produced by splitlines — so `.` is any character and `$` the end):

   a match starting at p (p < |s|) has group 1 = s[p:q] for the FIRST q > p with
       q = |s|,  or s[q] = ';',  or (s[q] = '=' and q+1 < |s|)
   (lazy `.+?`; the optional group is tried first and can only fail when '=' is
   the last character).  In the first two cases group 3 is None and the match
   ends at q (+1 for the ';').  In the third case the value starts at q+1:
     - if s[q+1] = Q and r is the first Q at an index >= q+2 and r+1 = |s| or
       s[r+1] = ';' then group 3 = s[q+1 : r+1] (quotes included);
     - otherwise (lazy `.+?`) group 3 = s[q+1 : e] for the first e >= q+2 with
       e = |s| or s[e] = ';'.
   The next match starts after the consumed ';' (no match at |s|: group 1 needs
   a character). *)

(* group 1, from a non-empty rest [c :: s]: the first character always belongs
   to the group; returns (rest of group 1, what stopped it) *)
Inductive stop1 :=
| StopEnd                  (* q = |s| *)
| StopSemi (r : str)       (* s[q] = ';', r = s[q+1:] *)
| StopEq (r : str).        (* s[q] = '=', r = s[q+1:] non-empty *)

Fixpoint scan_key (s : str) : str * stop1 :=
  match s with
  | [] => ([], StopEnd)
  | c :: s' =>
    if N.eqb c SEMI then ([], StopSemi s')
    else if N.eqb c EQ && negb (match s' with [] => true | _ => false end) then ([], StopEq s')
    else let (k, st) := scan_key s' in (c :: k, st)
  end.

(* s[:e], s[e+1:] for the first ';' in s, or (s, None) *)
Definition upto_semi (s : str) : str * option str := split_once N.eqb SEMI s.

(* the value group, from r = s[q+1:] (non-empty): (group 3, rest after the match) *)
Definition scan_value (r : str) : str * option str :=
  match r with
  | [] => ([], None)                                     (* unreachable: StopEq carries a non-empty rest *)
  | c :: r' =>
    let lazy := let (v, rest) := upto_semi r' in (c :: v, rest) in
    if N.eqb c QUOTE then
      match split_once N.eqb QUOTE r' with
      | (inner, Some after) =>
        match after with
        | [] => (c :: inner ++ [QUOTE], None)
        | d :: after' => if N.eqb d SEMI then (c :: inner ++ [QUOTE], Some after') else lazy
        end
      | (_, None) => lazy
      end
    else lazy
  end.

(* all matches of finditer: (group 1, group 3) *)
Fixpoint opt_matches (fuel : nat) (s : str) : list (str * option str) :=
  match fuel with
  | O => []
  | S f =>
    match s with
    | [] => []
    | c :: s' =>
      let (k, st) := scan_key s' in
      match st with
      | StopEnd => [(c :: k, None)]
      | StopSemi r => (c :: k, None) :: opt_matches f r
      | StopEq r =>
        let (v, rest) := scan_value r in
        (c :: k, Some v) :: match rest with None => [] | Some r' => opt_matches f r' end
      end
    end
  end.

Definition finditer_opts (s : str) : list (str * option str) := opt_matches (S (length s)) s.

(* ------------------------------------------------------------------ *)
(* Header(name, value, options) — options is a dict; we keep the bindings in
   assignment order, a lookup takes the LAST one (dict overwrite). *)
Record header := mkHeader {
  h_name : str;
  h_value : str;
  h_opts : list (str * option str)
}.

(* dict.get(k): None both for a missing key and for a key bound to None *)
Fixpoint opt_get_present (k : str) (opts : list (str * option str)) : option (option str) :=
  match opts with
  | [] => None
  | (k', v) :: r =>
    match opt_get_present k r with
    | Some v' => Some v'
    | None => if str_eqb k' k then Some v else None
    end
  end.

Definition opt_get (k : str) (opts : list (str * option str)) : option str :=
  match opt_get_present k opts with Some v => v | None => None end.

(* FieldStorage.parse_header (multipart.py, after F16):
     htype, _, rest = s.partition(':')
     first = next(finditer(rest), None);  if first is None: raise BodyParsingError
     hvalue = first.group(1).strip()
     for it in rest of matches: k = group(1).strip(); v = group(3);
         if v is not None: v = v.strip(Q);  dct[k.lower()] = v
   str.lower() is modelled by ASCII lower-casing: exact for the only lookups made
   ('name', 'filename'): no non-ASCII string lower-cases to either (the only
   non-ASCII character whose lower() is ASCII is U+212A -> 'k'). *)
Definition parse_header (s : str) : option header :=
  let (htype, rest) := split_once N.eqb COLON s in
  let rest := match rest with Some r => r | None => [] end in
  match finditer_opts rest with
  | [] => None                                            (* BodyParsingError *)
  | (g1, _) :: more =>
    Some (mkHeader htype (strip g1)
            (map (fun kv => (lower (strip (fst kv)), option_map strip_quotes (snd kv))) more))
  end.

Definition s_content_disposition : str :=
  [67;111;110;116;101;110;116;45;68;105;115;112;111;115;105;116;105;111;110]%N.
Definition s_content_type : str := [67;111;110;116;101;110;116;45;84;121;112;101]%N.
Definition s_name : str := [110;97;109;101]%N.
Definition s_filename : str := [102;105;108;101;110;97;109;101]%N.

(* ------------------------------------------------------------------ *)
(* FieldStorage after read() *)
Record field := mkField {
  f_name : str;
  f_value : option str;            (* None for an upload *)
  f_filename : option str;
  f_file : option (Z * Z);         (* BytesIOProxy(src, start, end) *)
  f_ctype : option str;            (* value of the last Content-Type header: FileUpload.content_type.value *)
  f_headers : list header          (* in order of appearance; the dict keeps the last of equal names *)
}.

Inductive rq_error :=
| ESize                  (* BodySizeError    -> errors_map -> 413 *)
| EParse                 (* BodyParsingError -> errors_map -> 400 *)
| ENegSeek.              (* src.seek(negative): ValueError/OSError — NOT a RequestError, escapes as 500 *)

(* src.read(sz) at position start >= 0: a negative size reads to the end *)
Definition read_at (body : bytes) (start sz : Z) : bytes :=
  if (sz <? 0)%Z then skipn (Z.to_nat start) body
  else firstn (Z.to_nat sz) (skipn (Z.to_nat start) body).

(* the loop over the header lines (multipart.py:438-446): state = name, filename, ctype *)
Fixpoint read_headers (lines : list str) (name filename ctype : option str) (acc : list header)
  : option (option str * option str * option str * list header) :=
  match lines with
  | [] => Some (name, filename, ctype, rev acc)
  | l :: r =>
    match parse_header l with
    | None => None
    | Some h =>
      if str_eqb (h_name h) s_content_disposition then
        read_headers r (opt_get s_name (h_opts h)) (opt_get s_filename (h_opts h)) ctype (h :: acc)
      else if str_eqb (h_name h) s_content_type then
        read_headers r name filename (Some (h_value h)) (h :: acc)
      else read_headers r name filename ctype (h :: acc)
    end
  end.

(* FieldStorage.read (multipart.py:424): returns the field and has_read *)
Definition field_read (body : bytes) (hsec dsec : Z * Z) (max_read : Z) : field * Z + rq_error :=
  let (hs, he) := hsec in
  let sz := (he - hs)%Z in
  if (max_read <? sz)%Z then inr ESize
  else if (hs <? 0)%Z then inr ENegSeek                    (* src.seek(start) *)
  else
    match utf8_dec (read_at body hs sz) with
    | None => inr EParse                                   (* F16: UnicodeDecodeError *)
    | Some headers_raw =>
      match read_headers (splitlines headers_raw) None None None [] with
      | None => inr EParse                                 (* F16: malformed header line *)
      | Some (None, _, _, _) => inr EParse                 (* Noname field *)
      | Some (Some name, filename, ctype, hdrs) =>
        match filename with
        | Some fn =>
          inl (mkField name None (Some fn) (Some dsec) ctype hdrs, sz)
        | None =>
          let (ds, de) := dsec in
          let dsz := (de - ds)%Z in
          if (dsz =? 0)%Z then inl (mkField name (Some []) None None ctype hdrs, sz)
          else
            let has_read := (sz + dsz)%Z in
            if (max_read <? has_read)%Z then inr ESize
            else if (ds <? 0)%Z then inr ENegSeek          (* src.seek(start) *)
            else match utf8_dec (read_at body ds dsz) with
                 | None => inr EParse                      (* F16: UnicodeDecodeError *)
                 | Some v => inl (mkField name (Some v) None None ctype hdrs, has_read)
                 end
        end
      end
    end.

(* FieldStorage.iter_items (multipart.py:477).  The generator is consumed
   completely by POST (list(...), F16), so the result is the list or the first
   error.  [IAssert]: an `assert` of the code would fail — the markup lists
   produced by ref / the streaming parser alternate Data, Headers, Data, ... *)
Inductive items_res :=
| IOk (fs : list field)
| IErr (e : rq_error)
| IAssert.

Fixpoint iter_pairs (body : bytes) (m : list section) (max_read : Z) (acc : list field) : items_res :=
  match m with
  | [] => IOk (rev acc)                                    (* while headers: — exhausted *)
  | (hk, hs, he) :: m' =>
    match hk with
    | Data => IAssert                                      (* assert sec_name == 'headers' *)
    | Headers =>
      match m' with
      | [] => IErr EParse                                  (* no data for field *)
      | (dk, ds, de) :: m'' =>
        match dk with
        | Headers => IAssert                               (* assert sec_name == 'data' *)
        | Data =>
          match field_read body (hs, he) (ds, de) max_read with
          | inr e => IErr e
          | inl (f, has_read) => iter_pairs body m'' (max_read - has_read)%Z (f :: acc)
          end
        end
      end
    end
  end.

Definition iter_items (body : bytes) (m : list section) (max_read : Z) : items_res :=
  match m with
  | [] => IOk []
  | (k, s, e) :: m' =>
    match k with
    | Headers => IAssert                                   (* assert sec_name == 'data' *)
    | Data =>
      if (0 <? e)%Z then IErr EParse                       (* data before the first boundary *)
      else iter_pairs body m' max_read []
    end
  end.

(* ------------------------------------------------------------------ *)
(* BytesIOProxy (multipart.py:338): window [st, end) over the buffered body *)
Record proxy := mkProxy { p_st : Z; p_end : Z; p_pos : Z }.

Definition proxy_open (w : Z * Z) : proxy := mkProxy (fst w) (snd w) (fst w).

(* read(sz): sz = None or <= 0 means: the rest *)
Definition proxy_read (body : bytes) (p : proxy) (sz : option Z) : bytes * proxy :=
  let max_sz := (p_end p - p_pos p)%Z in
  if (max_sz <=? 0)%Z then ([], p)
  else
    let n := match sz with
             | Some k => if (0 <? k)%Z then Z.min k max_sz else max_sz
             | None => max_sz
             end in
    (read_at body (p_pos p) n, mkProxy (p_st p) (p_end p) (p_pos p + n)%Z).

(* ------------------------------------------------------------------ *)
(* BodyMixin.POST, multipart branch (body_mixin.py, after F9): the three
   dictionaries.  A dictionary is an association list in insertion order; a
   value is a single item or (after promotion) a list in submission order. *)
Inductive item :=
| IText (v : option str)                        (* item.value: None when filename is empty (F10) *)
| IFile (name filename : str) (ctype : option str) (window : Z * Z).

Inductive dval := Single (x : item) | Multi (xs : list item).
Definition fdict := list (str * dval).

(* the body of `for d in (post, dct)` for one dictionary:
     if key in d: promote once to a list, append      else: d[key] = it *)
Fixpoint dict_add (d : fdict) (key : str) (it : item) : fdict :=
  match d with
  | [] => [(key, Single it)]
  | (k, v) :: r =>
    if str_eqb k key then
      (k, match v with Single x => Multi [x; it] | Multi xs => Multi (xs ++ [it]) end) :: r
    else (k, v) :: dict_add r key it
  end.

Record post_dicts := mkPost { d_post : fdict; d_forms : fdict; d_files : fdict }.

Definition is_nonempty {A} (o : option (list A)) : bool :=
  match o with Some (_ :: _) => true | _ => false end.

Definition collect_one (acc : post_dicts) (f : field) : post_dicts :=
  if is_nonempty (f_filename f) then                        (* if item.filename: *)
    let it := IFile (f_name f) (match f_filename f with Some x => x | None => [] end) (f_ctype f)
                    (match f_file f with Some w => w | None => (0, 0)%Z end) in
    mkPost (dict_add (d_post acc) (f_name f) it) (d_forms acc) (dict_add (d_files acc) (f_name f) it)
  else
    let it := IText (f_value f) in
    mkPost (dict_add (d_post acc) (f_name f) it) (dict_add (d_forms acc) (f_name f) it) (d_files acc).

Definition collect_fields (fs : list field) : post_dicts :=
  fold_left collect_one fs (mkPost [] [] []).

(* what a handler sees *)
Inductive post_res :=
| POk (d : post_dicts)
| PClient (e : rq_error)          (* raised through BaseRequest._raise: 400 / 413 *)
| PMarkupError (e : mp_error)     (* markup.error, raised through _raise with RequestError: 400 *)
| PAssert.                        (* an assert of iter_items would fail: 500 *)

Definition post_of_markup (body : bytes) (m : list section * option mp_error) (max_memfile : Z) : post_res :=
  match snd m with
  | Some e => PMarkupError e
  | None =>
    match iter_items body (fst m) max_memfile with
    | IOk fs => POk (collect_fields fs)
    | IErr e => PClient e
    | IAssert => PAssert
    end
  end.

(* Request.POST for a multipart body parsed in one piece with boundary B *)
Definition post (B body : bytes) (max_memfile : Z) : post_res :=
  post_of_markup body (ref_obs B body) max_memfile.

(* ------------------------------------------------------------------ *)
(* correspondence interface *)
Definition enc_ostr (o : option str) : list Z := enc_option enc_str o.

(* an upload is observed as raw_filename, content_type.value, then
   file.read(k) followed by file.read() *)
Definition enc_item (body : bytes) (k : Z) (it : item) : list Z :=
  match it with
  | IText v => 0%Z :: enc_ostr v
  | IFile _ fn ct w =>
    let p0 := proxy_open w in
    let (a, p1) := proxy_read body p0 (Some k) in
    let (b, _) := proxy_read body p1 None in
    1%Z :: enc_str fn ++ enc_ostr ct ++ enc_str a ++ enc_str b
  end.

Definition enc_dval (body : bytes) (k : Z) (v : dval) : list Z :=
  match v with
  | Single x => 0%Z :: enc_item body k x
  | Multi xs => 1%Z :: enc_list (enc_item body k) xs
  end.

Definition enc_fdict (body : bytes) (k : Z) (d : fdict) : list Z :=
  enc_list (fun kv => enc_str (fst kv) ++ enc_dval body k (snd kv)) d.

Definition enc_mp_error (e : mp_error) : Z :=
  match e with EInvalidBoundary => 1 | EMalformedHeaders => 2 | EUnexpectedBodyEnd => 3 | EAssertion => 4 | EOutOfFuel => 5 end%Z.

Definition enc_post_res (body : bytes) (k : Z) (r : post_res) : list Z :=
  match r with
  | POk d => 0%Z :: enc_fdict body k (d_post d) ++ enc_fdict body k (d_forms d) ++ enc_fdict body k (d_files d)
  | PClient ESize => [1; 413]%Z
  | PClient EParse => [1; 400]%Z
  | PClient ENegSeek => [3%Z]
  | PMarkupError e => [2; enc_mp_error e]%Z
  | PAssert => [3%Z]
  end.

(* BytesIOProxy.seek(pos, whence) (multipart.py:357); returns the new tell(), or
   None for an unknown whence (ValueError) *)
Definition proxy_seek_set (p : proxy) (pos : Z) : proxy :=
  let pos := if (pos <? 0)%Z then 0%Z else pos in
  mkProxy (p_st p) (p_end p) (Z.min (p_st p + pos) (p_end p)).

Definition proxy_tell (p : proxy) : Z := (p_pos p - p_st p)%Z.

Definition proxy_seek (p : proxy) (pos whence : Z) : option proxy :=
  match whence with
  | 0%Z => Some (proxy_seek_set p pos)                                        (* SEEK_SET *)
  | 1%Z => Some (proxy_seek_set p (proxy_tell p + pos))                       (* SEEK_CUR *)
  | 2%Z => Some (proxy_seek_set p (p_end p + pos - p_st p))                   (* SEEK_END *)
  | _ => None
  end.

(* a script of file operations on one upload: read(n) (n < 0: read()), seek, tell *)
Inductive fop := ORead (n : Z) | OSeek (pos whence : Z) | OTell.

Fixpoint proxy_run (body : bytes) (p : proxy) (ops : list fop) : list Z :=
  match ops with
  | [] => []
  | ORead n :: r =>
    let (b, p') := proxy_read body p (if (n <? 0)%Z then None else Some n) in
    0%Z :: enc_str b ++ proxy_run body p' r
  | OSeek pos wh :: r =>
    match proxy_seek p pos wh with
    | Some p' => 1%Z :: proxy_tell p' :: proxy_run body p' r
    | None => 2%Z :: proxy_run body p r
    end
  | OTell :: r => 1%Z :: proxy_tell p :: proxy_run body p r
  end.

Definition dec_fop (l : list Z) : option (fop * list Z) :=
  match l with
  | 0%Z :: n :: r => Some (ORead n, r)
  | 1%Z :: pos :: wh :: r => Some (OSeek pos wh, r)
  | 2%Z :: r => Some (OTell, r)
  | _ => None
  end.

Definition item_run (body : bytes) (ops : list fop) (it : item) : list (list Z) :=
  match it with
  | IFile _ _ _ w => [proxy_run body (proxy_open w) ops]
  | IText _ => []
  end.

Definition enc_runs (body : bytes) (ops : list fop) (r : post_res) : list Z :=
  match r with
  | POk d =>
    enc_list (fun x => Z.of_nat (length x) :: x)
             (flat_map (fun kv => match snd kv with
                                  | Single x => item_run body ops x
                                  | Multi xs => flat_map (item_run body ops) xs
                                  end) (d_files d))
  | _ => []
  end.

(* block-wise reading of one upload: file.read(blk) until it returns b''.  Each
   BytesIOProxy.read positions the shared source itself (src.seek(self._pos)), so
   reads through several windows — and through Request.body — may be interleaved
   freely: the blocks of one upload do not depend on what is read in between. *)
Fixpoint proxy_blocks (fuel : nat) (body : bytes) (p : proxy) (blk : Z) : list bytes :=
  match fuel with
  | O => []
  | S f =>
    let (b, p') := proxy_read body p (Some blk) in
    match b with
    | [] => []
    | _ => b :: proxy_blocks f body p' blk
    end
  end.

Definition item_blocks (body : bytes) (blk : Z) (it : item) : list (list bytes) :=
  match it with
  | IFile _ _ _ w => [proxy_blocks (S (Z.to_nat (snd w - fst w))) body (proxy_open w) blk]
  | IText _ => []
  end.

Definition dict_blocks (body : bytes) (blk : Z) (d : fdict) : list (list bytes) :=
  flat_map (fun kv => match snd kv with
                      | Single x => item_blocks body blk x
                      | Multi xs => flat_map (item_blocks body blk) xs
                      end) d.

Definition enc_blocks (body : bytes) (blk : Z) (r : post_res) : list Z :=
  match r with
  | POk d => enc_list (enc_list enc_str) (dict_blocks body blk (d_files d))
  | _ => []
  end.

(* input: max_memfile ; k ; blk ; B (len-prefixed) ; body (len-prefixed) ; file-operation script *)
Definition corr_C07 (inp : list Z) : list Z :=
  match inp with
  | mem :: k :: blk :: r =>
    match dec_str r with
    | Some (B, r1) =>
      match dec_str r1 with
      | Some (body, r2) =>
        let ops := match dec_list dec_fop r2 with Some (o, _) => o | None => [] end in
        let res := post B body mem in
        enc_post_res body k res ++ enc_blocks body blk res ++ enc_runs body ops res
      | None => bad_input
      end
    | None => bad_input
    end
  | _ => bad_input
  end.
