(* Body.v — model of ombott/request_pkg/body_mixin.py: _iter_body, _iter_chunked
   and _body_read (the generator and its consumer are fused into one loop: the
   consumer's size check runs between two reads, exactly as the generator
   protocol interleaves them).  No proofs in this file. *)
From Verif Require Import lib.Base model.Stream.

Inductive bres :=
| BDone (body : list N) (spilled : bool) (s : stream)   (* _body_read returned *)
| BTooLarge (s : stream)                                (* BodySizeError *)
| BParseErr (s : stream)                                (* BodyParsingError *)
| BOutOfFuel.

Definition over (maxb : option nat) (size : nat) : bool :=
  match maxb with
  | None => false
  | Some m => Nat.ltb m size      (* body_size > max_body_size *)
  end.

(* _iter_body (body_mixin.py:21) consumed by _body_read (body_mixin.py:81):
     rest_len = content_length
     while rest_len > 0:
         part = read(min(rest_len, buff_size))
         if not part: break
         <consumer: write, size check, spill>
         rest_len -= len(part)                                               *)
Fixpoint cl_loop (fuel : nat) (s : stream) (buf : nat) (maxb : option nat)
         (rest_len : nat) (acc : list N) (spilled : bool) : bres :=
  match fuel with
  | O => BOutOfFuel
  | S f =>
    if Nat.eqb rest_len 0 then BDone acc spilled s
    else
      let part_size := Nat.min rest_len buf in
      let (part, s') := read s part_size in
      match part with
      | [] => BDone acc spilled s'
      | _ =>
        let acc' := acc ++ part in
        let size := length acc' in
        if over maxb size then BTooLarge s'
        else cl_loop f s' buf maxb (rest_len - length part) acc'
                     (spilled || Nat.ltb buf size)
      end
  end.

(* content_length is an int that may be negative (-1 = header missing) *)
Definition body_read_cl (s : stream) (buf : nat) (maxb : option nat) (cl : Z) : bres :=
  cl_loop (S (length (rest s))) s buf maxb (Z.to_nat cl) [] false.

(* ---- correspondence interface ---- *)

Definition enc_reqs (s : stream) : list Z :=
  enc_list (fun '(n, p) => [Z.of_nat n; Z.of_nat p]) (rev (reqs s)) ++ [Z.of_nat (pos s)].

Definition enc_bres (r : bres) : list Z :=
  match r with
  | BDone body sp s => 0%Z :: enc_bool sp ++ enc_str body ++ enc_reqs s
  | BTooLarge s => 1%Z :: enc_reqs s
  | BParseErr s => 2%Z :: enc_reqs s
  | BOutOfFuel => [9%Z]
  end.

Definition dec_nat_item (l : list Z) : option (nat * list Z) := dec_nat l.

(* input: cl ; buf ; has_max ; max ; data (len-prefixed) ; sched (len-prefixed) *)
Definition corr_C04 (inp : list Z) : list Z :=
  match inp with
  | cl :: buf :: hm :: mx :: r =>
    match dec_str r with
    | Some (data, r1) =>
      match dec_list dec_nat_item r1 with
      | Some (sc, _) =>
        let maxb := if Z.eqb hm 0 then None else Some (Z.to_nat mx) in
        enc_bres (body_read_cl (stream_init data sc) (Z.to_nat buf) maxb cl)
      | None => bad_input
      end
    | None => bad_input
    end
  | _ => bad_input
  end.
