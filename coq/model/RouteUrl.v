(* RouteUrl.v — model of the URL builder (C19):
     ombott/router/radirouter.py   Route.url, Route.make_params_dict
     ombott/router/filter_factory.py  FilterFactory.filters / make_filter
   on top of the rule-by-rule matcher of model/RouteSpec.v (C01).
   The regex engine and float conversion are NOT modelled: they are the
   section variables [rx] and [fconv]; the int filter (regex -?\d+ over the
   ASCII digits, int, str.int) is concrete (lib/PyIntDec.v).
   No proofs in this file. *)
From Verif Require Import lib.Base lib.Str lib.PyIntDec model.RouteSpec.

Local Open Scope N_scope.

(* ---- Python values that travel as route parameters ---------------------- *)

(* A float is represented by the text str() prints for it (float printing is
   not modelled; the text identifies the float). *)
Inductive pyval :=
| PStr (s : str)
| PInt (z : Z)
| PFloat (r : str).

(* RouteSpec.value is a str; converted values carry a tag code point that no
   Python str can contain (> 0x10FFFF). *)
Definition TAG_INT : N := 1114112.
Definition TAG_FLOAT : N := 1114113.

Definition value_of_pyval (v : pyval) : value :=
  match v with
  | PStr s => s
  | PInt z => TAG_INT :: dec_of_Z z
  | PFloat r => TAG_FLOAT :: r
  end.

Definition pyval_of_value (v : value) : pyval :=
  match v with
  | c :: t => if c =? TAG_INT then PInt (Z_of_dec t)
              else if c =? TAG_FLOAT then PFloat t
              else PStr v
  | [] => PStr []
  end.

(* ---- the filter table (filter_factory.py:30-36) -------------------------- *)

(*  're':    (conf, None, None)
    'int':   (r'-?\d+', int, lambda x: str(int(x)))
    'float': (r'-?\d+(\.\d+)?', float, lambda x: str(float(x)))
    'path':  ('.+(?=' + re.escape(conf) + ')' if conf else '.+$', None, None)
   ('rex' is outside the property: its selector rewrites the path) *)
Inductive fkind := KRe | KInt | KFloat | KPath.

Inductive fmt := FmtInt | FmtFloat.

(* third component of the table entry = Route.filters_out[i] *)
Definition f_out_of (k : fkind) : option fmt :=
  match k with
  | KInt => Some FmtInt
  | KFloat => Some FmtFloat
  | KRe | KPath => None
  end.

Definition CR : N := 13.                          (* '\r', radirouter.py:81,188 *)
Definition SLASH : N := 47.
Definition anon_prefix : str := [97; 110; 111; 110; 45].     (* Route.anon_prefix = 'anon-' *)

Definition is_anon (name : str) : bool := startswith name anon_prefix.

Inductive ures :=
| UOk (s : str)
| UIndexError          (* args[args_idx] / params[pidx] *)
| UKeyError            (* kw[pname] *)
| UValueError          (* int('abc') inside the formatter *)
| UTypeError           (* regex on a non-str, ''.join with a non-str *)
| UAssertionError      (* assert f_in(...)[1] *)
| UUnmodelled.         (* the model does not cover this conversion *)

(* int(s) for a str argument, only the plain spelling [+-]?[0-9]+ ; everything
   that involves whitespace, underscores or non-ASCII characters is left
   unmodelled *)
Inductive pint := IOk (z : Z) | IBad | IUnk.

Definition plain_char (c : N) : bool :=
  (33 <=? c) && (c <=? 126) && negb (c =? 95).

Definition py_int_plain (s : str) : pint :=
  if negb (forallb plain_char s) then IUnk
  else
    let body := match s with
                | c :: r => if (c =? 43) || (c =? 45) then r else s
                | [] => s
                end in
    match body with
    | [] => IBad
    | _ => if forallb is_digit body
           then IOk (match s with
                     | c :: r => if c =? 43 then Z_of_dec r else Z_of_dec s
                     | [] => 0%Z
                     end)
           else IBad
    end.

Section Url.

(* which table entry a compiled filter comes from *)
Variable kind : fid -> fkind.
(* the compiled mask of filter k applied at the start of s:
   None = no match, Some n = m.end()  (re.compile(mask).match(s)) *)
Variable rx : fid -> str -> option nat.
(* float(text) for a text matched by the float mask, as the text str() prints *)
Variable fconv : str -> str.

(* make_filter's handler (filter_factory.py:66-76): match once at the start,
   return (f_in(m.group()), m.end()) or (m.group(), m.end()) *)
Definition handler (k : fid) (s : str) : option (value * nat) :=
  match kind k with
  | KInt =>
    match int_rx s with
    | Some n => Some (value_of_pyval (PInt (Z_of_dec (firstn n s))), n)
    | None => None
    end
  | KFloat =>
    match rx k s with
    | Some n => Some (value_of_pyval (PFloat (fconv (firstn n s))), n)
    | None => None
    end
  | KRe | KPath =>
    match rx k s with
    | Some n => Some (firstn n s, n)
    | None => None
    end
  end.

(* lambda x: str(int(x))   /   lambda x: str(float(x)) *)
Definition apply_fmt (f : fmt) (x : pyval) : ures :=
  match f, x with
  | FmtInt, PInt z => UOk (dec_of_Z z)
  | FmtInt, PStr s => match py_int_plain s with
                      | IOk z => UOk (dec_of_Z z)
                      | IBad => UValueError
                      | IUnk => UUnmodelled
                      end
  | FmtInt, PFloat _ => UUnmodelled
  | FmtFloat, PFloat r => UOk r
  | FmtFloat, _ => UUnmodelled
  end.

(* radirouter.py:103-104 (with fix F19path: the value is validated in front of
   the literal text that will follow it in the URL, which is what the matcher
   will see; look-ahead filters such as `path` need it):
       assert f_in(prt + pattern_out[cidx:lit_end])[1]
   None = passed *)
Definition validate (k : fid) (prt : pyval) (la : str) : option ures :=
  match prt with
  | PStr s =>
    match handler k (s ++ la) with
    | Some (_, S _) => None
    | _ => Some UAssertionError
    end
  | _ => Some UTypeError
  end.

Fixpoint kw_get (kw : list (str * pyval)) (name : str) : option pyval :=
  match kw with
  | [] => None
  | (n, v) :: r => if str_eqb n name then Some v else kw_get r name
  end.

(* ''.join(ret) *)
Fixpoint join_pieces (ret : list pyval) : ures :=
  match ret with
  | [] => UOk []
  | PStr s :: r => match join_pieces r with
                   | UOk t => UOk (s ++ t)
                   | e => e
                   end
  | _ :: _ => UTypeError
  end.

(* pattern_out.find('\r', cidx) then the slice pattern_out[cidx:lit_end] *)
Definition lookahead (po : str) (cidx : nat) : str :=
  let tail := skipn cidx po in
  match find_char N.eqb CR tail with
  | Some j => slice po cidx (cidx + j)
  | None => slice po cidx (length po)
  end.

(* Route.url (radirouter.py:63-111), the loop `for c in pattern_out` with the
   variables ret, pidx, args_idx, cidx, clen (end is a temporary) *)
Section Loop.
Variable po : str.                          (* self.pattern_out *)
Variable params : list str.                 (* self.params *)
Variable filters : list (option fid).       (* self.filters; filters_out[i] = f_out_of (kind filters[i]) *)
Variable args : list pyval.
Variable kw : list (str * pyval).

Fixpoint url_loop (cs : str) (ret : list pyval) (pidx aidx cidx clen : nat) : ures :=
  match cs with
  | [] =>
    (* :107-111 *)
    let ret := if Nat.eqb clen 0 then ret
               else ret ++ [PStr (slice po cidx (cidx + clen))] in
    join_pieces ret
  | c :: cs' =>
    if negb (c =? CR) then url_loop cs' ret pidx aidx cidx (S clen)     (* :81-83 *)
    else
      (* :84-89 *)
      let end_ := if Nat.eqb clen 0 then cidx else (cidx + clen)%nat in
      let ret := if Nat.eqb clen 0 then ret
                 else ret ++ [PStr (slice po cidx end_)] in
      let cidx := S end_ in
      (* :91-94 *)
      match nth_error params pidx, nth_error filters pidx with
      | Some pname, Some f_in =>
        (* :96-100 *)
        let fetched :=
          if is_anon pname then
            match nth_error args aidx with
            | Some v => inl (v, S aidx)
            | None => inr UIndexError
            end
          else
            match kw_get kw pname with
            | Some v => inl (v, aidx)
            | None => inr UKeyError
            end in
        match fetched with
        | inr e => e
        | inl (prt, aidx) =>
          (* :101-102 *)
          let formatted :=
            match f_in with
            | Some k => match f_out_of (kind k) with
                        | Some f => match apply_fmt f prt with
                                    | UOk s => inl (PStr s)
                                    | e => inr e
                                    end
                        | None => inl prt
                        end
            | None => inl prt
            end in
          match formatted with
          | inr e => e
          | inl prt =>
            (* :103-104 *)
            let checked :=
              match f_in with
              | Some k => validate k prt (lookahead po cidx)
              | None => None
              end in
            match checked with
            | Some e => e
            | None => url_loop cs' (ret ++ [prt]) (S pidx) aidx cidx 0       (* :105 *)
            end
          end
        end
      | _, _ => UIndexError
      end
  end.

Definition url : ures :=
  match params with
  | [] => UOk po                              (* :66-67 *)
  | _ => url_loop po [] 0 0 0 0
  end.

End Loop.

(* Route.make_params_dict (radirouter.py:171-173): a dict comprehension over
   zip(names, values) without the anonymous ones; a repeated name keeps its
   first position and its last value *)
Fixpoint kw_set (kw : list (str * pyval)) (name : str) (v : pyval) : list (str * pyval) :=
  match kw with
  | [] => [(name, v)]
  | (n, x) :: r => if str_eqb n name then (n, v) :: r else (n, x) :: kw_set r name v
  end.

Fixpoint make_params_dict_acc (acc : list (str * pyval)) (names : list str) (vs : list pyval) :=
  match names, vs with
  | n :: names', v :: vs' =>
    make_params_dict_acc (if is_anon n then acc else kw_set acc n v) names' vs'
  | _, _ => acc
  end.

Definition make_params_dict := make_params_dict_acc [].

(* the positional arguments: the values of the anonymous wildcards, in order *)
Fixpoint anon_args (names : list str) (vs : list pyval) : list pyval :=
  match names, vs with
  | n :: names', v :: vs' =>
    if is_anon n then v :: anon_args names' vs' else anon_args names' vs'
  | _, _ => []
  end.

(* RadiRouter.resolve strips '/' from both ends before the lookup (:309) *)
Definition strip_slash (s : str) : str := strip_set (fun c => c =? SLASH) s.

(* a rule = RouteSpec.pat + the wildcard names; what Route.url sees of it *)
Definition url_of_pat (p : pat) (names : list str) (args : list pyval) (kw : list (str * pyval)) : ures :=
  url (pattern_of p) names (filters_of p) args kw.

(* build from the values a match produced *)
Definition url_of_match (p : pat) (names : list str) (vs : list value) : ures :=
  let pvs := map pyval_of_value vs in
  url_of_pat p names (anon_args names pvs) (make_params_dict names pvs).

End Url.

(* ------------------------------------------------------------------ *)
(* correspondence interface *)

Definition lookup_rx (tab : list (nat * str * option nat)) (k : fid) (s : str) : option nat :=
  match find (fun e => Nat.eqb (fst (fst e)) k && str_eqb (snd (fst e)) s) tab with
  | Some e => snd e
  | None => None
  end.

Definition lookup_fconv (tab : list (str * str)) (s : str) : str :=
  match find (fun e => str_eqb (fst e) s) tab with
  | Some e => snd e
  | None => [63]
  end.

Definition kind_of_code (z : Z) : fkind :=
  match z with
  | 1%Z => KInt
  | 2%Z => KFloat
  | 3%Z => KPath
  | _ => KRe
  end.

Definition lookup_kind (kinds : list fkind) (k : fid) : fkind := nth k kinds KRe.

Definition dec_filter (l : list Z) : option (option fid * list Z) :=
  match l with
  | [] => None
  | z :: r => Some (if (z <? 0)%Z then None else Some (Z.to_nat z), r)
  end.

Definition dec_kind (l : list Z) : option (fkind * list Z) :=
  match l with
  | [] => None
  | z :: r => Some (kind_of_code z, r)
  end.

Definition dec_rx_entry (l : list Z) : option (nat * str * option nat * list Z) :=
  match l with
  | k :: r =>
    match dec_str r with
    | Some (s, res :: r') =>
      Some (Z.to_nat k, s, if (res <? 0)%Z then None else Some (Z.to_nat res), r')
    | _ => None
    end
  | [] => None
  end.

Definition dec_rx_item (l : list Z) : option ((nat * str * option nat) * list Z) :=
  match dec_rx_entry l with
  | Some (k, s, res, r) => Some ((k, s, res), r)
  | None => None
  end.

Definition dec_pair (l : list Z) : option ((str * str) * list Z) :=
  match dec_str l with
  | Some (a, r) => match dec_str r with
                   | Some (b, r') => Some ((a, b), r')
                   | None => None
                   end
  | None => None
  end.

(* pyval: 0 str | 1 int (decimal text: the driver's integers are machine words) | 2 float (text) *)
Definition dec_pyval (l : list Z) : option (pyval * list Z) :=
  match l with
  | 0%Z :: r => match dec_str r with Some (s, r') => Some (PStr s, r') | None => None end
  | 1%Z :: r => match dec_str r with Some (s, r') => Some (PInt (Z_of_dec s), r') | None => None end
  | 2%Z :: r => match dec_str r with Some (s, r') => Some (PFloat s, r') | None => None end
  | _ => None
  end.

Definition dec_kwitem (l : list Z) : option ((str * pyval) * list Z) :=
  match dec_str l with
  | Some (n, r) => match dec_pyval r with
                   | Some (v, r') => Some ((n, v), r')
                   | None => None
                   end
  | None => None
  end.

Definition enc_pyval (v : pyval) : list Z :=
  match v with
  | PStr s => 0%Z :: enc_str s
  | PInt z => 1%Z :: enc_str (dec_of_Z z)
  | PFloat r => 2%Z :: enc_str r
  end.

Definition enc_ures (u : ures) : list Z :=
  match u with
  | UOk s => 0%Z :: enc_str s
  | UIndexError => [1%Z]
  | UKeyError => [2%Z]
  | UValueError => [3%Z]
  | UTypeError => [4%Z]
  | UAssertionError => [5%Z]
  | UUnmodelled => [6%Z]
  end.

Definition enc_match (m : option (list value)) : list Z :=
  enc_option (fun vs => enc_list (fun v => enc_pyval (pyval_of_value v)) vs) m.

(* input:  pattern_out ; names ; filters ; kinds ; rx table ; fconv table ;
           mode (1 = from a path, 0 = explicit arguments) ;
           mode 1: path          mode 0: args ; kw
   output: mode 1: match of the stripped path ; if it matched: url built from
                   the matched values ; if built: match of the stripped url
           mode 0: url ; if built: match of the stripped url *)
Definition corr_C19_one (inp : list Z) : list Z :=
  match dec_str inp with
  | Some (po, r1) =>
    match dec_list dec_str r1 with
    | Some (names, r2) =>
      match dec_list dec_filter r2 with
      | Some (flts, r3) =>
        match dec_list dec_kind r3 with
        | Some (kinds, r4) =>
          match dec_list dec_rx_item r4 with
          | Some (rxt, r5) =>
            match dec_list dec_pair r5 with
            | Some (fct, mode :: r6) =>
              let kind := lookup_kind kinds in
              let rx := lookup_rx rxt in
              let fconv := lookup_fconv fct in
              let p := pat_of po flts in
              let filt := handler kind rx fconv in
              let rematch (u : ures) : list Z :=
                  match u with
                  | UOk s => enc_match (match1 filt p (strip_slash s))
                  | _ => []
                  end in
              if Z.eqb mode 1 then
                match dec_str r6 with
                | Some (path, _) =>
                  let m := match1 filt p (strip_slash path) in
                  enc_match m ++
                  match m with
                  | Some vs =>
                    let pvs := map pyval_of_value vs in
                    let u := url kind rx fconv po names flts (anon_args names pvs) (make_params_dict names pvs) in
                    enc_ures u ++ rematch u
                  | None => []
                  end
                | None => bad_input
                end
              else
                match dec_list dec_pyval r6 with
                | Some (args, r7) =>
                  match dec_list dec_kwitem r7 with
                  | Some (kw, _) =>
                    let u := url kind rx fconv po names flts args kw in
                    enc_ures u ++ rematch u
                  | None => bad_input
                  end
                | None => bad_input
                end
            | _ => bad_input
            end
          | None => bad_input
          end
        | None => bad_input
        end
      | None => bad_input
      end
    | None => bad_input
    end
  | None => bad_input
  end.

(* ---- several url() calls in one process (several Route objects, repeated
   calls on one Route): Route.url reads self.* and its arguments only and the
   model is a function, so a sequence of calls is observed call by call ---- *)

Definition url_calls (calls : list (list Z)) : list (list Z) := map corr_C19_one calls.

(* a length-prefixed list of integers *)
Definition dec_zlist (l : list Z) : option (list Z * list Z) :=
  match l with
  | [] => None
  | z :: r => let n := Z.to_nat z in
              if Nat.leb n (length r) then Some (firstn n r, skipn n r) else None
  end.

Definition enc_zlist (l : list Z) : list Z := Z.of_nat (length l) :: l.

(* input:  a single call as above, or  -2 ; n ; n length-prefixed single calls
   output: the single observation, or n ; n length-prefixed observations *)
Definition corr_C19 (inp : list Z) : list Z :=
  match inp with
  | (-2)%Z :: r =>
    match dec_list dec_zlist r with
    | Some (calls, _) => enc_list enc_zlist (url_calls calls)
    | None => bad_input
    end
  | _ => corr_C19_one inp
  end.
