(* Qsl.v — model of ombott/request_pkg/helpers.py:parse_qsl and of its three
   callers (BodyMixin.query, the urlencoded branch of BodyMixin.POST/forms,
   PropsMixin.params).  No proofs in this file.

   A str is a list of code points.  No statement of this path can raise:
   slicing clamps, urllib.parse.unquote is total on str (errors='replace'),
   dict keys are str.  The only non-value outcome of the model is QOutOfFuel. *)
From Verif Require Import lib.Base lib.Str lib.Utf8 lib.Pct.
Local Open Scope N_scope.

(* ---- insertion-ordered dict with str keys (Python dict semantics) ---- *)

Section Dict.
Context {V : Type}.

Fixpoint dict_get (d : list (str * V)) (k : str) : option V :=
  match d with
  | [] => None
  | (k', v) :: d' => if str_eqb k' k then Some v else dict_get d' k
  end.

(* d[k] = v : an existing key keeps its position *)
Fixpoint dict_set (d : list (str * V)) (k : str) (v : V) : list (str * V) :=
  match d with
  | [] => [(k, v)]
  | (k', v') :: d' => if str_eqb k' k then (k', v) :: d' else (k', v') :: dict_set d' k v
  end.
End Dict.

(* a value of the FormsDict: a str, or a list of str for a repeated key *)
Inductive fval := VStr (s : str) | VList (l : list str).

Definition fdict := list (str * fval).

(* ---- the [add] closure of the setitem mode (helpers.py:82-92) ----
     _seen  : key -> first value
     _lists : key -> the list object that was stored into the target dict
   The list in _lists[k] IS the object stored under k in the target
   (tmp = _lists[k] = [...]; setitem(k, tmp)), so vlist.append(v) changes the
   target's value too: the model writes it to both places. *)
Record add_state := mkAdd {
  a_seen : list (str * str);
  a_lists : list (str * list str);
  a_out : fdict
}.

Definition add_init (d : fdict) : add_state := mkAdd [] [] d.

Definition add_setitem (k v : str) (st : add_state) : add_state :=
  match dict_get (a_lists st) k with
  | Some (x :: vl) =>                                    (* if vlist: vlist.append(v) *)
    let vl' := (x :: vl) ++ [v] in
    mkAdd (a_seen st) (dict_set (a_lists st) k vl') (dict_set (a_out st) k (VList vl'))
  | _ =>
    match dict_get (a_seen st) k with
    | Some first =>                                      (* elif k in _seen *)
      let tmp := [first; v] in
      mkAdd (a_seen st) (dict_set (a_lists st) k tmp) (dict_set (a_out st) k (VList tmp))
    | None =>                                            (* setitem(k, _seen.setdefault(k, v)) *)
      mkAdd (dict_set (a_seen st) k v) (a_lists st) (dict_set (a_out st) k (VStr v))
    end
  end.

(* the other two modes: append=... / container.append *)
Definition add_pair (k v : str) (st : list (str * str)) : list (str * str) := st ++ [(k, v)].

(* ---- the scanner ---- *)

(*   idx = 0; c = None
     for idx, c in enumerate(s):
         if stop(c): break
     else:
         idx += 1
   [n] is the enumerate counter of the head of [s]; (idx, c) are the current
   values of the loop variables.  Empty s: the body never runs and the else
   clause gives idx = 1, c = None. *)
Fixpoint for_else (stop : N -> bool) (s : str) (n idx : nat) (c : option N) : nat * option N :=
  match s with
  | [] => (S idx, c)
  | x :: s' => if stop x then (n, Some x) else for_else stop s' (S n) n (Some x)
  end.

Definition is_eq_or_amp (c : N) : bool := (c =? 61) || (c =? 38).
Definition is_amp (c : N) : bool := c =? 38.
Definition opt_is (c : option N) (x : N) : bool := match c with Some y => y =? x | None => false end.

(* urlunquote(x.replace('+', ' ')) *)
Definition decode_component (x : str) : str := unquote (replace_char N.eqb 43 [32] x).

Section Loop.
Context {St : Type} (add : str -> str -> St -> St).

(* helpers.py:100-128, one iteration of [while i < L] per unit of fuel *)
Fixpoint qsl_loop (fuel : nat) (qs : str) (i : nat) (st : St) : option St :=
  match fuel with
  | O => None
  | S f =>
    if Nat.ltb i (length qs) then
      let '(idx, c) := for_else is_eq_or_amp (skipn i qs) 0 0 None in
      let j := (i + idx)%nat in
      let key := slice qs i j in
      let i := (j + 1)%nat in                               (* skip '=' or '&' *)
      match key with
      | [] => qsl_loop f qs i st                            (* if not key: continue *)
      | _ =>
        let key := decode_component key in
        if opt_is c 38 then qsl_loop f qs i (add key [] st)
        else
          let '(idx, c) := for_else is_amp (skipn i qs) 0 0 None in
          let j := (i + idx)%nat in
          let value := decode_component (slice qs i j) in
          let i := (j + 1)%nat in                           (* skip '&' *)
          qsl_loop f qs i (add key value st)
      end
    else Some st
  end.

Definition qsl_run (qs : str) (st : St) : option St := qsl_loop (length qs + 1) qs 0 st.
End Loop.

Inductive qres (A : Type) := QDone (d : A) | QOutOfFuel.
Arguments QDone {A} d.
Arguments QOutOfFuel {A}.

Definition qres_of {A B} (f : A -> B) (o : option A) : qres B :=
  match o with Some a => QDone (f a) | None => QOutOfFuel end.

(* parse_qsl(qs) : list of pairs *)
Definition parse_qsl_pairs (qs : str) : qres (list (str * str)) :=
  qres_of (fun x => x) (qsl_run add_pair qs []).

(* parse_qsl(qs, setitem=d.__setitem__) on the dict d: the dict afterwards *)
Definition parse_qsl_into (d : fdict) (qs : str) : qres fdict :=
  qres_of a_out (qsl_run add_setitem qs (add_init d)).

(* BodyMixin.query (body_mixin.py:135): ret = FormsDict(); if qs: parse_qsl(qs, setitem=ret.__setitem__) *)
Definition query (qs : str) : qres fdict :=
  match qs with
  | [] => QDone []
  | _ => parse_qsl_into [] qs
  end.

(* BodyMixin.POST, urlencoded branch (body_mixin.py:181):
   parse_qsl(touni(self._get_body_string(), 'latin1'), setitem=post.__setitem__) *)
Definition forms_urlencoded (body : list N) : qres fdict :=
  parse_qsl_into [] (latin1_dec body).

(* PropsMixin.params (props_mixin.py:74): FormsDict(self.query, **self.forms) *)
Definition dict_update (d e : fdict) : fdict := fold_left (fun acc kv => dict_set acc (fst kv) (snd kv)) e d.

Definition params (qs : str) (body : list N) : qres fdict :=
  match query qs, forms_urlencoded body with
  | QDone q, QDone f => QDone (dict_update q f)
  | _, _ => QOutOfFuel
  end.

(* ---- one request, several reads of query / forms / params in some order ----
   Each accessor builds a fresh FormsDict from the environ (QUERY_STRING, body)
   and caches it; params is a NEW dict (FormsDict(self.query, **self.forms)),
   so no read can change what another read returns: a read is a function of
   (qs, body) and of the accessor only. *)
Inductive accessor := AQuery | AForms | AParams.

Definition read_one (qs : str) (body : list N) (a : accessor) : qres fdict :=
  match a with
  | AQuery => query qs
  | AForms => forms_urlencoded body
  | AParams => params qs body
  end.

Definition read_seq (qs : str) (body : list N) (order : list accessor) : list (qres fdict) :=
  map (read_one qs body) order.

(* ---- one request whose query string / body are REPLACED between reads ----
   request['QUERY_STRING'] = qs     (Request.__setitem__ -> _on_env_changed drops query, params)
   request['wsgi.input'] = BytesIO(b); request['CONTENT_LENGTH'] = str(len(b))
                                    (drops forms, files, params, post, json, body / content_length)
   so a read always decodes what the request carries at that moment: the state
   is just (qs, body). *)
Inductive op :=
| ORead (a : accessor)
| OSetQs (qs : str)
| OSetBody (b : list N)
| OReadBody (n : Z).     (* request.body.read(n): the body property rewinds, _get_body_string rewinds
                            again (body_mixin.py: self._body.seek(0)) — no effect on later reads *)

Definition rstate := (str * list N)%type.

Definition apply_op (st : rstate) (o : op) : rstate :=
  match o with
  | ORead _ => st
  | OSetQs q => (q, snd st)
  | OSetBody b => (fst st, b)
  | OReadBody _ => st
  end.

(* the results of the reads, in order *)
Fixpoint run_ops (st : rstate) (ops : list op) : list (qres fdict) :=
  match ops with
  | [] => []
  | ORead a :: r => read_one (fst st) (snd st) a :: run_ops st r
  | o :: r => run_ops (apply_op st o) r
  end.

(* ---- correspondence interface ---- *)

Definition enc_fval (v : fval) : list Z :=
  match v with
  | VStr s => 0%Z :: enc_str s
  | VList l => 1%Z :: enc_list enc_str l
  end.

Definition enc_fdict (d : fdict) : list Z := enc_list (fun kv => enc_str (fst kv) ++ enc_fval (snd kv)) d.

Definition enc_qres {A} (f : A -> list Z) (r : qres A) : list Z :=
  match r with
  | QDone d => 0%Z :: f d
  | QOutOfFuel => [9%Z]
  end.

Definition enc_opt_str (o : option (list N)) : list Z := enc_option enc_str o.

Definition with_str (r : list Z) (f : str -> list Z -> list Z) : list Z :=
  match dec_str r with Some (s, r') => f s r' | None => bad_input end.

(* first integer = kind:
     0 query(qs)          1 forms(body)        2 params(qs, body)     3 parse_qsl(qs) pairs
    4 read_seq(qs, body, order)   (order: 0 query, 1 forms, 2 params)
    6 run_ops((qs, body), ops)    (op: 0 a = read | 1 str = set QUERY_STRING | 2 bytes = set body | 3 n = body.read(n))
    10 utf8_encode s     11 utf8_dec bs       12 utf8_dec_replace bs
    20 quote s           21 quote_plus s      22 unquote s            23 unquote_to_bytes s (ASCII)
    24 urlencode pairs   25 urlencode_q pairs 26 quote(s, safe='/')                           *)
Definition corr_C18_base (inp : list Z) : list Z :=
  match inp with
  | 0%Z :: r => with_str r (fun qs _ => enc_qres enc_fdict (query qs))
  | 1%Z :: r => with_str r (fun b _ => enc_qres enc_fdict (forms_urlencoded b))
  | 2%Z :: r => with_str r (fun qs r' => with_str r' (fun b _ => enc_qres enc_fdict (params qs b)))
  | 3%Z :: r => with_str r (fun qs _ =>
                  enc_qres (enc_list (fun kv => enc_str (fst kv) ++ enc_str (snd kv))) (parse_qsl_pairs qs))
  | 4%Z :: r => with_str r (fun qs r' => with_str r' (fun b r'' =>
                  match dec_list dec_Z r'' with
                  | Some (order, _) =>
                    enc_list (enc_qres enc_fdict)
                             (read_seq qs b (map (fun z => if Z.eqb z 0 then AQuery
                                                           else if Z.eqb z 1 then AForms else AParams) order))
                  | None => bad_input
                  end))
  | 6%Z :: r => with_str r (fun qs r' => with_str r' (fun b r'' =>
                  match dec_list (fun l => match l with
                                           | 0%Z :: z :: l' => Some (ORead (if Z.eqb z 0 then AQuery
                                                                            else if Z.eqb z 1 then AForms else AParams), l')
                                           | 1%Z :: l' => match dec_str l' with
                                                          | Some (s, l'') => Some (OSetQs s, l'') | None => None end
                                           | 2%Z :: l' => match dec_str l' with
                                                          | Some (s, l'') => Some (OSetBody s, l'') | None => None end
                                           | 3%Z :: n :: l' => Some (OReadBody n, l')
                                           | _ => None
                                           end) r'' with
                  | Some (ops, _) => enc_list (enc_qres enc_fdict) (run_ops (qs, b) ops)
                  | None => bad_input
                  end))
  | 10%Z :: r => with_str r (fun s _ => enc_opt_str (utf8_encode s))
  | 11%Z :: r => with_str r (fun s _ => enc_opt_str (utf8_dec s))
  | 12%Z :: r => with_str r (fun s _ => enc_str (utf8_dec_replace s))
  | 20%Z :: r => with_str r (fun s _ => enc_str (quote s))
  | 21%Z :: r => with_str r (fun s _ => enc_str (quote_plus s))
  | 22%Z :: r => with_str r (fun s _ => enc_str (unquote s))
  | 23%Z :: r => with_str r (fun s _ => enc_str (unquote_to_bytes s))
  | 24%Z :: r =>
    match dec_list (fun l => match dec_str l with
                             | Some (k, l1) => match dec_str l1 with
                                               | Some (v, l2) => Some ((k, v), l2)
                                               | None => None end
                             | None => None end) r with
    | Some (ps, _) => enc_str (urlencode ps)
    | None => bad_input
    end
  | 25%Z :: r =>
    match dec_list (fun l => match dec_str l with
                             | Some (k, l1) => match dec_str l1 with
                                               | Some (v, l2) => Some ((k, v), l2)
                                               | None => None end
                             | None => None end) r with
    | Some (ps, _) => enc_str (urlencode_q ps)
    | None => bad_input
    end
  | 26%Z :: r => with_str r (fun s _ => enc_str (quote_gen (fun b => b =? 47) s))
  | _ => bad_input
  end.
