(* Qsl.v — model of ombott/request_pkg/helpers.py:parse_qsl and of its three
   callers (BodyMixin.query, the urlencoded branch of BodyMixin.POST/forms,
   PropsMixin.params).  No proofs in this file.

   A str is a list of code points.  No statement of this path can raise:
   slicing clamps, urllib.parse.unquote is total on str (errors='replace'),
   dict keys are str.  The only non-value outcome of the model is QOutOfFuel. *)
From Verif Require Import lib.Base lib.Str lib.Utf8 lib.Pct.
Local Open Scope N_scope.

(* ---- insertion-ordered dict with str keys (Python dict semantics) ---- *)

Section Dict.
Context {V : Type}.

Fixpoint dict_get (d : list (str * V)) (k : str) : option V :=
  match d with
  | [] => None
  | (k', v) :: d' => if str_eqb k' k then Some v else dict_get d' k
  end.

(* d[k] = v : an existing key keeps its position *)
Fixpoint dict_set (d : list (str * V)) (k : str) (v : V) : list (str * V) :=
  match d with
  | [] => [(k, v)]
  | (k', v') :: d' => if str_eqb k' k then (k', v) :: d' else (k', v') :: dict_set d' k v
  end.
End Dict.

(* a value of the FormsDict: a str, or a list of str for a repeated key *)
Inductive fval := VStr (s : str) | VList (l : list str).

Definition fdict := list (str * fval).

(* ---- the [add] closure of the setitem mode (helpers.py:82-92) ----
     _seen  : key -> first value
     _lists : key -> the list object that was stored into the target dict
   The list in _lists[k] IS the object stored under k in the target
   (tmp = _lists[k] = [...]; setitem(k, tmp)), so vlist.append(v) changes the
   target's value too: the model writes it to both places. *)
Record add_state := mkAdd {
  a_seen : list (str * str);
  a_lists : list (str * list str);
  a_out : fdict
}.

Definition add_init (d : fdict) : add_state := mkAdd [] [] d.

Definition add_setitem (k v : str) (st : add_state) : add_state :=
  match dict_get (a_lists st) k with
  | Some (x :: vl) =>                                    (* if vlist: vlist.append(v) *)
    let vl' := (x :: vl) ++ [v] in
    mkAdd (a_seen st) (dict_set (a_lists st) k vl') (dict_set (a_out st) k (VList vl'))
  | _ =>
    match dict_get (a_seen st) k with
    | Some first =>                                      (* elif k in _seen *)
      let tmp := [first; v] in
      mkAdd (a_seen st) (dict_set (a_lists st) k tmp) (dict_set (a_out st) k (VList tmp))
    | None =>                                            (* setitem(k, _seen.setdefault(k, v)) *)
      mkAdd (dict_set (a_seen st) k v) (a_lists st) (dict_set (a_out st) k (VStr v))
    end
  end.

(* the other two modes: append=... / container.append *)
Definition add_pair (k v : str) (st : list (str * str)) : list (str * str) := st ++ [(k, v)].

(* ---- the scanner ---- *)

(*   idx = 0; c = None
     for idx, c in enumerate(s):
         if stop(c): break
     else:
         idx += 1
   [n] is the enumerate counter of the head of [s]; (idx, c) are the current
   values of the loop variables.  Empty s: the body never runs and the else
   clause gives idx = 1, c = None. *)
Fixpoint for_else (stop : N -> bool) (s : str) (n idx : nat) (c : option N) : nat * option N :=
  match s with
  | [] => (S idx, c)
  | x :: s' => if stop x then (n, Some x) else for_else stop s' (S n) n (Some x)
  end.

Definition is_eq_or_amp (c : N) : bool := (c =? 61) || (c =? 38).
Definition is_amp (c : N) : bool := c =? 38.
Definition opt_is (c : option N) (x : N) : bool := match c with Some y => y =? x | None => false end.

(* urlunquote(x.replace('+', ' ')) *)
Definition decode_component (x : str) : str := unquote (replace_char N.eqb 43 [32] x).

Section Loop.
Context {St : Type} (add : str -> str -> St -> St).

(* helpers.py:100-128, one iteration of [while i < L] per unit of fuel *)
Fixpoint qsl_loop (fuel : nat) (qs : str) (i : nat) (st : St) : option St :=
  match fuel with
  | O => None
  | S f =>
    if Nat.ltb i (length qs) then
      let '(idx, c) := for_else is_eq_or_amp (skipn i qs) 0 0 None in
      let j := (i + idx)%nat in
      let key := slice qs i j in
      let i := (j + 1)%nat in                               (* skip '=' or '&' *)
      match key with
      | [] => qsl_loop f qs i st                            (* if not key: continue *)
      | _ =>
        let key := decode_component key in
        if opt_is c 38 then qsl_loop f qs i (add key [] st)
        else
          let '(idx, c) := for_else is_amp (skipn i qs) 0 0 None in
          let j := (i + idx)%nat in
          let value := decode_component (slice qs i j) in
          let i := (j + 1)%nat in                           (* skip '&' *)
          qsl_loop f qs i (add key value st)
      end
    else Some st
  end.

Definition qsl_run (qs : str) (st : St) : option St := qsl_loop (length qs + 1) qs 0 st.
End Loop.

Inductive qres (A : Type) := QDone (d : A) | QOutOfFuel.
Arguments QDone {A} d.
Arguments QOutOfFuel {A}.

Definition qres_of {A B} (f : A -> B) (o : option A) : qres B :=
  match o with Some a => QDone (f a) | None => QOutOfFuel end.

(* parse_qsl(qs) : list of pairs *)
Definition parse_qsl_pairs (qs : str) : qres (list (str * str)) :=
  qres_of (fun x => x) (qsl_run add_pair qs []).

(* parse_qsl(qs, setitem=d.__setitem__) on the dict d: the dict afterwards *)
Definition parse_qsl_into (d : fdict) (qs : str) : qres fdict :=
  qres_of a_out (qsl_run add_setitem qs (add_init d)).

(* BodyMixin.query (body_mixin.py:135): ret = FormsDict(); if qs: parse_qsl(qs, setitem=ret.__setitem__) *)
Definition query (qs : str) : qres fdict :=
  match qs with
  | [] => QDone []
  | _ => parse_qsl_into [] qs
  end.

(* BodyMixin.POST, urlencoded branch (body_mixin.py:181):
   parse_qsl(touni(self._get_body_string(), 'latin1'), setitem=post.__setitem__) *)
Definition forms_urlencoded (body : list N) : qres fdict :=
  parse_qsl_into [] (latin1_dec body).

(* PropsMixin.params (props_mixin.py:74): FormsDict(self.query, **self.forms) *)
Definition dict_update (d e : fdict) : fdict := fold_left (fun acc kv => dict_set acc (fst kv) (snd kv)) e d.

Definition params (qs : str) (body : list N) : qres fdict :=
  match query qs, forms_urlencoded body with
  | QDone q, QDone f => QDone (dict_update q f)
  | _, _ => QOutOfFuel
  end.

(* ---- one request, several reads of query / forms / params in some order ----
   Each accessor builds a fresh FormsDict from the environ (QUERY_STRING, body)
   and caches it; params is a NEW dict (FormsDict(self.query, **self.forms)),
   so no read can change what another read returns: a read is a function of
   (qs, body) and of the accessor only. *)
Inductive accessor := AQuery | AForms | AParams.

Definition read_one (qs : str) (body : list N) (a : accessor) : qres fdict :=
  match a with
  | AQuery => query qs
  | AForms => forms_urlencoded body
  | AParams => params qs body
  end.

Definition read_seq (qs : str) (body : list N) (order : list accessor) : list (qres fdict) :=
  map (read_one qs body) order.

(* ---- one request that is read, copied and UPDATED through its item API ----
   request[key] = value  (Request.__setitem__, request.py:101): KeyError when the environ is
   marked read-only, nothing when the value is unchanged, otherwise the value is stored and
   _on_env_changed (request.py:51) drops the caches that depend on the key:
     QUERY_STRING   -> query, params
     wsgi.input     -> forms, files, params, post, json, body
     CONTENT_LENGTH -> content_length, forms, files, params, post, json
     CONTENT_TYPE   -> content_type, ctype, forms, files, params, post, json
     HTTP_*         -> headers, cookies          any other key: nothing
   del request[key] (request.py:118) = request[key] = "" and then the key is removed.
   So every view decodes what the request carries at that moment; the state is
   (query string, body, content type). *)

Record rstate := mkR { r_qs : str; r_body : list N; r_ct : str }.

(* body_mixin.py:180-183 (POST): ctype = self.content_type (= environ CONTENT_TYPE, '' if
   missing, .lower()); multipart/... and application/json... leave the urlencoded branch.
   (lower: ASCII letters; header values are Latin-1, where str.lower() creates no new
   ASCII letter) *)
Definition selects_urlencoded (ct : str) : bool :=
  let l := lower ct in
  negb (prefixb [109;117;108;116;105;112;97;114;116;47]%N l)                               (* 'multipart/' *)
  && negb (prefixb [97;112;112;108;105;99;97;116;105;111;110;47;106;115;111;110]%N l).     (* 'application/json' *)

(* what a view returns: a FormsDict, or the result of another body parser (not modelled here) *)
Inductive rout := RO (r : qres fdict) | ROther.

Definition view (st : rstate) (a : accessor) : rout :=
  match a with
  | AQuery => RO (query (r_qs st))
  | AForms => if selects_urlencoded (r_ct st) then RO (forms_urlencoded (r_body st)) else ROther
  | AParams => if selects_urlencoded (r_ct st) then RO (params (r_qs st) (r_body st)) else ROther
  end.

Inductive op :=
| ORead (a : accessor)                 (* request.query / .forms / .params *)
| OCopy (a : accessor)                 (* FormsDict.copy() of the view (helpers.py:134); the copy is then mutated *)
| OAttr (a : accessor) (name : str)    (* FormsDict.__getattr__ (helpers.py:137): view.<name>, None when missing *)
| OSetQs (qs : str)                    (* request['QUERY_STRING'] = qs *)
| ODelQs                               (* del request['QUERY_STRING'] *)
| OSetBody (b : list N)                (* request['wsgi.input'] = BytesIO(b); request['CONTENT_LENGTH'] = str(len(b)) *)
| OReadBody (n : Z)                    (* request.body.read(n): body rewinds, _get_body_string rewinds again *)
| OSetCtype (ct : str)                 (* request['CONTENT_TYPE'] = ct *)
| OSetOther.                           (* request['HTTP_X'] = ..., request['x'] = ... : no view depends on it *)

(* ro = environ['ombott.request.readonly']: every assignment raises KeyError and changes nothing *)
Definition apply_op (ro : bool) (st : rstate) (o : op) : rstate :=
  if ro then st else
  match o with
  | OSetQs q => mkR q (r_body st) (r_ct st)
  | ODelQs => mkR [] (r_body st) (r_ct st)
  | OSetBody b => mkR (r_qs st) b (r_ct st)
  | OSetCtype ct => mkR (r_qs st) (r_body st) ct
  | _ => st
  end.

Definition attr_of (name : str) (r : rout) : rout :=
  match r with
  | RO (QDone d) => RO (QDone match dict_get d name with Some v => [(name, v)] | None => [] end)
  | x => x
  end.

(* the observation an operation produces (None: it only updates) *)
Definition out_of (st : rstate) (o : op) : option rout :=
  match o with
  | ORead a => Some (view st a)
  | OCopy a => Some (view st a)
  | OAttr a name => Some (attr_of name (view st a))
  | _ => None
  end.

Fixpoint run_ops (ro : bool) (st : rstate) (ops : list op) : list rout :=
  match ops with
  | [] => []
  | o :: r =>
    match out_of st o with
    | Some x => x :: run_ops ro st r
    | None => run_ops ro (apply_op ro st o) r
    end
  end.

(* ---- one application object serving several requests in a row: a fresh environ per
   request, nothing of a previous request is visible ---- *)
Definition serve_all (reqs : list (str * list N)) : list (list (qres fdict)) :=
  map (fun qb => [query (fst qb); forms_urlencoded (snd qb); params (fst qb) (snd qb)]) reqs.

(* ---- helpers.py:13 cache_in: a memoising property with a custom storage ----
   storage is an attribute (cache_in('_x')) or a key of a dict attribute
   (cache_in('environ[ k ]')): same behaviour.  The getter of the model returns
   base + (number of earlier getter calls), so a recomputation is visible. *)
Inductive cop := CGet | CSet (v : Z) | CDel.

Inductive cout :=
| CVal (v : Z)      (* value returned by fget *)
| COk               (* fset / fdel succeeded *)
| CReadOnly         (* AttributeError("Read-Only property.") *)
| CMissing          (* fdel with nothing cached: AttributeError / KeyError *)
| CGetterErr.       (* getter raised AttributeError -> PropertyGetterError; nothing is cached *)

Record cstate := mkC { c_cached : option Z; c_calls : nat }.

Definition cache_step (read_only getter_fails : bool) (base : Z) (st : cstate) (o : cop) : cout * cstate :=
  match o with
  | CGet =>
    match c_cached st with
    | Some v => (CVal v, st)
    | None =>
      if getter_fails then (CGetterErr, mkC None (S (c_calls st)))
      else let v := (base + Z.of_nat (c_calls st))%Z in (CVal v, mkC (Some v) (S (c_calls st)))
    end
  | CSet v => if read_only then (CReadOnly, st) else (COk, mkC (Some v) (c_calls st))
  | CDel =>
    if read_only then (CReadOnly, st)
    else match c_cached st with
         | Some _ => (COk, mkC None (c_calls st))
         | None => (CMissing, st)
         end
  end.

Fixpoint cache_run (ro gf : bool) (base : Z) (st : cstate) (ops : list cop) : list cout :=
  match ops with
  | [] => []
  | o :: r => let '(x, st') := cache_step ro gf base st o in x :: cache_run ro gf base st' r
  end.

(* ---- correspondence interface ---- *)

Definition enc_fval (v : fval) : list Z :=
  match v with
  | VStr s => 0%Z :: enc_str s
  | VList l => 1%Z :: enc_list enc_str l
  end.

Definition enc_fdict (d : fdict) : list Z := enc_list (fun kv => enc_str (fst kv) ++ enc_fval (snd kv)) d.

Definition enc_qres {A} (f : A -> list Z) (r : qres A) : list Z :=
  match r with
  | QDone d => 0%Z :: f d
  | QOutOfFuel => [9%Z]
  end.

Definition enc_opt_str (o : option (list N)) : list Z := enc_option enc_str o.

Definition with_str (r : list Z) (f : str -> list Z -> list Z) : list Z :=
  match dec_str r with Some (s, r') => f s r' | None => bad_input end.

Definition acc_of (z : Z) : accessor := if Z.eqb z 0 then AQuery else if Z.eqb z 1 then AForms else AParams.

Definition dec_pair (l : list Z) : option ((str * str) * list Z) :=
  match dec_str l with
  | Some (k, l1) => match dec_str l1 with Some (v, l2) => Some ((k, v), l2) | None => None end
  | None => None
  end.

(* op codes: 0 a read | 1 s set_qs | 2 b set_body | 3 n read_body | 4 a copy | 5 a name attr |
             6 del_qs | 7 s set_ctype | 8 set_other *)
Definition dec_op (l : list Z) : option (op * list Z) :=
  match l with
  | 0%Z :: z :: l' => Some (ORead (acc_of z), l')
  | 1%Z :: l' => match dec_str l' with Some (s, l'') => Some (OSetQs s, l'') | None => None end
  | 2%Z :: l' => match dec_str l' with Some (s, l'') => Some (OSetBody s, l'') | None => None end
  | 3%Z :: n :: l' => Some (OReadBody n, l')
  | 4%Z :: z :: l' => Some (OCopy (acc_of z), l')
  | 5%Z :: z :: l' => match dec_str l' with Some (s, l'') => Some (OAttr (acc_of z) s, l'') | None => None end
  | 6%Z :: l' => Some (ODelQs, l')
  | 7%Z :: l' => match dec_str l' with Some (s, l'') => Some (OSetCtype s, l'') | None => None end
  | 8%Z :: l' => Some (OSetOther, l')
  | _ => None
  end.

Definition enc_rout (x : rout) : list Z :=
  match x with
  | RO r => enc_qres enc_fdict r
  | ROther => [5%Z]
  end.

(* first integer = kind:
     0 query(qs)          1 forms(body)        2 params(qs, body)     3 parse_qsl(qs) pairs
    4 read_seq(qs, body, order)   (order: 0 query, 1 forms, 2 params)
    6 ro qs body ctype ops : run_ops           7 mode d0 qs : parse_qsl append / setitem into d0
    8 requests : serve_all                     9 ro getter_fails base ops : cache_in
    10 utf8_encode s     11 utf8_dec bs       12 utf8_dec_replace bs
    20 quote s           21 quote_plus s      22 unquote s            23 unquote_to_bytes s (ASCII)
    24 urlencode pairs   25 urlencode_q pairs 26 quote(s, safe='/')                           *)
Definition corr_C18_base (inp : list Z) : list Z :=
  match inp with
  | 0%Z :: r => with_str r (fun qs _ => enc_qres enc_fdict (query qs))
  | 1%Z :: r => with_str r (fun b _ => enc_qres enc_fdict (forms_urlencoded b))
  | 2%Z :: r => with_str r (fun qs r' => with_str r' (fun b _ => enc_qres enc_fdict (params qs b)))
  | 3%Z :: r => with_str r (fun qs _ =>
                  enc_qres (enc_list (fun kv => enc_str (fst kv) ++ enc_str (snd kv))) (parse_qsl_pairs qs))
  | 4%Z :: r => with_str r (fun qs r' => with_str r' (fun b r'' =>
                  match dec_list dec_Z r'' with
                  | Some (order, _) =>
                    enc_list (enc_qres enc_fdict)
                             (read_seq qs b (map (fun z => if Z.eqb z 0 then AQuery
                                                           else if Z.eqb z 1 then AForms else AParams) order))
                  | None => bad_input
                  end))
  | 6%Z :: ro :: r => with_str r (fun qs r' => with_str r' (fun b r'' => with_str r'' (fun ct r3 =>
                  match dec_list dec_op r3 with
                  | Some (ops, _) => enc_list enc_rout (run_ops (negb (Z.eqb ro 0)) (mkR qs b ct) ops)
                  | None => bad_input
                  end)))
  | 7%Z :: mode :: r =>
    (* parse_qsl directly: mode 0 = append=..., mode 1 = setitem into the given dict *)
    match dec_list dec_pair r with
    | Some (d0, r') =>
      with_str r' (fun qs _ =>
        if Z.eqb mode 0
        then enc_qres (enc_list (fun kv => enc_str (fst kv) ++ enc_str (snd kv)))
                      (qres_of (fun x => x) (qsl_run add_pair qs d0))
        else enc_qres enc_fdict (parse_qsl_into (map (fun kv => (fst kv, VStr (snd kv))) d0) qs))
    | None => bad_input
    end
  | 8%Z :: r =>
    match dec_list (fun l => match dec_str l with
                             | Some (q, l1) => match dec_str l1 with
                                               | Some (b, l2) => Some ((q, b), l2) | None => None end
                             | None => None end) r with
    | Some (reqs, _) => enc_list (enc_list (enc_qres enc_fdict)) (serve_all reqs)
    | None => bad_input
    end
  | 9%Z :: ro :: gf :: base :: r =>
    match dec_list (fun l => match l with
                             | 0%Z :: l' => Some (CGet, l')
                             | 1%Z :: v :: l' => Some (CSet v, l')
                             | 2%Z :: l' => Some (CDel, l')
                             | _ => None end) r with
    | Some (ops, _) =>
      enc_list (fun x => match x with
                         | CVal v => [0%Z; v] | COk => [1%Z] | CReadOnly => [2%Z]
                         | CMissing => [3%Z] | CGetterErr => [4%Z] end)
               (cache_run (negb (Z.eqb ro 0)) (negb (Z.eqb gf 0)) base (mkC None 0) ops)
    | None => bad_input
    end
  | 10%Z :: r => with_str r (fun s _ => enc_opt_str (utf8_encode s))
  | 11%Z :: r => with_str r (fun s _ => enc_opt_str (utf8_dec s))
  | 12%Z :: r => with_str r (fun s _ => enc_str (utf8_dec_replace s))
  | 20%Z :: r => with_str r (fun s _ => enc_str (quote s))
  | 21%Z :: r => with_str r (fun s _ => enc_str (quote_plus s))
  | 22%Z :: r => with_str r (fun s _ => enc_str (unquote s))
  | 23%Z :: r => with_str r (fun s _ => enc_str (unquote_to_bytes s))
  | 24%Z :: r =>
    match dec_list (fun l => match dec_str l with
                             | Some (k, l1) => match dec_str l1 with
                                               | Some (v, l2) => Some ((k, v), l2)
                                               | None => None end
                             | None => None end) r with
    | Some (ps, _) => enc_str (urlencode ps)
    | None => bad_input
    end
  | 25%Z :: r =>
    match dec_list (fun l => match dec_str l with
                             | Some (k, l1) => match dec_str l1 with
                                               | Some (v, l2) => Some ((k, v), l2)
                                               | None => None end
                             | None => None end) r with
    | Some (ps, _) => enc_str (urlencode_q ps)
    | None => bad_input
    end
  | 26%Z :: r => with_str r (fun s _ => enc_str (quote_gen (fun b => b =? 47) s))
  | _ => bad_input
  end.
