(* Cookie.v — model of the cookie path (C15):
     ombott/common_helpers.py : cookie_encode, cookie_decode, _lscmp
     ombott/response.py       : BaseResponse.set_cookie, the Set-Cookie part of headerlist
     ombott/request_pkg/props_mixin.py : PropsMixin.cookies, get_cookie
     CPython 3.12 http/cookies.py : _quote, _unquote, Morsel.set, SimpleCookie.__setitem__,
                                    BaseCookie.__parse_string with _CookiePattern
   External behaviour enters as Section variables: the MAC, pickle.dumps / pickle.loads.
   base64 is concrete (lib/Base64.v).  No proofs in this file. *)
From Coq Require Import String Ascii.
From Verif Require Import lib.Base lib.Str lib.Utf8 lib.Base64 lib.HmacMd5.
Local Open Scope N_scope.

Definition L (s : string) : str := List.map N_of_ascii (list_ascii_of_string s).
Definition memN (c : N) (l : list N) : bool := existsb (N.eqb c) l.
Definition mem_str (s : str) (l : list str) : bool := existsb (str_eqb s) l.

(* ------------------------------------------------------------------ *)
(* http.cookies: character classes                                     *)
(* ------------------------------------------------------------------ *)
Definition is_digit (c : N) : bool := (48 <=? c) && (c <=? 57).
Definition is_alpha (c : N) : bool := ((65 <=? c) && (c <=? 90)) || ((97 <=? c) && (c <=? 122)).
Definition is_alnum (c : N) : bool := is_digit c || is_alpha c.

(* cookies.py:159  _LegalChars = ascii_letters + digits + !#$%&'*+-.^_`|~:  *)
Definition legal_extra : list N := [33;35;36;37;38;39;42;43;45;46;94;95;96;124;126;58].
Definition legal_char (c : N) : bool := is_alnum c || memN c legal_extra.
(* cookies.py:160  _UnescapedChars = _LegalChars + ' ()/<=>?@[]{}' *)
Definition unescaped_extra : list N := [32;40;41;47;60;61;62;63;64;91;93;123;125].
Definition unescaped_char (c : N) : bool := legal_char c || memN c unescaped_extra.

(* cookies.py:169  _is_legal_key = re.compile('[%s]+' % re.escape(_LegalChars)).fullmatch *)
Definition is_legal_key (s : str) : bool :=
  match s with [] => false | _ => forallb legal_char s end.

(* cookies.py:162  _Translator: every n < 256 outside _UnescapedChars -> '\ooo';
   DQUOTE -> backslash DQUOTE ; backslash -> two backslashes.  str.translate leaves
   code points >= 256 alone.  (DQUOTE stands for the double-quote character, 34.) *)
Definition octal3 (n : N) : str := [92; 48 + n / 64; 48 + (n / 8) mod 8; 48 + n mod 8].
Definition translate_char (c : N) : str :=
  if c =? 34 then [92; 34]
  else if c =? 92 then [92; 92]
  else if (c <? 256) && negb (unescaped_char c) then octal3 c
  else [c].

(* cookies.py:171 _quote *)
Definition quote (s : str) : str :=
  if is_legal_key s then s else 34 :: flat_map translate_char s ++ [34].

(* cookies.py:187 _unquote.  The loop looks for the first _QuotePatt match
   ([\\]. — '.' does not match '\n') and the first _OctalPatt match
   (\\[0-3][0-7][0-7]); an octal match can only start where a quote match starts,
   so the left-most backslash that is followed by a character other than '\n'
   decides: octal escape if the three digits follow, else the next character is
   taken literally.  A backslash at the very end or before '\n' is copied. *)
Definition is_oct (lo hi c : N) : bool := (lo <=? c) && (c <=? hi).
Definition octal_at (r : str) : option N :=
  match r with
  | a :: b :: c :: _ =>
    if is_oct 48 51 a && is_oct 48 55 b && is_oct 48 55 c
    then Some ((a - 48) * 64 + (b - 48) * 8 + (c - 48)) else None
  | _ => None
  end.

Fixpoint unq_go (skip : nat) (s : str) : str :=
  match s with
  | [] => []
  | c :: r =>
    match skip with
    | S k => unq_go k r
    | O =>
      if c =? 92 then
        match r with
        | [] => [c]
        | d :: _ =>
          match octal_at r with
          | Some v => v :: unq_go 3 r
          | None => if d =? 10 then c :: unq_go 0 r else d :: unq_go 1 r
          end
        end
      else c :: unq_go 0 r
    end
  end.

Definition unquote (s : str) : str :=
  match s with
  | a :: _ :: _ =>
    if (a =? 34) && (last s 0 =? 34) then unq_go 0 (removelast (tl s)) else s
  | _ => s                                  (* len(str) < 2 *)
  end.

(* ------------------------------------------------------------------ *)
(* Morsel._reserved, Morsel._flags                                      *)
(* ------------------------------------------------------------------ *)
Definition reserved_keys : list str :=
  [L "expires"; L "path"; L "comment"; L "domain"; L "max-age"; L "secure";
   L "httponly"; L "version"; L "samesite"].
Definition flag_keys : list str := [L "secure"; L "httponly"].
Definition is_reserved (k : str) : bool := mem_str (lower k) reserved_keys.

(* ------------------------------------------------------------------ *)
(* BaseCookie.__parse_string with _CookiePattern (re.ASCII | re.VERBOSE)
     \s* (?P<key>[KC]+?) ( \s*=\s* (?P<val> DQUOTE(?:[^\\DQUOTE]|\\.)*DQUOTE
                                          | \w{3},\s[\w\d\s-]{9,11}\s[\d:]{8}\sGMT
                                          | [VC]* ) )? \s* (\s+|;|$)
   written as the deterministic scanner that yields the backtracking
   engine's first match (validated by the 'parse' mode of corr_C15).    *)
(* ------------------------------------------------------------------ *)
Definition is_ws (c : N) : bool := (c =? 32) || ((9 <=? c) && (c <=? 13)).
Definition is_word (c : N) : bool := is_alnum c || (c =? 95).
(* _LegalKeyChars = \w\d!#%&'~_`><@,:/\$\*\+\-\.\^\|\)\(\?\}\{\= *)
Definition key_extra : list N :=
  [33;35;37;38;39;126;95;96;62;60;64;44;58;47;36;42;43;45;46;94;124;41;40;63;125;123;61].
Definition key_char (c : N) : bool := is_word c || memN c key_extra.
Definition val_char (c : N) : bool := key_char c || (c =? 91) || (c =? 93).

Fixpoint span (p : N -> bool) (s : str) : str * str :=
  match s with
  | [] => ([], [])
  | c :: r => if p c then let (a, b) := span p r in (c :: a, b) else ([], s)
  end.

(* exactly n characters satisfying p *)
Fixpoint take_n (p : N -> bool) (n : nat) (s : str) : option (str * str) :=
  match n with
  | O => Some ([], s)
  | S n' => match s with
            | c :: r => if p c then
                          match take_n p n' r with
                          | Some (a, b) => Some (c :: a, b)
                          | None => None
                          end
                        else None
            | [] => None
            end
  end.

(* \s*(\s+|;|$) : the text after the match, None = no match *)
Definition trail (s : str) : option str :=
  let (w, r) := span is_ws s in
  match r with
  | [] => Some []
  | c :: r' => if c =? 59 then Some r'
               else match w with [] => None | _ => Some r end
  end.

(* after the opening quote: (?:[^\\DQUOTE]|\\.)*DQUOTE -> (text including the closing quote, rest) *)
Fixpoint qbody (s : str) : option (str * str) :=
  match s with
  | [] => None
  | c :: r =>
    if c =? 34 then Some ([34], r)
    else if c =? 92 then
      match r with
      | [] => None
      | d :: r' => if d =? 10 then None
                   else match qbody r' with
                        | Some (a, b) => Some (c :: d :: a, b)
                        | None => None
                        end
      end
    else match qbody r with
         | Some (a, b) => Some (c :: a, b)
         | None => None
         end
  end.

Definition alt_quoted (s : str) : option (str * str) :=
  match s with
  | c :: r => if c =? 34 then
                match qbody r with
                | Some (a, b) => match trail b with Some rest => Some (34 :: a, rest) | None => None end
                | None => None
                end
              else None
  | [] => None
  end.

Definition one (p : N -> bool) (s : str) : option (str * str) := take_n p 1 s.
Definition is_wds (c : N) : bool := is_word c || is_ws c || (c =? 45).   (* [\w\d\s-] *)
Definition is_dc (c : N) : bool := is_digit c || (c =? 58).               (* [\d:] *)

(* \s[\d:]{8}\sGMT then the trailer *)
Definition expires_tail (s : str) : option (str * str) :=
  match one is_ws s with
  | Some (a1, s1) =>
    match take_n is_dc 8 s1 with
    | Some (a2, s2) =>
      match one is_ws s2 with
      | Some (a3, s3) =>
        match s3 with
        | 71 :: 77 :: 84 :: s4 =>
          match trail s4 with
          | Some rest => Some (a1 ++ a2 ++ a3 ++ [71; 77; 84], rest)
          | None => None
          end
        | _ => None
        end
      | None => None
      end
    | None => None
    end
  | None => None
  end.

Definition expires_mid (n : nat) (s : str) : option (str * str) :=
  match take_n is_wds n s with
  | Some (a, s1) => match expires_tail s1 with
                    | Some (b, rest) => Some (a ++ b, rest)
                    | None => None
                    end
  | None => None
  end.

Definition alt_expires (s : str) : option (str * str) :=
  match take_n is_word 3 s with
  | Some (a0, s0) =>
    match s0 with
    | c :: s1 =>
      if c =? 44 then
        match one is_ws s1 with
        | Some (a1, s2) =>
          let pre := a0 ++ [44] ++ a1 in
          match expires_mid 11 s2 with
          | Some (m, rest) => Some (pre ++ m, rest)
          | None =>
            match expires_mid 10 s2 with
            | Some (m, rest) => Some (pre ++ m, rest)
            | None =>
              match expires_mid 9 s2 with
              | Some (m, rest) => Some (pre ++ m, rest)
              | None => None
              end
            end
          end
        | None => None
        end
      else None
    | [] => None
    end
  | None => None
  end.

Definition alt_plain (s : str) : option (str * str) :=
  let (v, r) := span val_char s in
  match trail r with Some rest => Some (v, rest) | None => None end.

(* ( \s*=\s* val )? followed by the trailer: (Some val, rest) | (None, rest) *)
Definition value_group (s : str) : option (str * str) :=
  let (_, s1) := span is_ws s in
  match s1 with
  | c :: s2 =>
    if c =? 61 then
      let (w1, s3) := span is_ws s2 in
      match alt_quoted s3 with
      | Some r => Some r
      | None =>
        match alt_expires s3 with
        | Some r => Some r
        | None =>
          match alt_plain s3 with
          | Some r => Some r
          | None =>
            (* \s* after '=' gives one blank back: empty value, the blank is the trailer *)
            match w1 with [] => None | _ => Some ([], s3) end
          end
        end
      end
    else None
  | [] => None
  end.

(* the lazy key: shortest non-empty run of key characters after which the rest matches *)
Fixpoint key_scan (acc : str) (s : str) : option (str * option str * str) :=
  let try_rest :=
    match acc with
    | [] => None
    | _ => match value_group s with
           | Some (v, rest) => Some (rev acc, Some v, rest)
           | None => match trail s with
                     | Some rest => Some (rev acc, None, rest)
                     | None => None
                     end
           end
    end in
  match try_rest with
  | Some r => Some r
  | None => match s with
            | c :: s' => if key_char c then key_scan (c :: acc) s' else None
            | [] => None
            end
  end.

Definition match_cookie (s : str) : option (str * option str * str) :=
  let (_, s0) := span is_ws s in key_scan [] s0.

Inductive pitem :=
| IAttr (key : str)                 (* M[key] = value : CookieError unless key is reserved *)
| IKeyVal (key : str) (value : str).

Inductive pres :=
| PCookies (items : list (str * str))    (* (key, value) in dict order *)
| PCookieError
| PNoFuel.

Fixpoint parse_loop (fuel : nat) (s : str) (seen : bool) (items : list pitem) : option (list pitem) :=
  match fuel with
  | O => None
  | S f =>
    match s with
    | [] => Some (rev items)                              (* while 0 <= i < n *)
    | _ =>
      match match_cookie s with
      | None => Some (rev items)                          (* no more cookies: break *)
      | Some (key, value, rest) =>
        if (hd 0 key =? 36) then                          (* key[0] == '$' *)
          if seen then parse_loop f rest seen (IAttr (tl key) :: items)
          else parse_loop f rest seen items
        else if is_reserved key then
          if negb seen then Some []                       (* invalid cookie string: return *)
          else match value with
               | None => if mem_str (lower key) flag_keys
                         then parse_loop f rest seen (IAttr key :: items)
                         else Some []
               | Some _ => parse_loop f rest seen (IAttr key :: items)
               end
        else match value with
             | Some v => parse_loop f rest true (IKeyVal key (unquote v) :: items)
             | None => Some []
             end
      end
    end
  end.

Fixpoint assoc_set {B} (k : str) (v : B) (d : list (str * B)) : list (str * B) :=
  match d with
  | [] => [(k, v)]
  | (k', v') :: r => if str_eqb k k' then (k, v) :: r else (k', v') :: assoc_set k v r
  end.

Fixpoint assoc_get {B} (k : str) (d : list (str * B)) : option B :=
  match d with
  | [] => None
  | (k', v') :: r => if str_eqb k k' then Some v' else assoc_get k r
  end.

(* second pass of __parse_string: apply the items *)
Fixpoint apply_items (items : list pitem) (d : list (str * str)) : pres :=
  match items with
  | [] => PCookies d
  | IAttr k :: r => if is_reserved k then apply_items r d else PCookieError       (* Morsel.__setitem__ *)
  | IKeyVal k v :: r =>
    if is_reserved k || negb (is_legal_key k) then PCookieError                   (* Morsel.set *)
    else apply_items r (assoc_set k v d)
  end.

(* SimpleCookie(HTTP_COOKIE) -> CookieDict((c.key, c.value) ...)  (props_mixin.py:56) *)
Definition parse_cookies (hdr : str) : pres :=
  match hdr with
  | [] => PCookies []                                   (* BaseCookie.__init__: if input *)
  | _ => match parse_loop (S (length hdr)) hdr false [] with
         | None => PNoFuel
         | Some items => apply_items items []
         end
  end.

(* ------------------------------------------------------------------ *)
(* common_helpers.py: _lscmp                                           *)
(* ------------------------------------------------------------------ *)
Fixpoint zip_diff (a b : list N) : nat :=
  match a, b with
  | x :: a', y :: b' => ((if (x =? y)%N then 0 else 1) + zip_diff a' b')%nat
  | _, _ => 0%nat
  end.
Definition lscmp (a b : list N) : bool :=
  Nat.eqb (zip_diff a b) 0 && Nat.eqb (length a) (length b).

(* bytes.split(b'?', 1) when b'?' in data *)
Definition split_qmark (d : list N) : list N * option (list N) := split_once N.eqb 63 d.

Section Signed.
Variable val : Type.                               (* a Python object *)
Variable mac : list N -> list N -> list N.         (* hmac.new(key, msg, md5).digest() *)

Inductive cval := CStr (s : str) | CObj (v : val).
Variable dumps : str -> cval -> list N.            (* pickle.dumps((name, value), -1) *)

(* what cookie_decode / get_cookie do with the unpickled object *)
Inductive lres :=
| LRaise                      (* pickle.loads raised, or dec[0] / dec[1] raised *)
| LFalsy                      (* a falsy object: get_cookie returns the default *)
| LPair (name : str) (v : cval).
Variable loads : list N -> lres.

(* common_helpers.py:38 cookie_encode(data, key); None = tob(key) raised *)
Definition cookie_encode (name : str) (v : cval) (secret : str) : option (list N) :=
  match utf8_encode secret with
  | None => None
  | Some k =>
    let msg := b64encode (dumps name v) in
    let sig := b64encode (mac k msg) in
    Some (33 :: sig ++ 63 :: msg)
  end.

Inductive dres :=
| DNone                                   (* returned None without touching the unpickler *)
| DLoaded (arg : list N) (r : lres)       (* pickle.loads(arg) was called *)
| DB64Error                               (* base64.b64decode raised (after a valid signature) *)
| DEncodeError.                           (* tob() raised *)

(* common_helpers.py:45 cookie_decode(data, key) *)
Definition cookie_decode (data : str) (secret : str) : dres :=
  match utf8_encode data, utf8_encode secret with
  | Some d, Some k =>
    if prefixb [33] d && contains_char N.eqb 63 d then      (* cookie_is_encoded *)
      match split_qmark d with
      | (sig, Some msg) =>
        if lscmp (tl sig) (b64encode (mac k msg)) then
          match b64decode msg with
          | Some arg => DLoaded arg (loads arg)
          | None => DB64Error
          end
        else DNone
      | (_, None) => DNone                                 (* unreachable: '?' in data *)
      end
    else DNone
  | _, _ => DEncodeError
  end.

(* ---- response side ---- *)
Inductive serr := SETypeError | SETooLong | SECookieError | SEEncodeError.

(* the jar: SimpleCookie as an ordered map name -> (value, coded_value) *)
Definition jar := list (str * (str * str)).

Definition nonempty (s : str) : bool := match s with [] => false | _ => true end.

(* response.py:187 set_cookie(name, value, secret) without options *)
Definition set_cookie (j : jar) (name : str) (v : cval) (secret : option str) : jar + serr :=
  let value :=
    match secret with
    | Some sec =>
      if nonempty sec then
        match cookie_encode name v sec with
        | Some b => inl b                 (* touni(): the bytes are ASCII *)
        | None => inr SEEncodeError
        end
      else match v with CStr s => inl s | CObj _ => inr SETypeError end
    | None => match v with CStr s => inl s | CObj _ => inr SETypeError end
    end in
  match value with
  | inr e => inr e
  | inl s =>
    if (4096 <? length s)%nat then inr SETooLong
    else if is_reserved name || negb (is_legal_key name) then inr SECookieError   (* Morsel.set *)
    else inl (assoc_set name (s, quote s) j)
  end.

(* Morsel.OutputString() without attributes, then .encode('utf8').decode('latin1') *)
Definition output_string (name coded : str) : str := name ++ 61 :: coded.
Definition transcode (s : str) : option str :=
  match utf8_encode s with Some b => Some (latin1_dec b) | None => None end.

Fixpoint emit_cookies (j : jar) : option (list str) :=
  match j with
  | [] => Some []
  | (name, (_, coded)) :: r =>
    match transcode (output_string name coded), emit_cookies r with
    | Some h, Some t => Some (h :: t)
    | _, _ => None
    end
  end.

(* ---- request side ---- *)
Inductive gres :=
| GDefault
| GStr (s : str)
| GVal (v : cval)
| GCookieError                (* SimpleCookie raised *)
| GRaise                      (* b64decode / loads / indexing raised *)
| GNoFuel.

(* props_mixin.py:59 get_cookie(key, default, secret) ; second component: the
   argument of pickle.loads if it was called *)
Definition get_cookie (hdr : str) (key : str) (secret : option str) : gres * option (list N) :=
  match parse_cookies hdr with
  | PCookieError => (GCookieError, None)
  | PNoFuel => (GNoFuel, None)
  | PCookies d =>
    let value := assoc_get key d in
    let sec := match secret with Some s => if nonempty s then Some s else None | None => None end in
    match sec, value with
    | Some s, Some (c :: v') =>
      match cookie_decode (c :: v') s with
      | DNone => (GDefault, None)
      | DLoaded arg LRaise => (GRaise, Some arg)
      | DLoaded arg LFalsy => (GDefault, Some arg)
      | DLoaded arg (LPair n v) => (if str_eqb n key then GVal v else GDefault, Some arg)
      | DB64Error => (GRaise, None)
      | DEncodeError => (GRaise, None)
      end
    | _, Some (c :: v') => (GStr (c :: v'), None)             (* value or default *)
    | _, _ => (GDefault, None)
    end
  end.

(* ---- two response objects: set_cookie / delete_cookie / BaseResponse.copy ----
   A morsel here also remembers whether delete_cookie put its attributes on it
   (expires = http_date(0), max-age = -1); SimpleCookie.__setitem__ keeps the
   attributes of an existing morsel, so the flag survives a later set_cookie.
   response.py:94 copy: the copy's jar is SimpleCookie().load(self._cookies.output(header='')),
   i.e. the morsels re-parsed from their own output in sorted key order — new
   objects carrying the same key, value, coded value and attribute text.  (Names
   starting with '$' are not modelled here: they are lost or raise in load, finding F18c.) *)
Definition mjar := list (str * (str * str * bool)).

Fixpoint mjar_put (name s coded : str) (del : bool) (j : mjar) : mjar :=
  match j with
  | [] => [(name, (s, coded, del))]
  | (k, (s0, c0, d0)) :: r =>
    if str_eqb name k then (k, (s, coded, d0 || del)) :: r
    else (k, (s0, c0, d0)) :: mjar_put name s coded del r
  end.

Definition mjar_set (j : mjar) (name : str) (v : cval) (secret : option str) (del : bool) : mjar + serr :=
  match set_cookie [] name v secret with
  | inl ((_, (s, coded)) :: _) => inl (mjar_put name s coded del j)
  | inl [] => inl j
  | inr e => inr e
  end.

(* response.py:241 delete_cookie(key): set_cookie(key, '', max_age=-1, expires=0) *)
Definition mjar_delete (j : mjar) (name : str) : mjar + serr := mjar_set j name (CStr []) None true.

Fixpoint str_ltb (a b : str) : bool :=
  match a, b with
  | _, [] => false
  | [], _ :: _ => true
  | x :: a', y :: b' => if x <? y then true else if y <? x then false else str_ltb a' b'
  end.

Fixpoint mjar_insert (e : str * (str * str * bool)) (j : mjar) : mjar :=
  match j with
  | [] => [e]
  | e' :: r => if str_ltb (fst e') (fst e) then e' :: mjar_insert e r else e :: j
  end.

(* sorted(self.items()) in BaseCookie.output *)
Definition mjar_copy (j : mjar) : mjar := fold_right mjar_insert [] j.

Definition expired_attrs : str :=
  L "; expires=Thu, 01 Jan 1970 00:00:00 GMT; Max-Age=-1".

Fixpoint emit_mjar (j : mjar) : option (list str) :=
  match j with
  | [] => Some []
  | (name, (_, coded, del)) :: r =>
    match transcode (output_string name coded ++ (if del then expired_attrs else [])), emit_mjar r with
    | Some h, Some t => Some (h :: t)
    | _, _ => None
    end
  end.

(* the original response and, once copy() was called, the copy *)
Inductive rop :=
| RSet (on_copy : bool) (name : str) (v : cval) (secret : option str)
| RDel (on_copy : bool) (name : str)
| RCopy
| RApply (cookies : list (str * cval * option str)).
  (* an HTTPResponse / HTTPError with these cookies set on it is raised or returned and applied to the
     (original) response: response.py:274 apply — its jar REPLACES the response's jar, unless it is empty *)

Fixpoint mjar_set_all (j : mjar) (cs : list (str * cval * option str)) : mjar + serr :=
  match cs with
  | [] => inl j
  | (n, v, s) :: r => match mjar_set j n v s false with
                      | inl j' => mjar_set_all j' r
                      | inr e => inr e
                      end
  end.

Definition rpair := (mjar * option mjar)%type.

Definition rstep (st : rpair) (o : rop) : rpair * option serr * bool :=   (* state, exception, skipped *)
  let '(r, c) := st in
  let upd (on_copy : bool) (f : mjar -> mjar + serr) : rpair * option serr * bool :=
    if on_copy then
      match c with
      | None => (st, None, true)
      | Some cj => match f cj with inl cj' => ((r, Some cj'), None, false) | inr e => (st, Some e, false) end
      end
    else match f r with inl r' => ((r', c), None, false) | inr e => (st, Some e, false) end in
  match o with
  | RSet oc name v secret => upd oc (fun j => mjar_set j name v secret false)
  | RDel oc name => upd oc (fun j => mjar_delete j name)
  | RCopy => ((r, Some (mjar_copy r)), None, false)
  | RApply cs => match mjar_set_all [] cs with
                 | inl [] => (st, None, false)
                 | inl hj => ((hj, c), None, false)
                 | inr e => (st, Some e, false)
                 end
  end.

(* several get_cookie calls on ONE request object: the request keeps no state
   between reads (get_cookie reads self.cookies, which is cached but never changed,
   and caches nothing itself), so the reads are made one after the other on the
   same header *)
Fixpoint get_cookie_seq (hdr : str) (reads : list (str * option str))
  : list (gres * option (list N)) :=
  match reads with
  | [] => []
  | (n, s) :: r => get_cookie hdr n s :: get_cookie_seq hdr r
  end.

(* ---- every way a request exposes its cookies, and updates of the Cookie header ----
   helpers.py:144 CookieDict: item access returns the parsed value as it is;
   getunicode / attribute access / decode() re-read it as Latin-1 bytes in
   input_encoding (utf8 by default); errors there (UnicodeError) give the default.
   props_mixin.py:47 headers: WSGIHeaderDict over the environ.
   request.py:__setitem__ clears the cached cookies when HTTP_COOKIE changes, and
   __init__ on a new environ starts afresh: the request is a function of the header
   currently in force ([None] = the environ has no HTTP_COOKIE). *)
Definition fix_enc (utf8 : bool) (s : str) : option str :=
  match latin1_enc s with
  | Some b => if utf8 then utf8_dec b else Some (latin1_dec b)
  | None => None                                      (* UnicodeEncodeError *)
  end.

Fixpoint fix_all (utf8 : bool) (d acc : list (str * str)) : option (list (str * str)) :=
  match d with
  | [] => Some acc
  | (k, v) :: r =>
    match fix_enc utf8 k, fix_enc utf8 v with
    | Some k', Some v' => fix_all utf8 r (assoc_set k' v' acc)      (* copy[fix(key)] = fix(value) *)
    | _, _ => None                                                  (* UnicodeError propagates *)
    end
  end.

Inductive qop :=
| QGet (name : str) (secret : option str)     (* request.get_cookie(name, secret=...) *)
| QItem (name : str)                          (* request.cookies.get(name) *)
| QAttr (name : str) (utf8 : bool)            (* request.cookies.getunicode(name[, 'latin1']) / attribute access *)
| QDecode (utf8 : bool)                       (* request.cookies.decode([...]) *)
| QHeader                                     (* request.headers['Cookie'] *)
| QSetHeader (h : option str).                (* request['HTTP_COOKIE'] = h / del / __init__(new environ) *)

Inductive qres :=
| QRGet (g : gres) (loaded : option (list N))
| QRStr (s : option str)                      (* None = the default / KeyError *)
| QRDict (d : option (list (str * str)))      (* None = UnicodeError *)
| QRCookieError
| QRNoFuel.

Definition cookie_header (h : option str) : str := match h with Some s => s | None => [] end.

Definition qread (h : option str) (o : qop) : qres :=
  match o with
  | QGet n s => let (g, l) := get_cookie (cookie_header h) n s in QRGet g l
  | QHeader => QRStr h
  | QSetHeader _ => QRStr None
  | _ =>
    match parse_cookies (cookie_header h) with
    | PCookieError => QRCookieError
    | PNoFuel => QRNoFuel
    | PCookies d =>
      match o with
      | QItem n => QRStr (assoc_get n d)
      | QAttr n u => QRStr (match assoc_get n d with Some v => fix_enc u v | None => None end)
      | QDecode u => QRDict (fix_all u d [])
      | _ => QRStr None
      end
    end
  end.

(* the results of the reads, in order; an update only changes the header in force *)
Fixpoint request_run (h : option str) (ops : list qop) : list qres :=
  match ops with
  | [] => []
  | QSetHeader h' :: r => request_run h' r
  | o :: r => qread h o :: request_run h r
  end.

End Signed.

Arguments CStr {val}. Arguments CObj {val}.
Arguments LRaise {val}. Arguments LFalsy {val}. Arguments LPair {val}.
Arguments DNone {val}. Arguments DLoaded {val}. Arguments DB64Error {val}. Arguments DEncodeError {val}.
Arguments GDefault {val}. Arguments GStr {val}. Arguments GVal {val}.
Arguments GCookieError {val}. Arguments GRaise {val}. Arguments GNoFuel {val}.
Arguments RSet {val}. Arguments RDel {val}. Arguments RCopy {val}. Arguments RApply {val}.
Arguments QRGet {val}. Arguments QRStr {val}. Arguments QRDict {val}. Arguments QRCookieError {val}. Arguments QRNoFuel {val}.

(* ------------------------------------------------------------------ *)
(* correspondence interface                                            *)
(* ------------------------------------------------------------------ *)

(* In the correspondence a Python object is represented by its pickle
   (computed by the harness with the real pickle module): val := list N,
   dumps returns it, loads recognises the pickles of the case. *)
Definition cdumps (_ : str) (v : @cval (list N)) : list N :=
  match v with CObj pk => pk | CStr _ => [] end.
Fixpoint cloads (tbl : list (list N * str)) (b : list N) : @lres (list N) :=
  match tbl with
  | [] => LRaise
  | (pk, name) :: r => if str_eqb pk b then LPair name (CObj pk) else cloads r b
  end.

Definition pk := list N.
Record cspec := mkC { c_name : str; c_signed : bool; c_value : list N; c_secret : option str }.

Definition dec_opt_str (l : list Z) : option (option str * list Z) :=
  match l with
  | z :: r => if Z.eqb z 0 then Some (None, r)
              else match dec_str r with Some (s, r') => Some (Some s, r') | None => None end
  | [] => None
  end.

Definition dec_cspec (l : list Z) : option (cspec * list Z) :=
  match dec_str l with
  | Some (n, z :: r1) =>
    match dec_str r1 with
    | Some (v, r2) =>
      match dec_opt_str r2 with
      | Some (sec, r3) => Some (mkC n (negb (Z.eqb z 0)) v sec, r3)
      | None => None
      end
    | None => None
    end
  | _ => None
  end.

Definition c_cval (c : cspec) : @cval pk := if c_signed c then CObj (c_value c) else CStr (c_value c).

Definition serr_code (e : serr) : Z :=
  match e with SETypeError => 1 | SETooLong => 2 | SECookieError => 3 | SEEncodeError => 4 end%Z.

Fixpoint set_all (j : jar) (cs : list cspec) (i : Z) : jar + (Z * Z) :=
  match cs with
  | [] => inl j
  | c :: r => match set_cookie pk hmac_md5 cdumps j (c_name c) (c_cval c) (c_secret c) with
              | inl j' => set_all j' r (i + 1)%Z
              | inr e => inr (i, serr_code e)
              end
  end.

(* ---- the attacker: edits of the Cookie header (test scaffolding, not code under test) ---- *)
Definition find_c (c : N) (s : str) : option nat := find_char N.eqb c s.

Definition splice (s : str) (a b : nat) (repl : str) : str :=
  let a' := Nat.modulo a (S (length s)) in
  firstn a' s ++ repl ++ skipn (a' + b) s.

(* the text between the first '!' and the first '?' after it *)
Definition sig_region (w : str) : option (nat * nat) :=
  match find_c 33 w with
  | Some p => match find_c 63 (skipn (S p) w) with
              | Some q => Some (S p, S p + q)%nat
              | None => None
              end
  | None => None
  end.

(* kind 4: an "attacker" who knows the secret re-signs an arbitrary message M
   (exercises the split at the first '?', the lenient base64 decoder, binascii.Error
   and unpickling failures behind a VALID signature) *)
Definition resign (cs : list cspec) (m : list N) : option str :=
  match cs with
  | c :: _ =>
    match c_secret c with
    | Some sec =>
      match utf8_encode sec with
      | Some k => Some (c_name c ++ 61 :: quote (33 :: b64encode (hmac_md5 k m) ++ 63 :: m))
      | None => None
      end
    | None => None
    end
  | [] => None
  end.

(* kind 5: alterations of the signature that keep the multiset or the sum of its
   bytes (a comparison that adds up differences instead of counting mismatches
   accepts them): b = 0 swap two adjacent characters, 1 add k to one character and
   subtract k from another, 2 rotate, 3 reverse, 4 the +k / -k edit on the DECODED
   signature bytes (re-encoded) *)
Fixpoint upd_nth (i : nat) (f : N -> N) (l : list N) : list N :=
  match l, i with
  | [], _ => []
  | x :: r, O => f x :: r
  | x :: r, S i' => x :: upd_nth i' f r
  end.

Definition pm_edit (modulus : N) (p q : nat) (k : N) (l : list N) : list N :=
  if Nat.eqb p q then l
  else upd_nth p (fun x => (x + k) mod modulus) (upd_nth q (fun x => (x + modulus - k mod modulus) mod modulus) l).

Definition sig_edit (sub a : nat) (repl sig : str) : str :=
  let n := length sig in
  let q := Nat.modulo (N.to_nat (nth 0 repl 0)) n in
  let k := nth 1 repl 1 in
  match n with
  | O => sig
  | S n' =>
    let p := Nat.modulo a n in
    match sub with
    | 0%nat => match n' with
               | O => sig
               | _ => let i := Nat.modulo a n' in
                      firstn i sig ++ nth (S i) sig 0 :: nth i sig 0 :: skipn (S (S i)) sig
               end
    | 1%nat => pm_edit 128 p q k sig
    | 2%nat => skipn p sig ++ firstn p sig
    | 3%nat => rev sig
    | _ => match b64decode sig with
           | Some bs =>
             match length bs with
             | O => sig
             | m => b64encode (pm_edit 256 (Nat.modulo a m) (Nat.modulo (N.to_nat (nth 0 repl 0)) m) k bs)
             end
           | None => sig
           end
    end
  end.

Definition tamper (cs : list cspec) (kind : Z) (a b : nat) (repl : str) (wires : list str) : str :=
  let hdr := join [59; 32] wires in
  match kind, wires with
  | 1%Z, _ => splice hdr a b repl
  | 2%Z, w1 :: w2 :: _ =>
    match sig_region w1, sig_region w2 with
    | Some (p1, q1), Some (p2, q2) => firstn p1 w1 ++ slice w2 p2 q2 ++ skipn q1 w1
    | _, _ => hdr
    end
  | 3%Z, w1 :: w2 :: _ =>
    match find_c 61 w1, find_c 61 w2 with
    | Some e1, Some e2 => firstn (S e1) w1 ++ skipn (S e2) w2
    | _, _ => hdr
    end
  | 4%Z, _ => match resign cs repl with Some h => h | None => hdr end
  | 6%Z, _ =>
    (* a foreign cookie pair [repl] (set by another application on the same host) travels in the same header:
       b = 0 first, 1 last, otherwise after the first cookie *)
    match b, wires with
    | O, _ => repl ++ 59 :: 32 :: hdr
    | S O, _ => hdr ++ 59 :: 32 :: repl
    | _, w1 :: rest => join [59; 32] (w1 :: repl :: rest)
    | _, [] => repl
    end
  | 8%Z, w1 :: _ =>
    (* text appended to the cookie value: inserted before the last character (the closing quote) *)
    removelast w1 ++ repl ++ match rev w1 with x :: _ => [x] | [] => [] end
  | 7%Z, _ =>
    (* one character of the header written as its percent escape *)
    match length hdr with
    | O => hdr
    | n => let p := Nat.modulo a n in
           let c := nth p hdr 0 in
           let hexd := fun d => if d <? 10 then 48 + d else 55 + d in
           if c <? 256 then firstn p hdr ++ 37 :: hexd (c / 16) :: hexd (c mod 16) :: skipn (S p) hdr else hdr
    end
  | 5%Z, w1 :: _ =>
    match sig_region w1 with
    | Some (p1, q1) => firstn p1 w1 ++ sig_edit b a repl (slice w1 p1 q1) ++ skipn q1 w1
    | None => hdr
    end
  | _, _ => hdr
  end.

Definition enc_pres (r : pres) : list Z :=
  match r with
  | PCookies items => 0%Z :: enc_list (fun '(k, v) => enc_str k ++ enc_str v) items
  | PCookieError => [1%Z]
  | PNoFuel => [9%Z]
  end.

Definition enc_gres (g : @gres pk) : list Z :=
  match g with
  | GDefault => [0%Z]
  | GStr s => 1%Z :: enc_str s
  | GVal (CObj p) => 2%Z :: enc_str p
  | GVal (CStr s) => 3%Z :: enc_str s
  | GCookieError => [4%Z]
  | GRaise => [5%Z]
  | GNoFuel => [9%Z]
  end.

Definition loads_table (cs : list cspec) : list (list N * str) :=
  flat_map (fun c => if c_signed c then [(c_value c, c_name c)] else []) cs.

Definition read_seq (hdr : str) (tbl : list (list N * str)) (reads : list (str * option str))
  : list (@gres pk * option (list N)) :=
  get_cookie_seq pk hmac_md5 (cloads tbl) hdr reads.

Definition dec_read (l : list Z) : option ((str * option str) * list Z) :=
  match dec_str l with
  | Some (n, r) => match dec_opt_str r with Some (s, r') => Some ((n, s), r') | None => None end
  | None => None
  end.

(* typed request operations: 0 get | 1 item | 2 attr | 3 decode | 4 header | 5 set header *)
Definition dec_qop (l : list Z) : option (qop * list Z) :=
  match l with
  | 0%Z :: r => match dec_read r with Some ((n, s), r') => Some (QGet n s, r') | None => None end
  | 1%Z :: r => match dec_str r with Some (n, r') => Some (QItem n, r') | None => None end
  | 2%Z :: u :: r => match dec_str r with Some (n, r') => Some (QAttr n (negb (Z.eqb u 0)), r') | None => None end
  | 3%Z :: u :: r => Some (QDecode (negb (Z.eqb u 0)), r)
  | 4%Z :: r => Some (QHeader, r)
  | 5%Z :: r => match dec_opt_str r with Some (h, r') => Some (QSetHeader h, r') | None => None end
  | _ => None
  end.

Definition enc_qres (q : @qres pk) : list Z :=
  match q with
  | QRGet g l => 0%Z :: enc_gres g ++ enc_option enc_str l
  | QRStr s => 1%Z :: enc_option enc_str s
  | QRDict d => 2%Z :: enc_option (enc_list (fun '(k, v) => enc_str k ++ enc_str v)) d
  | QRCookieError => [3%Z]
  | QRNoFuel => [9%Z]
  end.

Definition scenario (l : list Z) : list Z :=
  match dec_list dec_cspec l with
  | Some (cs, kind :: a :: b :: r1) =>
    match dec_str r1 with
    | Some (repl, r2) =>
      match dec_str r2 with
      | Some (rname, r3) =>
        match dec_opt_str r3 with
        | Some (rsec, r4) =>
          let qops := match dec_list dec_qop r4 with Some (x, _) => x | None => [] end in
          match set_all [] cs 0%Z with
          | inr (i, e) => [1%Z; i; e]
          | inl j =>
            match emit_cookies j with
            | None => [2%Z]
            | Some wires =>
              let hdr := tamper cs kind (Z.to_nat a) (Z.to_nat b) repl wires in
              let '(g, lc) := get_cookie pk hmac_md5 (cloads (loads_table cs)) hdr rname rsec in
              0%Z :: enc_list enc_str wires ++ enc_str hdr ++ enc_pres (parse_cookies hdr)
                  ++ enc_gres g ++ enc_option enc_str lc
                  ++ enc_list enc_qres (request_run pk hmac_md5 (cloads (loads_table cs)) (Some hdr) qops)
            end
          end
        | None => bad_input
        end
      | None => bad_input
      end
    | None => bad_input
    end
  | _ => bad_input
  end.

(* ---- mode 5: operations on a response and its copy, then both are emitted and read back ---- *)
Definition dec_rop (l : list Z) : option (@rop pk * list Z) :=
  match l with
  | 0%Z :: oc :: r => match dec_cspec r with
                      | Some (c, r') => Some (RSet (negb (Z.eqb oc 0)) (c_name c) (c_cval c) (c_secret c), r')
                      | None => None
                      end
  | 1%Z :: oc :: r => match dec_str r with
                      | Some (n, r') => Some (RDel (negb (Z.eqb oc 0)) n, r')
                      | None => None
                      end
  | 2%Z :: r => Some (RCopy, r)
  | 3%Z :: r => match dec_list dec_cspec r with
                | Some (cs, r') => Some (RApply (List.map (fun c => (c_name c, c_cval c, c_secret c)) cs), r')
                | None => None
                end
  | _ => None
  end.

Fixpoint rrun (st : @rpair) (ops : list (@rop pk)) : @rpair * list Z :=
  match ops with
  | [] => (st, [])
  | o :: r =>
    let '(st', e, skipped) := rstep pk hmac_md5 cdumps st o in
    let code := if skipped then 7%Z else match e with None => 0%Z | Some x => serr_code x end in
    let '(st'', codes) := rrun st' r in (st'', code :: codes)
  end.

Definition rop_table (ops : list (@rop pk)) : list (list N * str) :=
  flat_map (fun o => match o with
                     | RSet _ n (CObj p) _ => [(p, n)]
                     | RApply cs => flat_map (fun x => match x with (n, CObj p, _) => [(p, n)] | _ => [] end) cs
                     | _ => []
                     end) ops.

(* what a client keeps of a Set-Cookie value: the pair before the first ';' *)
Definition strip_attrs (w : str) : str := fst (split_once N.eqb 59 w).

Definition enc_resp (tbl : list (list N * str)) (reads : list (str * option str)) (j : mjar) : list Z :=
  match emit_mjar j with
  | None => [2%Z]
  | Some wires =>
    let hdr := join [59; 32] (List.map strip_attrs wires) in
    0%Z :: enc_list enc_str wires ++ enc_pres (parse_cookies hdr)
        ++ enc_list (fun x => enc_gres (fst x) ++ enc_option enc_str (snd x)) (read_seq hdr tbl reads)
  end.

Definition resp_scenario (l : list Z) : list Z :=
  match dec_list dec_rop l with
  | Some (ops, r1) =>
    let reads := match dec_list dec_read r1 with Some (x, _) => x | None => [] end in
    let '((r, c), codes) := rrun ([], None) ops in
    let tbl := rop_table ops in
    enc_list (fun z => [z]) codes ++ enc_resp tbl reads r
      ++ match c with None => [0%Z] | Some cj => 1%Z :: enc_resp tbl reads cj end
  | None => bad_input
  end.

Definition corr_C15 (inp : list Z) : list Z :=
  match inp with
  | 0%Z :: r => scenario r
  | 1%Z :: r => match dec_str r with
                | Some (s, _) => enc_str (quote s) ++ enc_str (unquote s)
                | None => bad_input
                end
  | 2%Z :: r => match dec_str r with
                | Some (s, _) => enc_pres (parse_cookies s)
                | None => bad_input
                end
  | 3%Z :: r => match dec_str r with
                | Some (s, _) => enc_str (b64encode s) ++ enc_option enc_str (b64decode s)
                | None => bad_input
                end
  | 4%Z :: r => match dec_str r with
                | Some (k, r1) => match dec_str r1 with
                                  | Some (m, _) => enc_str (hmac_md5 k m)
                                  | None => bad_input
                                  end
                | None => bad_input
                end
  | 5%Z :: r => resp_scenario r
  | _ => bad_input
  end.
