(* Chunked.v — model of ombott/request_pkg/body_mixin.py:_iter_chunked (with the
   fix: commit F5: the payload loop counts the bytes received and the data
   terminator is read byte by byte) fused with its consumer _body_read (size
   check and spill flag run between two reads, as the generator protocol
   interleaves them).  Streams: model/Stream.v; results: bres of model/Body.v.
   No proofs in this file.  Owned by cluster bodyA. *)
From Verif Require Import lib.Base lib.Str lib.PyIntHex lib.PyIntParse model.Stream model.Body.

(* The size-line scanner, body_mixin.py:40-58
     read_len = 0; seen_r = seen_sem = False
     while True:
         c = read(1); read_len += 1
         if not c or read_len > buff_size: raise parsing_err
         if seen_r and c == n: break
         seen_r = c == r
         if seen_sem: continue
         seen_sem = c == sem
         if seen_r or seen_sem: continue
         header_size_buff.append(c)
   [k] = buff_size - read_len before the read: the code's own bound is the
   structural argument, so no fuel is needed (at most buff_size + 1 reads). *)
Fixpoint scan_line (k : nat) (s : stream) (seen_r seen_sem : bool) (digits : list N)
  : option (list N) * stream :=
  let (c, s') := read s 1 in
  match k with
  | O => (None, s')                        (* read_len > buff_size *)
  | S k' =>
    match c with
    | [] => (None, s')                     (* not c : end of stream *)
    | b :: _ =>
      if seen_r && (b =? 10)%N then (Some digits, s')
      else
        let seen_r' := (b =? 13)%N in
        if seen_sem then scan_line k' s' seen_r' true digits
        else
          let seen_sem' := (b =? 59)%N in
          if seen_r' || seen_sem' then scan_line k' s' seen_r' seen_sem' digits
          else scan_line k' s' seen_r' seen_sem' (digits ++ [b])
    end
  end.

(* outcome of the payload loop of one chunk *)
Inductive pres :=
| PCont (s : stream) (acc : list N) (spilled : bool)   (* rest_len reached 0 *)
| PStop (r : bres).                                    (* an exception left the loop *)

(* body_mixin.py:69-76, consumer body_mixin.py:88-99
     while rest_len > 0:
         part = read(min(rest_len, buff_size))
         if not part: raise parsing_err
         <consumer: write, size check, spill>
         rest_len -= len(part)
   rest_len is a Python int: any integer int(.., 16) can return. *)
Fixpoint ch_payload (fuel : nat) (s : stream) (buf : nat) (maxb : option nat)
         (rest_len : Z) (acc : list N) (spilled : bool) : pres :=
  match fuel with
  | O => PStop BOutOfFuel
  | S f =>
    if (rest_len <=? 0)%Z then PCont s acc spilled
    else
      let part_size := Z.to_nat (Z.min rest_len (Z.of_nat buf)) in
      let (part, s') := read s part_size in
      match part with
      | [] => PStop (BParseErr s')
      | _ =>
        let acc' := acc ++ part in
        let size := length acc' in
        if over maxb size then PStop (BTooLarge s')
        else ch_payload f s' buf maxb (rest_len - Z.of_nat (length part))%Z acc'
                        (spilled || Nat.ltb buf size)
      end
  end.

Definition is_byte (c : list N) (b : N) : bool :=
  match c with
  | [x] => (x =? b)%N
  | _ => false
  end.

(* the outer loop of _iter_chunked, body_mixin.py:36-78 *)
Fixpoint ch_loop (fuel : nat) (s : stream) (buf : nat) (maxb : option nat)
         (acc : list N) (spilled : bool) : bres :=
  match fuel with
  | O => BOutOfFuel
  | S f =>
    match scan_line buf s false false [] with
    | (None, s1) => BParseErr s1
    | (Some digits, s1) =>
      match py_int_hex digits with          (* int(chunk_size.strip(), 16) *)
      | None => BParseErr s1                (* ValueError *)
      | Some rest_len =>
        if (rest_len =? 0)%Z then BDone acc spilled s1
        else
          match ch_payload (S (length (rest s1))) s1 buf maxb rest_len acc spilled with
          | PStop r => r
          | PCont s2 acc2 sp2 =>
            (* if read(1) != r or read(1) != n: raise parsing_err *)
            let (c1, s3) := read s2 1 in
            if is_byte c1 13 then
              let (c2, s4) := read s3 1 in
              if is_byte c2 10 then ch_loop f s4 buf maxb acc2 sp2
              else BParseErr s4
            else BParseErr s3
          end
      end
    end
  end.

Definition body_read_chunked (s : stream) (buf : nat) (maxb : option nat) : bres :=
  ch_loop (S (length (rest s))) s buf maxb [] false.

(* ---- the glue of BodyMixin._body (body_mixin.py:254) ----
     chunked        = 'chunked' in environ.get('HTTP_TRANSFER_ENCODING', '').lower()     (body_mixin.py:127)
     content_length = int(environ.get('CONTENT_LENGTH') or -1)                           (body_mixin.py:112)
     _body_read(read, max_memfile_size, content_length=.., chunked=.., max_body_size=..)
   and _body_read picks _iter_chunked whenever chunked is true, whatever the
   Content-Length says (body_mixin.py:84).  [te] is the header value (absent = []),
   [cl] the integer content_length (absent / empty = -1).  ASCII lower-casing:
   WSGI header values are latin-1 and "chunked" is ASCII. *)
Definition s_chunked : list N := [99; 104; 117; 110; 107; 101; 100]%N.

Definition te_chunked (te : list N) : bool :=
  match findb s_chunked (lower te) with
  | Some _ => true
  | None => false
  end.

Definition body_read_env (s : stream) (buf : nat) (maxb : option nat) (cl : Z) (te : list N) : bres :=
  if te_chunked te then body_read_chunked s buf maxb
  else body_read_cl s buf maxb cl.

(* BodyMixin.content_length (body_mixin.py:112): int(environ.get('CONTENT_LENGTH') or -1) on the RAW header
   value (None = key absent).  None = int() raises ValueError, which is not a RequestError: it escapes _body
   as a 500 whatever the transfer coding (finding C12-content-length-not-int; also a C05 finding). *)
Definition content_length_raw (raw : option (list N)) : option Z :=
  match raw with
  | None => Some (-1)%Z
  | Some [] => Some (-1)%Z
  | Some x => py_int_dec x
  end.

(* Request.body from the raw framing headers; None = the ValueError above *)
Definition body_read_raw (s : stream) (buf : nat) (maxb : option nat) (clraw : option (list N)) (te : list N)
  : option bres :=
  match content_length_raw clraw with
  | None => None
  | Some cl => Some (body_read_env s buf maxb cl te)
  end.

(* ---- error mapping ---- *)

(* class names as they appear in gen/Gen.v errors_map *)
Definition cls_RequestError : list N :=
  [82; 101; 113; 117; 101; 115; 116; 69; 114; 114; 111; 114]%N.
Definition cls_BodySizeError : list N :=
  [66; 111; 100; 121; 83; 105; 122; 101; 69; 114; 114; 111; 114]%N.
Definition cls_BodyParsingError : list N :=
  [66; 111; 100; 121; 80; 97; 114; 115; 105; 110; 103; 69; 114; 114; 111; 114]%N.

Fixpoint emap_get (m : list (list N * (Z * list N))) (cls : list N) : option Z :=
  match m with
  | [] => None
  | (k, (code, _)) :: r => if str_eqb k cls then Some code else emap_get r cls
  end.

(* request.py:39   for err_cls in (err.__class__, except_class): out = errors_map.get(err_cls) ...
   Some code = the mapped HTTPError is raised; None = the original exception escapes *)
Definition raise_status (m : list (list N * (Z * list N))) (cls except_cls : list N) : option Z :=
  match emap_get m cls with
  | Some c => Some c
  | None => emap_get m except_cls
  end.

(* Request.body as the application sees it: the body, the status of the mapped HTTPError, or the bare
   exception escaping (a 500); [m] = config.errors_map as (class name, (status, text)) *)
Inductive wres :=
| WBody (r : bres)                      (* BDone *)
| WStatus (code : Z) (s : stream)
| WEscape (s : stream)
| WValueError                           (* int(CONTENT_LENGTH) *)
| WFuel.

Definition wsgi_body (m : list (list N * (Z * list N))) (s : stream) (buf : nat) (maxb : option nat)
           (clraw : option (list N)) (te : list N) : wres :=
  match body_read_raw s buf maxb clraw te with
  | None => WValueError
  | Some (BDone b sp s') => WBody (BDone b sp s')
  | Some (BTooLarge s') =>
    match raise_status m cls_BodySizeError cls_RequestError with Some c => WStatus c s' | None => WEscape s' end
  | Some (BParseErr s') =>
    match raise_status m cls_BodyParsingError cls_RequestError with Some c => WStatus c s' | None => WEscape s' end
  | Some BOutOfFuel => WFuel
  end.

(* ---- the specification side: legal chunked encodings ---- *)

Definition CRLF : list N := [13; 10]%N.

(* no CR immediately followed by LF *)
Fixpoint no_crlf (e : list N) : bool :=
  match e with
  | [] => true
  | a :: r => negb ((a =? 13)%N && match r with b :: _ => (b =? 10)%N | [] => false end) && no_crlf r
  end.

(* a chunk extension: nothing, or ';' followed by bytes that do not contain CRLF *)
Definition ext_ok (ext : list N) : bool :=
  match ext with
  | [] => true
  | x :: e => (x =? 59)%N && no_crlf e
  end.

Record chunk := mkChunk {
  c_size : list N;      (* spelling of the size *)
  c_ext : list N;       (* chunk extension, including its leading ';' *)
  c_data : list N       (* payload *)
}.

Definition line_len (c : chunk) : nat := length (c_size c) + length (c_ext c) + 2.

(* a data chunk: non-empty payload, the size line spells its length in hex
   (any case, any leading zeros) *)
Definition chunk_ok (c : chunk) : Prop :=
  c_data c <> [] /\ hex_val (c_size c) = Some (N.of_nat (length (c_data c))) /\ ext_ok (c_ext c) = true.

(* the last chunk: size zero, no payload, no terminator of its own (what follows
   it — trailers and the final CRLF — is [tail]) *)
Definition last_ok (c : chunk) : Prop :=
  c_data c = [] /\ hex_val (c_size c) = Some 0%N /\ ext_ok (c_ext c) = true.

Definition enc_line (c : chunk) : list N := c_size c ++ c_ext c ++ CRLF.
Definition enc_chunk (c : chunk) : list N := enc_line c ++ c_data c ++ CRLF.

(* chunks, the last-chunk line, then anything (trailer section) *)
Definition enc_chunked (cs : list chunk) (last : chunk) (tail : list N) : list N :=
  flat_map enc_chunk cs ++ enc_line last ++ tail.

Definition payload_of (cs : list chunk) : list N := flat_map c_data cs.

(* ---- correspondence interface ---- *)

(* an application-supplied errors_map: entries (class id, status); ids: 0 RequestError, 1 BodySizeError,
   2 BodyParsingError, anything else: a class outside the family (ValueError) *)
Definition cls_of_id (z : Z) : list N :=
  match z with
  | 0%Z => cls_RequestError
  | 1%Z => cls_BodySizeError
  | 2%Z => cls_BodyParsingError
  | _ => [86; 97; 108; 117; 101; 69; 114; 114; 111; 114]%N
  end.

Definition dec_emap_item (l : list Z) : option ((list N * (Z * list N)) * list Z) :=
  match l with
  | k :: code :: r => Some ((cls_of_id k, (code, [])), r)
  | _ => None
  end.

(* sub-inputs of a sequence: each one length-prefixed *)
Fixpoint dec_subs (fuel : nat) (l : list Z) : list (list Z) :=
  match fuel with
  | O => []
  | S f =>
    match l with
    | [] => []
    | n :: r => let k := Z.to_nat n in firstn k r :: dec_subs f (skipn k r)
    end
  end.

(* input: 0 ; buf ; has_max ; max ; data (len-prefixed) ; sched (len-prefixed)   -> bres
          1 ; bytes (len-prefixed)                                               -> int(b.strip(),16)
          2 ; has_cl ; buf ; has_max ; max ; cl_raw ; te ; data ; sched          -> bres through the _body glue
                                                                                    ([8]: int(CONTENT_LENGTH) raises)
          4 ; has_cl ; buf ; has_max ; max ; cl_raw ; te ; errors_map ; data ; sched
                                                     -> the same with BaseRequest._raise over a supplied errors_map *)
Definition corr_C05_one (inp : list Z) : list Z :=
  match inp with
  | 0%Z :: buf :: hm :: mx :: r =>
    match dec_str r with
    | Some (data, r1) =>
      match dec_list dec_nat_item r1 with
      | Some (sc, _) =>
        let maxb := if Z.eqb hm 0 then None else Some (Z.to_nat mx) in
        enc_bres (body_read_chunked (stream_init data sc) (Z.to_nat buf) maxb)
      | None => bad_input
      end
    | None => bad_input
    end
  | 1%Z :: r =>
    match dec_str r with
    | Some (b, _) => enc_option (fun z => [z]) (py_int_hex b)
    | None => bad_input
    end
  | 2%Z :: hcl :: buf :: hm :: mx :: r =>
    match dec_str r with
    | Some (clraw, rr) =>
    match dec_str rr with
    | Some (te, r0) =>
      match dec_str r0 with
      | Some (data, r1) =>
        match dec_list dec_nat_item r1 with
        | Some (sc, _) =>
          let maxb := if Z.eqb hm 0 then None else Some (Z.to_nat mx) in
          match body_read_raw (stream_init data sc) (Z.to_nat buf) maxb
                              (if Z.eqb hcl 0 then None else Some clraw) te with
          | Some r => enc_bres r
          | None => [8%Z]
          end
        | None => bad_input
        end
      | None => bad_input
      end
    | None => bad_input
    end
    | None => bad_input
    end
  | 4%Z :: hcl :: buf :: hm :: mx :: r =>
    match dec_str r with
    | Some (clraw, rr) =>
    match dec_str rr with
    | Some (te, r0) =>
    match dec_list dec_emap_item r0 with
    | Some (em, r00) =>
      match dec_str r00 with
      | Some (data, r1) =>
        match dec_list dec_nat_item r1 with
        | Some (sc, _) =>
          let maxb := if Z.eqb hm 0 then None else Some (Z.to_nat mx) in
          match wsgi_body em (stream_init data sc) (Z.to_nat buf) maxb
                          (if Z.eqb hcl 0 then None else Some clraw) te with
          | WBody r => enc_bres r
          | WStatus c s' => 5%Z :: c :: enc_reqs s'
          | WEscape s' => 6%Z :: enc_reqs s'
          | WValueError => [8%Z]
          | WFuel => [9%Z]
          end
        | None => bad_input
        end
      | None => bad_input
      end
    | None => bad_input
    end
    | None => bad_input
    end
    | None => bad_input
    end
  | _ => bad_input
  end.

(* a sequence of requests (3 ; sub-inputs): every response is a function of its own request only *)
Definition run_seq (subs : list (list Z)) : list (list Z) := map corr_C05_one subs.

Definition corr_C05 (inp : list Z) : list Z :=
  match inp with
  | 3%Z :: r => flat_map (fun o => Z.of_nat (length o) :: o) (run_seq (dec_subs (length r) r))
  | _ => corr_C05_one inp
  end.
