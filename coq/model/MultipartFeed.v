(* MultipartFeed.v — how _body_read (ombott/request_pkg/body_mixin.py) feeds the
   multipart markup while it buffers a Content-Length body:
       for part in _iter_body(read, buff_size, content_length=cl):
           body.write(part); markup.parse(part)
   The parts are what the server's input stream (model/Stream.v: reads may be
   short) delivers for requests of min(rest_len, buff_size) bytes.  No proofs. *)
From Verif Require Import lib.Base lib.Str model.Stream model.MultipartRef model.Multipart.

(* _iter_body (body_mixin.py:21-29): the list of parts it yields; None = out of fuel *)
Fixpoint parts_loop (fuel : nat) (s : stream) (buf rest_len : nat) : option (list bytes) :=
  match fuel with
  | O => None
  | S f =>
    if Nat.eqb rest_len 0 then Some []
    else
      let (part, s') := read s (Nat.min rest_len buf) in
      match part with
      | [] => Some []                                   (* if not part: break *)
      | _ => option_map (cons part) (parts_loop f s' buf (rest_len - length part))
      end
  end.

Definition body_parts (data : bytes) (sc : list nat) (buf : nat) (cl : Z) : option (list bytes) :=
  parts_loop (S (length data)) (stream_init data sc) buf (Z.to_nat cl).

(* MultipartMarkup.markups / .error after _body_read *)
Definition markup_stream (B data : bytes) (sc : list nat) (buf : nat) (cl : Z)
  : option (list section * option mp_error) :=
  option_map (markup_chunks B) (body_parts data sc buf cl).

(* ---- correspondence interface ----
   0 :: <input of corr_C06_chunks>                      chunks given explicitly
   1 :: cl :: buf :: B :: data :: sched                 chunks = the parts of _iter_body over that stream *)
Definition corr_C06 (inp : list Z) : list Z :=
  match inp with
  | 0%Z :: r => corr_C06_chunks r
  | 1%Z :: cl :: buf :: r =>
    match dec_str r with
    | Some (B, r1) =>
      match dec_str r1 with
      | Some (data, r2) =>
        match dec_list dec_nat r2 with
        | Some (sc, _) =>
          match body_parts data sc (Z.to_nat buf) cl with
          | Some parts =>
            enc_obs (markup_chunks B parts)
            ++ enc_obs (if contains_char N.eqb CR B then ([], Some EInvalidBoundary)
                        else ref_obs B (concat parts))
            ++ enc_bool (wf_prefixb B (concat parts))
          | None => bad_input
          end
        | None => bad_input
        end
      | None => bad_input
      end
    | None => bad_input
    end
  | _ => bad_input
  end.
