(* Wsgi.v — model of ombott/ombott.py: Ombott._handle, Ombott.handler, emit /
   add_hook, Ombott._cast, Ombott.wsgi, default_error_handler, _closeiter;
   ombott/response.py: BaseResponse.__init__, the status setter, headerlist,
   charset, HTTPResponse.apply, HTTPError; ombott/common_helpers.py:
   WSGIFileWrapper, HeaderDict.  No proofs in this file.

   Handler programs are data (DESIGN C03): what a handler / hook / error
   handler returns, raises or yields is a value of [out]/[item]/[resp]; the
   model turns a program into the trace of events a WSGI server observes.

   The model is faithful to the code WITH the fix F3 (every 1xx suppresses the
   body); the no-body set is read from gen/Gen.v. *)
From Coq Require Import String Ascii.
From Verif Require Import lib.Base lib.Str lib.Utf8 lib.Html lib.PyIntParse.
From Verif Require gen.Gen.

(* ------------------------------------------------------------------ *)
(* 1. Grammar of handler programs                                      *)
(* ------------------------------------------------------------------ *)

(* response._headers : insertion-ordered dict  name -> value | [values] *)
Definition hdrs := list (str * list str).
(* response._cookies : SimpleCookie, as  name -> Morsel.OutputString()
   (http.cookies rendering is external; C15 owns it) *)
Definition jar := list (str * str).

(* A value a handler may hand to the framework.
   ty   = str(type(obj)) (only used by the "Unsupported response type" text)
   OOther: any other truthy, non-iterable object without .read;
           ejson = json.dumps(repr(the TypeError raised by iter(obj))) *)
Inductive out :=
| OFalsy                                                        (* None '' b'' 0 [] {} False *)
| OStr (s : str)
| OBytes (b : str)
| OHttp (is_err : bool) (r : resp)                              (* HTTPError / HTTPResponse instance *)
| OFile (id : nat) (has_close has_iter : bool) (content : str) (ty : str)  (* has .read *)
| OIter (id : nat) (has_close : bool) (items : list item) (ty : str)     (* any other iterable *)
| OOther (ty : str) (ejson : str)
| OEscape (to_catchall : bool)
    (* not a value of a program: produced by the model where the Python code does not return but lets an
       exception through (see "exception classes" below); to_catchall = wsgi()'s `except Exception` catches it *)
with item :=
| IYield (o : out)                                              (* next() returns o *)
| IRaiseHttp (is_err : bool) (r : resp)                         (* next() raises an HTTPResponse *)
| IRaiseExc (ejson : str)                                       (* next() raises an ordinary exception; ejson = json.dumps(repr(exc)) *)
| IRaiseEsc (to_catchall : bool)                                (* next() raises an exception that _cast lets through *)
(* an HTTPResponse object after its constructor ran:
   code/line = _status_code/_status_line as the status setter left them,
   btext = str(body) (error.html's {e.body}), bjson = json.dumps(body) or
   None when that raises TypeError, ejson = json.dumps(repr(exception)),
   tb = a traceback text is attached (HTTPError(..., traceback=format_exc())) *)
with resp :=
| mkResp (code : Z) (line : str) (hs : hdrs) (cs : jar) (body : out)
         (btext : str) (bjson : option str) (ejson : str) (tb : bool).

Definition r_code (r : resp) : Z := let 'mkResp c _ _ _ _ _ _ _ _ := r in c.
Definition r_line (r : resp) : str := let 'mkResp _ l _ _ _ _ _ _ _ := r in l.
Definition r_hs (r : resp) : hdrs := let 'mkResp _ _ h _ _ _ _ _ _ := r in h.
Definition r_cs (r : resp) : jar := let 'mkResp _ _ _ c _ _ _ _ _ := r in c.
Definition r_body (r : resp) : out := let 'mkResp _ _ _ _ b _ _ _ _ := r in b.
Definition r_btext (r : resp) : str := let 'mkResp _ _ _ _ _ t _ _ _ := r in t.
Definition r_bjson (r : resp) : option str := let 'mkResp _ _ _ _ _ _ j _ _ := r in j.
Definition r_ejson (r : resp) : str := let 'mkResp _ _ _ _ _ _ _ e _ := r in e.
Definition r_tb (r : resp) : bool := let 'mkResp _ _ _ _ _ _ _ _ t := r in t.

(* what user code does to the per-thread response object before it returns:
   response.status = ..., response.headers[n] = v, response.headers.append(n, v),
   response.set_cookie(n, ...)   (only calls that succeed; a failing one is
   the same as raising at that point) *)
(* app.remove_hook(name, <the hook registered as number j>) / app.add_hook(name, <a new hook number j
   that does nothing>) called from inside a hook or handler; after = the after_request list *)
Inductive hookedit := HERemove (after : bool) (j : nat) | HEAdd (after : bool) (j : nat).

Inductive mut :=
| MStatus (code : Z) (line : str)
| MSetHeader (n v : str)
| MAddHeader (n v : str)
| MSetCookie (n rendered : str)
| MHook (e : hookedit)
| MDelHeader (n : str)        (* response.headers.pop(n, None) / del response.headers[n] when present *)
| MClearHeaders               (* response.headers.clear() *)
| MEnv (is_method : bool) (v : str).
                              (* request['REQUEST_METHOD'] = v / request['PATH_INFO'] = v : the environ, not the
                                 response; what routing sees afterwards is decided in model/App.v *)

Inductive hres :=
| HRet (o : out)
| HRaiseHttp (is_err : bool) (r : resp)
| HRaiseExc (ejson : str)          (* an ordinary exception: `except Exception` in _handle turns it into a 500 *)
| HRaiseEsc (to_catchall : bool).  (* an exception _handle lets through (KeyboardInterrupt ..., or not an Exception) *)

(* a callable: handler, before/after hook, route hook, partial 404 hook *)
Record hprog := mkH { h_muts : list mut; h_res : hres }.

(* what Ombott.to_route found *)
Inductive routing :=
| R404 (partial : option hprog)            (* no route; innermost PARTIAL hook if any *)
| R405 (allow : str)                       (* route exists, verb not allowed *)
| ROk (rhooks : list hprog) (h : hprog)    (* SIMPLE route hooks in call order, then the handler *)
| RRaise (ejson : str).                    (* route resolution itself raised (e.g. int() on a 4301-digit wildcard) *)

(* result of a custom error handler (app.error(code)) *)
(* ERaise true: an exception wsgi()'s `except Exception` catches (the catch-all answers); false: one it lets through *)
Inductive ehres := ERet (o : out) | ERaise (to_catchall : bool).

(* per-request constants taken from the environ *)
Record cenv := mkEnv {
  e_head : bool;      (* environ['REQUEST_METHOD'] == 'HEAD' *)
  e_fw : bool;        (* 'wsgi.file_wrapper' in environ *)
  e_json : bool;      (* request.is_json_requested *)
  e_url : str;        (* repr(html.escape(request.url)) *)
  e_path : str        (* environ['PATH_INFO'] after _handle decoded it *)
}.

(* ------------------------------------------------------------------ *)
(* 2. Events and returned objects                                      *)
(* ------------------------------------------------------------------ *)

Inductive chunk := CBytes (b : str) | CBad.   (* CBad: a non-bytes object was yielded *)

Inductive event :=
| EvHookB (i : nat)            (* before_request hook, i = registration index *)
| EvRouted                     (* Ombott.to_route was called *)
| EvRouteHook (i : nat)
| EvHandler                    (* the route callback (or the partial 404 hook) was called *)
| EvHookA (j : nat)            (* after_request hook, j = registration index *)
| EvClose (id : nat)           (* .close() of the handler's object id *)
| EvStart (line : str) (headers : list (str * str)) (exc_info : bool)
| EvBody (chunks : list chunk) (* what iterating the returned object yields *)
| EvIterRaise.                 (* iterating the returned object raised *)

Inductive imode := MBytes | MStr.

(* the object Ombott._cast returns *)
Inductive wret :=
| WList (chunks : list str)                                   (* [] or [bytes] *)
| WWrap (id : nat) (has_close : bool) (content : str)         (* wsgi.file_wrapper(f) / WSGIFileWrapper(f) *)
| WIter (m : imode) (first : str) (rest : list item) (close : option nat)
| WEscape.      (* _cast did not return: an exception that no clause of _cast / wsgi catches is propagating *)
                                   (* chain([first], it) | chain([first], encoding genexpr) | _closeiter of one of them;
                                      first is a byte string in both modes *)

(* ------------------------------------------------------------------ *)
(* 3. The per-thread response object                                   *)
(* ------------------------------------------------------------------ *)

Record rstate := mkSt { s_code : Z; s_line : str; s_hs : hdrs; s_cs : jar }.

Definition st_hs (st : rstate) (h : hdrs) : rstate := mkSt (s_code st) (s_line st) h (s_cs st).

Fixpoint h_get (k : str) (h : hdrs) : option (list str) :=
  match h with
  | [] => None
  | (k', v) :: t => if str_eqb k k' then Some v else h_get k t
  end.
Definition h_mem (k : str) (h : hdrs) : bool := match h_get k h with Some _ => true | None => false end.

(* d[k] = v *)
Fixpoint h_set (k v : str) (h : hdrs) : hdrs :=
  match h with
  | [] => [(k, [v])]
  | (k', vs) :: t => if str_eqb k k' then (k', [v]) :: t else (k', vs) :: h_set k v t
  end.
(* HeaderDict.append (common_helpers.py:279) *)
Fixpoint h_append (k v : str) (h : hdrs) : hdrs :=
  match h with
  | [] => [(k, [v])]
  | (k', vs) :: t => if str_eqb k k' then (k', vs ++ [v]) :: t else (k', vs) :: h_append k v t
  end.
(* HeaderDict.setdefault (common_helpers.py:276) *)
Definition h_setdefault (k v : str) (h : hdrs) : hdrs := if h_mem k h then h else h ++ [(k, [v])].

Fixpoint j_set (k v : str) (j : jar) : jar :=
  match j with
  | [] => [(k, v)]
  | (k', v') :: t => if str_eqb k k' then (k', v) :: t else (k', v') :: j_set k v t
  end.

Definition n_content_length : str := Eval compute in lit "Content-Length".
Definition n_content_type : str := Eval compute in lit "Content-Type".

(* BaseResponse.__init__() (response.py:76): status 200, no headers, no cookies *)
Definition st_init : rstate := mkSt 200 (lit "200 OK") [] [].

(* HTTPResponse.apply (response.py:274) *)
Definition apply (r : resp) (st : rstate) : rstate :=
  mkSt (r_code r) (r_line r) (r_hs r)
       (match r_cs r with [] => s_cs st | _ => r_cs r end).    (* if self._cookies: *)

Definition apply_mut (m : mut) (st : rstate) : rstate :=
  match m with
  | MStatus c l => mkSt c l (s_hs st) (s_cs st)
  | MSetHeader n v => st_hs st (h_set n v (s_hs st))
  | MAddHeader n v => st_hs st (h_append n v (s_hs st))
  | MSetCookie n v => mkSt (s_code st) (s_line st) (s_hs st) (j_set n v (s_cs st))
  | MHook _ => st                                               (* the hook lists are not part of the response *)
  | MDelHeader n => st_hs st (filter (fun kv => negb (str_eqb n (fst kv))) (s_hs st))
  | MClearHeaders => st_hs st []
  | MEnv _ _ => st
  end.
Definition apply_muts (ms : list mut) (st : rstate) : rstate := fold_left (fun s m => apply_mut m s) ms st.

(* ---- decimal text of a natural number: str(n) ---- *)
Fixpoint uint_str (u : Decimal.uint) : str :=
  match u with
  | Decimal.Nil => []
  | Decimal.D0 u => 48%N :: uint_str u | Decimal.D1 u => 49%N :: uint_str u
  | Decimal.D2 u => 50%N :: uint_str u | Decimal.D3 u => 51%N :: uint_str u
  | Decimal.D4 u => 52%N :: uint_str u | Decimal.D5 u => 53%N :: uint_str u
  | Decimal.D6 u => 54%N :: uint_str u | Decimal.D7 u => 55%N :: uint_str u
  | Decimal.D8 u => 56%N :: uint_str u | Decimal.D9 u => 57%N :: uint_str u
  end.
Definition dec_str_of_nat (n : nat) : str := uint_str (Nat.to_uint n).

(* ---- BaseResponse.charset (response.py:180) and str.encode(charset) ---- *)

Inductive cset := CsUtf8 | CsLatin1 | CsAscii | CsUnknown | CsError.

(* s.split(t)[-1] : the text after the last occurrence of t *)
Fixpoint after_last (fuel : nat) (t s : str) : str :=
  match fuel with
  | O => s
  | S f => match findb t s with
           | None => s
           | Some i => after_last f t (skipn (i + length t) s)
           end
  end.

Definition cs_names_utf8 : list str := Eval compute in [lit "utf-8"; lit "utf8"; lit "utf_8"].
Definition cs_names_latin1 : list str := Eval compute in
  [lit "latin1"; lit "latin-1"; lit "latin_1"; lit "iso-8859-1"; lit "iso8859-1"].
Definition cs_names_ascii : list str := Eval compute in [lit "ascii"; lit "us-ascii"].

(* codec lookup by name: modelled for the names above (case-insensitive), every
   other name is treated as unknown (LookupError) *)
Definition cset_of_name (nm : str) : cset :=
  let l := lower nm in
  if existsb (str_eqb l) cs_names_utf8 then CsUtf8
  else if existsb (str_eqb l) cs_names_latin1 then CsLatin1
  else if existsb (str_eqb l) cs_names_ascii then CsAscii
  else CsUnknown.

Definition charset_marker : str := Eval compute in lit "charset=".

Definition charset (st : rstate) : cset :=
  match h_get n_content_type (s_hs st) with
  | None => CsUtf8                                            (* content_type default '' *)
  | Some [v] =>
      match findb charset_marker v with
      | None => CsUtf8
      | Some _ =>
          let a := after_last (length v) charset_marker v in
          let b := fst (split_once N.eqb 59%N a) in            (* .split(';')[0] *)
          cset_of_name (strip_set is_py_space b)
      end
  | Some vs =>                                                (* a list: 'charset=' in list *)
      if existsb (str_eqb charset_marker) vs then CsError     (* list has no .split *)
      else CsUtf8
  end.

Definition encode_cs (c : cset) (s : str) : option (list N) :=
  match c with
  | CsUtf8 => utf8_encode s
  | CsLatin1 => latin1_enc s
  | CsAscii => if forallb (fun x => N.ltb x 128) s then Some s else None
  | CsUnknown | CsError => None
  end.
Definition encode (st : rstate) (s : str) : option (list N) := encode_cs (charset st) s.

(* ---- BaseResponse.headerlist (response.py:149) ---- *)

(* str.title() on ASCII letters (header names are ASCII tokens; other characters count as uncased) *)
Definition is_ascii_alpha (c : N) : bool :=
  (N.leb 65 c && N.leb c 90) || (N.leb 97 c && N.leb c 122).
Fixpoint title_go (prev_cased : bool) (s : str) : str :=
  match s with
  | [] => []
  | c :: r => if is_ascii_alpha c
              then (if prev_cased then ascii_lower c else ascii_upper c) :: title_go true r
              else c :: title_go false r
  end.
Definition title (s : str) : str := title_go false s.

(* h[0] not in bad_headers  /  h[0].title() not in bad_headers — which one is read from the source *)
Definition is_bad (bad : list str) (name : str) : bool :=
  existsb (str_eqb (if Gen.headerlist_blacklist_case_sensitive then name else title name)) bad.

Definition bad_headers_for (code : Z) : option (list str) :=
  match find (fun p => Z.eqb (fst p) code) Gen.bad_headers with
  | Some (_, l) => match l with [] => None | _ => Some l end    (* if bad_headers: *)
  | None => None
  end.

(* val.encode('utf8').decode('latin1') *)
Definition transcode (v : str) : option str := utf8_encode v.

Fixpoint flatten_vals (k : str) (l : list str) : option (list (str * str)) :=
  match l with
  | [] => Some []
  | v :: l' => match transcode v, flatten_vals k l' with
               | Some v', Some r => Some ((k, v') :: r)
               | _, _ => None
               end
  end.

Fixpoint flatten_headers (h : hdrs) : option (list (str * str)) :=
  match h with
  | [] => Some []
  | (k, vs) :: t =>
      match flatten_vals k vs, flatten_headers t with
      | Some a, Some b => Some (a ++ b)
      | _, _ => None
      end
  end.

Definition n_set_cookie : str := Eval compute in lit "Set-Cookie".

Fixpoint cookie_headers (j : jar) : option (list (str * str)) :=
  match j with
  | [] => Some []
  | (_, v) :: t => match transcode v, cookie_headers t with
                   | Some v', Some r => Some ((n_set_cookie, v') :: r)
                   | _, _ => None
                   end
  end.

Definition headerlist (st : rstate) : option (list (str * str)) :=
  let '(hs, need_ctype) :=
    match bad_headers_for (s_code st) with
    | Some bad => (filter (fun kv => negb (is_bad bad (fst kv))) (s_hs st), false)
    | None => (s_hs st, negb (h_mem n_content_type (s_hs st)))
    end in
  match flatten_headers hs, cookie_headers (s_cs st) with
  | Some a, Some c =>
      Some (a ++ (if need_ctype then [(n_content_type, Gen.default_content_type)] else []) ++ c)
  | _, _ => None                                               (* UnicodeEncodeError *)
  end.

(* ------------------------------------------------------------------ *)
(* 4. Error pages (Ombott.default_error_handler, error_render.render)  *)
(* ------------------------------------------------------------------ *)

Definition f_status : str := Eval compute in lit "e.status".
Definition f_url : str := Eval compute in lit "url".
Definition f_body : str := Eval compute in lit "e.body".
Definition f_exception : str := Eval compute in lit "exception".
Definition f_traceback : str := Eval compute in lit "traceback".

(* debug is False: exception and traceback are the fixed "forbidden" text *)
Definition field_text (r : resp) (url : str) (name : str) : option str :=
  if str_eqb name f_status then Some (r_line r)
  else if str_eqb name f_url then Some url
  else if str_eqb name f_body then Some (r_btext r)
  else if str_eqb name f_exception then Some Gen.ctx_forbidden_text
  else if str_eqb name f_traceback then Some Gen.ctx_forbidden_text
  else None.                                                    (* str.format raises *)

Fixpoint render_tpl (tpl : list Gen.tseg) (r : resp) (url : str) : option str :=
  match tpl with
  | [] => Some []
  | Gen.TLit s :: t => match render_tpl t r url with Some x => Some (s ++ x) | None => None end
  | Gen.TField n :: t => match field_text r url n, render_tpl t r url with
                         | Some a, Some x => Some (a ++ x)
                         | _, _ => None
                         end
  end.
Definition html_page (r : resp) (url : str) : option str := render_tpl Gen.error_template r url.

(* the harness replaces ombott.ombott.format_exc by a function returning this text *)
Definition tb_marker : str := Eval compute in lit """TRACEBACK""".
(* json.dumps(dict(body=res.body, exception=repr(res.exception), traceback=res.traceback)) *)
Definition json_page (r : resp) (bj : str) : str :=
  lit "{""body"": " ++ bj ++ lit ", ""exception"": " ++ r_ejson r ++ lit ", ""traceback"": "
      ++ (if r_tb r then tb_marker else lit "null") ++ lit "}".

Definition v_app_json : str := Eval compute in lit "application/json".

Section App.
Variable env : cenv.
(* app.error_handlers: code -> handler, as a function of the error object *)
Variable eh : Z -> option (resp -> ehres).

(* Ombott.default_error_handler (ombott.py:222); None = it raised *)
Definition default_eh (r : resp) (st : rstate) : option (str * rstate) :=
  if e_json env then
    match r_bjson r with
    | None => None                                              (* json.dumps: TypeError *)
    | Some bj =>
        Some (json_page r bj, st_hs st (h_set n_content_type v_app_json (s_hs st)))
    end
  else
    match html_page r (e_url env) with
    | Some p => Some (p, st)
    | None => None
    end.

(* errors the framework itself builds: HTTPError(code, text[, exception, traceback]) *)
Definition json_quote (s : str) : str := 34%N :: s ++ [34%N].   (* json.dumps of plain ASCII text *)
Definition mk_err (code : Z) (line text ejson : str) (tb : bool) (hs : hdrs) : resp :=
  mkResp code line hs [] (OStr text) text (Some (json_quote text)) ejson tb.
Definition ejson_none : str := Eval compute in lit """None""".

Definition l500 : str := Eval compute in lit "500 Internal Server Error".
Definition err_handle500 (ejson : str) : resp :=                 (* ombott.py:292 *)
  mk_err 500 l500 (lit "Internal Server Error") ejson true [].
Definition err_unhandled (ejson : str) : resp :=                 (* ombott.py:357 *)
  mk_err 500 l500 (lit "Unhandled exception") ejson true [].
Definition err_unsupported (ty : str) : resp :=                  (* ombott.py:367 *)
  mk_err 500 l500 (lit "Unsupported response type: " ++ ty) ejson_none false [].
Definition err_too_many : resp :=                                (* ombott.py:308 *)
  mk_err 500 l500 (lit "too many iterations") ejson_none false [].
Definition err404 : resp :=                                      (* ombott.py:248, radirouter.py:316 *)
  mk_err 404 (lit "404 Not Found") (lit "Not Found") ejson_none false [].
Definition err405 (allow : str) : resp :=                        (* ombott.py:239, radirouter.py:323 *)
  mk_err 405 (lit "405 Method Not Allowed") (lit "Method not allowed.") ejson_none false
         [(lit "Allow", [allow])].

(* ------------------------------------------------------------------ *)
(* 5. Ombott._cast (ombott.py:294)                                     *)
(* ------------------------------------------------------------------ *)

Definition falsy (o : out) : bool :=
  match o with
  | OFalsy | OStr [] | OBytes [] => true
  | _ => false
  end.

Definition type_str (o : out) : str :=
  match o with
  | OFile _ _ _ _ ty | OIter _ _ _ ty | OOther ty _ => ty
  | OEscape _ => []
  | OFalsy => lit "<class 'NoneType'>"
  | OStr _ => lit "<class 'str'>"
  | OBytes _ => lit "<class 'bytes'>"
  | OHttp true _ => lit "<class 'ombott.response.HTTPError'>"
  | OHttp false _ => lit "<class 'ombott.response.HTTPResponse'>"
  end.

(* iterating a file-like (harness file objects yield their content in one block) *)
Definition file_items (content : str) : list item :=
  match content with [] => [] | _ => [IYield (OBytes content)] end.

Inductive step_res :=
| SCont (o : out) (st : rstate)              (* "continue" with a new out *)
| SDone (w : wret) (st : rstate) (wrote_cl : bool)
                                             (* return; wrote_cl: setdefault('Content-Length') stored its value *)
| SRaise.                                    (* an exception leaves _cast *)

Definition done_bytes (b : str) (st : rstate) : step_res :=
  SDone (WList [b]) (st_hs st (h_setdefault n_content_length (dec_str_of_nat (length b)) (s_hs st)))
        (negb (h_mem n_content_length (s_hs st))).

(* ombott.py:344-372: peek into an iterable.  close = the id behind getattr(out, 'close') *)
Fixpoint peek (items : list item) (close : option nat) (st : rstate) : step_res :=
  match items with
  | [] => SCont (OStr []) st                                    (* StopIteration: out = '' *)
  | IYield o :: rest =>
      if falsy o then peek rest close st                        (* while not first: first = next(iout) *)
      else match o with
           | OHttp e r => SCont (OHttp e r) st                  (* isinstance(first, HTTPResponse) *)
           | OBytes b => SDone (WIter MBytes b rest close) st false
           | OStr s => match encode st s with                   (* fix F32: first.encode(response.charset) *)
                       | Some b => SDone (WIter MStr b rest close) st false
                       | None => SRaise
                       end
           | _ => SCont (OHttp true (err_unsupported (type_str o))) st
           end
  | IRaiseHttp e r :: _ => SCont (OHttp e r) st                 (* except HTTPResponse as rs: first = rs *)
  | IRaiseExc ej :: _ => SCont (OHttp true (err_unhandled ej)) st
  | IRaiseEsc b :: _ => SCont (OEscape b) st                    (* except (KeyboardInterrupt, ...): raise / not an Exception *)
  end.

(* one pass through the body of "while True" after the loops_cnt guard *)
Definition step_body (o : out) (st : rstate) : step_res :=
  if falsy o then                                               (* if not out *)
    SDone (WList []) (st_hs st (h_setdefault n_content_length (lit "0") (s_hs st)))
          (negb (h_mem n_content_length (s_hs st)))
  else
  match o with
  | OFalsy => SRaise                                            (* unreachable: falsy *)
  | OStr s =>                                                   (* out.encode(response.charset) *)
      match encode st s with
      | Some b => done_bytes b st
      | None => SRaise
      end
  | OBytes b => done_bytes b st
  | OHttp true r =>                                             (* isinstance(out, HTTPError) *)
      let st1 := apply r st in
      match eh (r_code r) with
      | Some h => match h r with
                  | ERet o' => SCont o' st1
                  | ERaise true => SRaise
                  | ERaise false => SDone WEscape st1 false
                  end
      | None => match default_eh r st1 with
                | Some (p, st2) => SCont (OStr p) st2
                | None => SRaise
                end
      end
  | OHttp false r => SCont (r_body r) (apply r st)              (* out.apply(response); out = out.body *)
  | OFile id hc hi content _ =>                                 (* hasattr(out, 'read') *)
      if e_fw env then SDone (WWrap id hc content) st false
      else if hc || negb hi then SDone (WWrap id hc content) st false
      else peek (file_items content) None st
  | OIter id hc items _ => peek items (if hc then Some id else None) st
  | OOther _ ej => SCont (OHttp true (err_unhandled ej)) st     (* iter(out): TypeError *)
  | OEscape true => SRaise                                      (* the exception goes on to wsgi()'s except clauses *)
  | OEscape false => SDone WEscape st false
  end.

(* loops_cnt += 1; if loops_cnt > 1000: ... (ombott.py:306-310) *)
Definition step (cnt : nat) (o : out) (st : rstate) : step_res :=
  if Nat.ltb 1000 cnt then
    let st1 := apply err_too_many st in
    match default_eh err_too_many st1 with
    | Some (p, st2) => step_body (OStr p) st2
    | None => SRaise
    end
  else step_body o st.

Inductive cast_res :=
| CDone (w : wret) (st : rstate) (wrote_cl : bool)
| CRaise
| COutOfFuel.

(* cnt = value of loops_cnt after the increment of this pass *)
Fixpoint cast (fuel : nat) (cnt : nat) (o : out) (st : rstate) : cast_res :=
  match fuel with
  | O => COutOfFuel
  | S f =>
      match step cnt o st with
      | SCont o' st' => cast f (S cnt) o' st'
      | SDone w st' b => CDone w st' b
      | SRaise => CRaise
      end
  end.

Definition cast_fuel : nat := 1002.

(* ------------------------------------------------------------------ *)
(* 6. Ombott._handle / Ombott.handler / emit (ombott.py:235-292)       *)
(* ------------------------------------------------------------------ *)

Inductive exn := XHttp (is_err : bool) (r : resp) | XExc (ejson : str) | XEsc (to_catchall : bool).

Definition run_prog (h : hprog) (st : rstate) : rstate * (out + exn) :=
  let st1 := apply_muts (h_muts h) st in
  match h_res h with
  | HRet o => (st1, inl o)
  | HRaiseHttp e r => (st1, inr (XHttp e r))
  | HRaiseExc j => (st1, inr (XExc j))
  | HRaiseEsc b => (st1, inr (XEsc b))
  end.

(* [hook() for hook in hooks]: in order, stops at the first one that raises *)
Fixpoint run_hooks (tag : nat -> event) (hs : list (nat * hprog)) (st : rstate)
  : list event * rstate * option exn :=
  match hs with
  | [] => ([], st, None)
  | (i, h) :: t =>
      match run_prog h st with
      | (st1, inl _) => let '(ev, st2, x) := run_hooks tag t st1 in (tag i :: ev, st2, x)
      | (st1, inr x) => ([tag i], st1, Some x)
      end
  end.

Definition indexed {A} (l : list A) : list (nat * A) := combine (seq 0 (length l)) l.

Record program := mkProg {
  p_before : list hprog;      (* before_request hooks in registration order (add_hook appends) *)
  p_after : list hprog;       (* after_request hooks in registration order (add_hook inserts at 0) *)
  p_routing : routing
}.

(* ---- hook lists edited while a request is being served (add_hook / remove_hook, ombott.py:162-189) ----
   emit iterates over a copy of the list (ombott.py:193): an edit made during an emit does not
   change that emit; an edit of the after_request list made before its emit starts does.
   Which callables run before the after_request emit is decided by their results alone. *)
Definition fails_h (h : hprog) : bool := match h_res h with HRet _ => false | _ => true end.
Fixpoint ran_prefix (hs : list hprog) : list hprog :=
  match hs with
  | [] => []
  | h :: t => if fails_h h then [h] else h :: ran_prefix t
  end.
Definition all_ret (hs : list hprog) : bool := forallb (fun h => negb (fails_h h)) hs.
Definition edits_of (hs : list hprog) : list hookedit :=
  flat_map (fun h => flat_map (fun m => match m with MHook e => [e] | _ => [] end) (h_muts h)) hs.
Definition routing_progs (rt : routing) : list hprog :=
  match rt with
  | R404 (Some h) => [h]
  | ROk rh h => ran_prefix rh ++ (if all_ret rh then [h] else [])
  | _ => []
  end.
Definition marker_hook : hprog := mkH [] (HRet OFalsy).
Fixpoint remove_first (j : nat) (l : list (nat * hprog)) : list (nat * hprog) :=
  match l with
  | [] => []
  | (i, h) :: t => if Nat.eqb i j then t else (i, h) :: remove_first j t
  end.
Definition apply_edit (l : list (nat * hprog)) (e : hookedit) : list (nat * hprog) :=
  match e with
  | HERemove true j => remove_first j l
  | HEAdd true j => (j, marker_hook) :: l                        (* insert(0, func) *)
  | _ => l                                                        (* the before_request list: next request *)
  end.

(* the routing + handler part of the inner try (ombott.py:274-281, 235-256) *)
Definition route_and_call (rt : routing) (st : rstate) : list event * rstate * (out + exn) :=
  match rt with
  | R405 allow => ([EvRouted], st, inr (XHttp true (err405 allow)))
  | R404 None => ([EvRouted], st, inr (XHttp true err404))
  | RRaise j => ([EvRouted], st, inr (XExc j))
  | R404 (Some h) => let '(st1, r) := run_prog h st in ([EvRouted; EvHandler], st1, r)
  | ROk rh h =>
      match run_hooks EvRouteHook (indexed rh) st with
      | (ev, st1, Some x) => (EvRouted :: ev, st1, inr x)
      | (ev, st1, None) => let '(st2, r) := run_prog h st1 in (EvRouted :: ev ++ [EvHandler], st2, r)
      end
  end.

(* st0 = the response object as response.__init__() left it *)
(* the after_request list, in call order, when its emit starts *)
Definition after_call_list (p : program) : list (nat * hprog) :=
  fold_left apply_edit
            (edits_of (ran_prefix (p_before p)
                       ++ (if all_ret (p_before p) then routing_progs (p_routing p) else [])))
            (rev (indexed (p_after p))).

Definition handle_from (st0 : rstate) (p : program) : list event * rstate * out :=
  let '(evB, st1, xB) := run_hooks EvHookB (indexed (p_before p)) st0 in
  let '(evM, st2, resM) :=
    match xB with
    | Some x => ([], st1, inr x)
    | None => route_and_call (p_routing p) st1
    end in
  (* finally: self.emit('after_request') — the list was built by insert(0, ..) *)
  let '(evA, st3, xA) := run_hooks EvHookA (after_call_list p) st2 in
  let res := match xA with Some x => inr x | None => resM end in
  let o := match res with
           | inl o => o
           | inr (XHttp e r) => OHttp e r                        (* except HTTPResponse as resp: return resp *)
           | inr (XExc j) => OHttp true (err_handle500 j)         (* except Exception as err500 *)
           | inr (XEsc b) => OEscape b                            (* except (KeyboardInterrupt, ...): raise *)
           end in
  (evB ++ evM ++ evA, st3, o).

Definition handle (p : program) : list event * rstate * out := handle_from st_init p.

(* ------------------------------------------------------------------ *)
(* 7. Ombott.wsgi (ombott.py:374) and the server's side                *)
(* ------------------------------------------------------------------ *)

(* the no-body test, read from the source by tools/gen_constants.py *)
Definition nobody (code : Z) : bool :=
  existsb (Z.eqb code) Gen.nobody_codes
  || existsb (fun r => Z.leb (fst r) code && Z.leb code (snd r)) Gen.nobody_ranges.

(* close = getattr(out, 'close', None); if close: close() *)
Definition close_events (w : wret) : list event :=
  match w with
  | WList _ => []
  | WWrap id hc _ => if hc then [EvClose id] else []
  | WIter _ _ _ (Some id) => [EvClose id]
  | WIter _ _ _ None => []
  | WEscape => []
  end.

Definition l_catchall : str := Eval compute in lit "500 INTERNAL SERVER ERROR".
Definition catchall_headers : list (str * str) := Eval compute in
  [(lit "Content-Type", lit "text/html; charset=UTF-8")].
Definition critical_page (path : str) : str :=
  lit "<h1>Critical error while processing request: " ++ html_escape_ombott path ++ lit "</h1>".

Inductive wsgi_res :=
| WsOk (ev : list event) (w : wret) (st : rstate) (wrote_cl : bool)   (* wsgi returned w *)
| WsEscaped (ev : list event)                     (* an exception left Ombott.wsgi out of its except clause *)
| WsPassed (ev : list event)                      (* an exception no clause of _handle/_cast/wsgi catches went through:
                                                     KeyboardInterrupt, SystemExit, MemoryError, or not an Exception *)
| WsOutOfFuel.

Definition catchall (ev : list event) (st : rstate) : wsgi_res :=
  let ev' := ev ++ [EvStart l_catchall catchall_headers true] in
  if e_head env then WsOk ev' (WList []) st false                 (* fix F31: no body for HEAD *)
  else match utf8_encode (critical_page (e_path env)) with        (* tob(err) *)
       | Some b => WsOk ev' (WList [b]) st false
       | None => WsEscaped ev'
       end.

Definition is_escape (w : wret) : bool := match w with WEscape => true | _ => false end.

(* everything after self._handle(environ) returned; [catch] = the except clause of wsgi() *)
Definition wsgi_tail_gen (catch : list event -> rstate -> wsgi_res)
           (evH : list event) (st : rstate) (o : out) : wsgi_res :=
  match cast cast_fuel 1 o st with
  | COutOfFuel => WsOutOfFuel
  | CRaise => catch evH st
  | CDone w st' wrote =>
      if is_escape w then WsPassed evH else
      let '(evC, w') :=
        if nobody (s_code st') || e_head env then (close_events w, WList []) else ([], w) in
      match headerlist st' with
      | Some hl => WsOk (evH ++ evC ++ [EvStart (s_line st') hl false]) w' st' wrote
      | None => catch (evH ++ evC) st'
      end
  end.

(* config.catchall = True (the default) *)
Definition wsgi_tail := wsgi_tail_gen catchall.
(* config.catchall = False: "if not self.config.catchall: raise" (ombott.py:410) — the exception
   leaves Ombott.wsgi, start_response is not called by the except clause *)
Definition wsgi_tail_nocatch := wsgi_tail_gen (fun ev _ => WsEscaped ev).

Definition wsgi_nocatch (p : program) : wsgi_res :=
  let '(evH, st, o) := handle p in wsgi_tail_nocatch evH st o.

Definition wsgi (p : program) : wsgi_res :=
  let '(evH, st, o) := handle p in wsgi_tail evH st o.

(* what a server sees when it iterates the returned object and then closes it.
   st = the thread's response object at that time (the encoding genexpr reads
   response.charset lazily) *)
Fixpoint iter_rest (m : imode) (st : rstate) (l : list item) : list chunk * bool :=
  match l with
  | [] => ([], false)
  | IYield o :: t =>
      match m, o with
      | MBytes, OBytes b => let '(c, r) := iter_rest m st t in (CBytes b :: c, r)
      | MBytes, _ => let '(c, r) := iter_rest m st t in (CBad :: c, r)
      | MStr, OStr s => match encode st s with
                        | Some b => let '(c, r) := iter_rest m st t in (CBytes b :: c, r)
                        | None => ([], true)
                        end
      | MStr, _ => ([], true)                                   (* no .encode: AttributeError *)
      end
  | _ :: _ => ([], true)
  end.

Definition consume (w : wret) (st : rstate) : list event :=
  match w with
  | WList cs => [EvBody (map CBytes cs)]
  | WWrap id hc content =>
      EvBody (match content with [] => [] | _ => [CBytes content] end)
      :: (if hc then [EvClose id] else [])
  | WIter m first rest cl =>
      let '(c, raised) := iter_rest m st rest in
      EvBody (CBytes first :: c) :: (if raised then [EvIterRaise] else [])
      ++ match cl with Some id => [EvClose id] | None => [] end
  | WEscape => []
  end.

(* the complete observation of one request *)
Definition trace (p : program) : option (list event) :=
  match wsgi p with
  | WsOk ev w st _ => Some (ev ++ consume w st)
  | WsEscaped ev => Some ev
  | WsPassed ev => Some ev
  | WsOutOfFuel => None
  end.

End App.

(* ------------------------------------------------------------------ *)
(* 8. The status setter (response.py:134)                              *)
(* ------------------------------------------------------------------ *)

Inductive sarg := SCode (c : Z) | SLine (s : str).
Inductive sres :=
| SOk (code : Z) (line : str)
| SValueError
| SIndexError      (* status.split()[0] on a string of blanks *)
| SUnmodelled.     (* the first token has a non-ASCII character: int() of non-ASCII digits is not modelled *)

Fixpoint take_while (f : N -> bool) (s : str) : str :=
  match s with
  | [] => []
  | c :: t => if f c then c :: take_while f t else []
  end.

Section Status.
(* _HTTP_STATUS_LINES: http.client.responses + the six codes response.py adds, as code -> phrase *)
Variable reason : Z -> option str.

Definition set_status (a : sarg) : sres :=
  match a with
  | SCode c =>
      if Z.leb 100 c && Z.leb c 999 then
        SOk c (match reason c with
               | Some m => dec_str_of_nat (Z.to_nat c) ++ 32%N :: m
               | None => dec_str_of_nat (Z.to_nat c) ++ lit " Unknown"
               end)
      else SValueError
  | SLine s =>
      if negb (contains_char N.eqb 32%N s) then SValueError     (* no reason phrase *)
      else
        let s' := strip_set is_py_space s in                     (* status.strip() *)
        let tok := take_while (fun c => negb (is_py_space c)) s' in   (* status.split()[0] *)
        match tok with
        | [] => SIndexError
        | _ =>
          if negb (forallb (fun c => N.ltb c 128) tok) then SUnmodelled
          else match py_int_dec tok with                         (* int(...) *)
               | None => SValueError
               | Some c => if Z.leb 100 c && Z.leb c 999 then SOk c s' else SValueError
               end
        end
  end.
End Status.

(* ------------------------------------------------------------------ *)
(* 8b. Exception classes                                                *)
(* ------------------------------------------------------------------ *)

(* An exception class is given by the names of the classes in its __mro__ (an except clause
   matches subclasses).  What happens to an exception raised by a handler, a hook, the first
   next() of a handler iterable or an error handler is decided by the except clauses of
   _handle / _cast / wsgi; the class tuples of their bare `except ...: raise` clauses are read
   from the source (Gen.passthrough_handle, _cast, _wsgi). *)
Definition mro_in (names : list str) (mro : list str) : bool :=
  existsb (fun c => existsb (str_eqb c) names) mro.
Definition is_exception (mro : list str) : bool := existsb (str_eqb (lit "Exception")) mro.

(* once it reaches wsgi(): `except <passthrough>: raise`, then `except Exception` (the catch-all) *)
Definition to_catchall (mro : list str) : bool :=
  is_exception mro && negb (mro_in Gen.passthrough_wsgi mro).

Inductive fate :=
| FOrdinary                        (* caught by `except Exception` right there: a 500 error object *)
| FEscape (to_catchall : bool).    (* let through by _handle / _cast *)

(* raised while _handle runs hooks, routing, the handler (ombott.py:299-305) *)
Definition fate_handle (mro : list str) : fate :=
  if mro_in Gen.passthrough_handle mro then FEscape (to_catchall mro)
  else if is_exception mro then FOrdinary
  else FEscape (to_catchall mro).
(* raised by iter(out) / the first next() in _cast (ombott.py:366-372); StopIteration there means
   "no more items" and is not a raise of the model *)
Definition fate_cast (mro : list str) : fate :=
  if mro_in Gen.passthrough_cast mro then FEscape (to_catchall mro)
  else if is_exception mro then FOrdinary
  else FEscape (to_catchall mro).

Definition hres_of_raise (mro : list str) (ejson : str) : hres :=
  match fate_handle mro with FOrdinary => HRaiseExc ejson | FEscape b => HRaiseEsc b end.
Definition item_of_raise (mro : list str) (ejson : str) : item :=
  match fate_cast mro with FOrdinary => IRaiseExc ejson | FEscape b => IRaiseEsc b end.

(* ------------------------------------------------------------------ *)
(* 9. Correspondence interface                                         *)
(* ------------------------------------------------------------------ *)

Definition dec_bool (l : list Z) : option (bool * list Z) :=
  match l with
  | z :: r => Some (negb (Z.eqb z 0), r)
  | [] => None
  end.

Definition dec_pair {A B} (fa : list Z -> option (A * list Z)) (fb : list Z -> option (B * list Z))
           (l : list Z) : option ((A * B) * list Z) :=
  match fa l with
  | Some (a, r) => match fb r with Some (b, r') => Some ((a, b), r') | None => None end
  | None => None
  end.

Definition dec_opt {A} (fa : list Z -> option (A * list Z)) (l : list Z) : option (option A * list Z) :=
  match l with
  | 0%Z :: r => Some (None, r)
  | _ :: r => match fa r with Some (a, r') => Some (Some a, r') | None => None end
  | [] => None
  end.

Definition dec_hdrs : list Z -> option (hdrs * list Z) := dec_list (dec_pair dec_str (dec_list dec_str)).
Definition dec_jar : list Z -> option (jar * list Z) := dec_list (dec_pair dec_str dec_str).

(* resp, given the decoder for out *)
Definition dec_resp_with (d : list Z -> option (out * list Z)) (l : list Z) : option (resp * list Z) :=
  match l with
  | code :: r0 =>
    match dec_str r0 with Some (line, r1) =>
    match dec_hdrs r1 with Some (hs, r2) =>
    match dec_jar r2 with Some (cs, r3) =>
    match d r3 with Some (body, r4) =>
    match dec_str r4 with Some (bt, r5) =>
    match dec_opt dec_str r5 with Some (bj, r6) =>
    match dec_str r6 with Some (ej, r7) =>
    match dec_bool r7 with Some (tb, r8) => Some (mkResp code line hs cs body bt bj ej tb, r8)
    | None => None end | None => None end | None => None end | None => None end
    | None => None end | None => None end | None => None end | None => None end
  | [] => None
  end.

Definition dec_item_with (d : list Z -> option (out * list Z)) (l : list Z) : option (item * list Z) :=
  match l with
  | 0%Z :: r => match d r with Some (o, r') => Some (IYield o, r') | None => None end
  | 1%Z :: r => match dec_bool r with
                | Some (e, r1) => match dec_resp_with d r1 with
                                  | Some (x, r2) => Some (IRaiseHttp e x, r2)
                                  | None => None
                                  end
                | None => None
                end
  | 2%Z :: r => match dec_str r with Some (j, r') => Some (IRaiseExc j, r') | None => None end
  | 3%Z :: r => match dec_pair (dec_list dec_str) dec_str r with       (* an exception of a given class *)
                | Some ((mro, j), r') => Some (item_of_raise mro j, r')
                | None => None
                end
  | _ => None
  end.

Fixpoint dec_out (fuel : nat) (l : list Z) : option (out * list Z) :=
  match fuel with
  | O => None
  | S f =>
    match l with
    | 0%Z :: r => Some (OFalsy, r)
    | 1%Z :: r => match dec_str r with Some (s, r') => Some (OStr s, r') | None => None end
    | 2%Z :: r => match dec_str r with Some (s, r') => Some (OBytes s, r') | None => None end
    | 3%Z :: r => match dec_bool r with
                  | Some (e, r1) => match dec_resp_with (dec_out f) r1 with
                                    | Some (x, r2) => Some (OHttp e x, r2)
                                    | None => None
                                    end
                  | None => None
                  end
    | 4%Z :: id :: r =>
        match dec_bool r with Some (hc, r1) =>
        match dec_bool r1 with Some (hi, r2) =>
        match dec_str r2 with Some (content, r3) =>
        match dec_str r3 with Some (ty, r4) => Some (OFile (Z.to_nat id) hc hi content ty, r4)
        | None => None end | None => None end | None => None end | None => None end
    | 5%Z :: id :: r =>
        match dec_bool r with Some (hc, r1) =>
        match dec_list (dec_item_with (dec_out f)) r1 with Some (items, r2) =>
        match dec_str r2 with Some (ty, r3) => Some (OIter (Z.to_nat id) hc items ty, r3)
        | None => None end | None => None end | None => None end
    | 6%Z :: r => match dec_pair dec_str dec_str r with
                  | Some ((ty, ej), r') => Some (OOther ty ej, r')
                  | None => None
                  end
    | _ => None
    end
  end.

Definition dec_mut (l : list Z) : option (mut * list Z) :=
  match l with
  | 0%Z :: c :: r => match dec_str r with Some (ln, r') => Some (MStatus c ln, r') | None => None end
  | 1%Z :: r => match dec_pair dec_str dec_str r with Some ((n, v), r') => Some (MSetHeader n v, r') | None => None end
  | 2%Z :: r => match dec_pair dec_str dec_str r with Some ((n, v), r') => Some (MAddHeader n v, r') | None => None end
  | 3%Z :: r => match dec_pair dec_str dec_str r with Some ((n, v), r') => Some (MSetCookie n v, r') | None => None end
  | 4%Z :: a :: j :: r => Some (MHook (HERemove (negb (Z.eqb a 0)) (Z.to_nat j)), r)
  | 5%Z :: a :: j :: r => Some (MHook (HEAdd (negb (Z.eqb a 0)) (Z.to_nat j)), r)
  | 6%Z :: r => match dec_str r with Some (n, r') => Some (MDelHeader n, r') | None => None end
  | 7%Z :: r => Some (MClearHeaders, r)
  | 8%Z :: m :: r => match dec_str r with Some (v, r') => Some (MEnv (negb (Z.eqb m 0)) v, r') | None => None end
  | _ => None
  end.

Definition dec_hres (fuel : nat) (l : list Z) : option (hres * list Z) :=
  match l with
  | 0%Z :: r => match dec_out fuel r with Some (o, r') => Some (HRet o, r') | None => None end
  | 1%Z :: r => match dec_bool r with
                | Some (e, r1) => match dec_resp_with (dec_out fuel) r1 with
                                  | Some (x, r2) => Some (HRaiseHttp e x, r2)
                                  | None => None
                                  end
                | None => None
                end
  | 2%Z :: r => match dec_str r with Some (j, r') => Some (HRaiseExc j, r') | None => None end
  | 3%Z :: r => match dec_pair (dec_list dec_str) dec_str r with
                | Some ((mro, j), r') => Some (hres_of_raise mro j, r')
                | None => None
                end
  | _ => None
  end.

Definition dec_hprog (fuel : nat) (l : list Z) : option (hprog * list Z) :=
  match dec_list dec_mut l with
  | Some (ms, r) => match dec_hres fuel r with Some (h, r') => Some (mkH ms h, r') | None => None end
  | None => None
  end.

Definition dec_routing (fuel : nat) (l : list Z) : option (routing * list Z) :=
  match l with
  | 0%Z :: r => match dec_opt (dec_hprog fuel) r with Some (p, r') => Some (R404 p, r') | None => None end
  | 1%Z :: r => match dec_str r with Some (a, r') => Some (R405 a, r') | None => None end
  | 2%Z :: r => match dec_list (dec_hprog fuel) r with
                | Some (rh, r1) => match dec_hprog fuel r1 with
                                   | Some (h, r2) => Some (ROk rh h, r2)
                                   | None => None
                                   end
                | None => None
                end
  | 3%Z :: r => match dec_str r with Some (j, r') => Some (RRaise j, r') | None => None end
  | _ => None
  end.

(* custom error handlers of the harness: a table code -> behaviour *)
Inductive ehspec :=
| EhConst (o : out)      (* returns a fixed value *)
| EhBody                 (* returns err.body *)
| EhSame                 (* returns err itself (the 1000-iteration guard) *)
| EhRaise                (* raises an ordinary exception *)
| EhRaiseCls (mro : list str).

Definition dec_ehspec (fuel : nat) (l : list Z) : option (ehspec * list Z) :=
  match l with
  | 0%Z :: r => match dec_out fuel r with Some (o, r') => Some (EhConst o, r') | None => None end
  | 1%Z :: r => Some (EhBody, r)
  | 2%Z :: r => Some (EhSame, r)
  | 3%Z :: r => Some (EhRaise, r)
  | 4%Z :: r => match dec_list dec_str r with Some (mro, r') => Some (EhRaiseCls mro, r') | None => None end
  | _ => None
  end.

Definition eh_of_table (t : list (Z * ehspec)) (code : Z) : option (resp -> ehres) :=
  match find (fun p => Z.eqb (fst p) code) t with
  | Some (_, EhConst o) => Some (fun _ => ERet o)
  | Some (_, EhBody) => Some (fun r => ERet (r_body r))
  | Some (_, EhSame) => Some (fun r => ERet (OHttp true r))
  | Some (_, EhRaise) => Some (fun _ => ERaise true)
  | Some (_, EhRaiseCls mro) => Some (fun _ => ERaise (to_catchall mro))     (* nothing in _cast catches it *)
  | None => None
  end.

(* ---- output ---- *)
Definition enc_chunk (c : chunk) : list Z :=
  match c with CBytes b => 0%Z :: enc_str b | CBad => [1%Z] end.
Definition enc_event (e : event) : list Z :=
  match e with
  | EvHookB i => [0%Z; Z.of_nat i]
  | EvRouted => [1%Z]
  | EvRouteHook i => [2%Z; Z.of_nat i]
  | EvHandler => [3%Z]
  | EvHookA j => [4%Z; Z.of_nat j]
  | EvClose id => [5%Z; Z.of_nat id]
  | EvStart line hl exc =>
      6%Z :: enc_str line ++ enc_list (fun kv => enc_str (fst kv) ++ enc_str (snd kv)) hl ++ enc_bool exc
  | EvBody cs => 7%Z :: enc_list enc_chunk cs
  | EvIterRaise => [8%Z]
  end.

(* tag 0: wsgi returned, 1: an exception escaped; then the events *)
Definition enc_res (r : wsgi_res) : list Z :=
  match r with
  | WsOk ev w st _ => 0%Z :: enc_list enc_event (ev ++ consume w st)
  | WsEscaped ev => 1%Z :: enc_list enc_event ev
  | WsPassed ev => 2%Z :: enc_list enc_event ev
  | WsOutOfFuel => [9%Z]
  end.
Definition enc_wsgi env eh (p : program) : list Z := enc_res (wsgi env eh p).

Definition enc_sres (r : sres) : list Z :=
  match r with
  | SOk c l => 0%Z :: c :: enc_str l
  | SValueError => [1%Z]
  | SUnmodelled => [2%Z]
  | SIndexError => [3%Z]
  end.

(* input of kind 0 (a request):
     head fw json ; url ; path ; eh table ; before hooks ; after hooks ; routing
   input of kind 1 (status setter):
     reason table (list of code, phrase) ; 0 code | 1 line *)
(* one request (input of kind 0 without its tag) *)
Definition corr_req (catch : bool) (inp : list Z) : list Z :=
  let fuel := length inp in
  match inp with
  | hd :: fw :: js :: r0 =>
    match dec_str r0 with Some (url, r1) =>
    match dec_str r1 with Some (path, r2) =>
    match dec_list (fun l => match l with
                             | c :: r => match dec_ehspec fuel r with
                                         | Some (s, r') => Some ((c, s), r')
                                         | None => None
                                         end
                             | [] => None
                             end) r2 with Some (tbl, r3) =>
    match dec_list (dec_hprog fuel) r3 with Some (bef, r4) =>
    match dec_list (dec_hprog fuel) r4 with Some (aft, r5) =>
    match dec_routing fuel r5 with Some (rt, _) =>
      let env := mkEnv (negb (Z.eqb hd 0)) (negb (Z.eqb fw 0)) (negb (Z.eqb js 0)) url path in
      (if catch then enc_wsgi env (eh_of_table tbl) (mkProg bef aft rt)
       else enc_res (wsgi_nocatch env (eh_of_table tbl) (mkProg bef aft rt)))
    | None => bad_input end | None => bad_input end | None => bad_input end
    | None => bad_input end | None => bad_input end | None => bad_input end
  | _ => bad_input
  end.

(* a length-prefixed block of integers *)
Definition dec_block (l : list Z) : option (list Z * list Z) :=
  match l with
  | [] => None
  | z :: r => let n := Z.to_nat z in
              if Nat.leb n (length r) then Some (firstn n r, skipn n r) else None
  end.

(* input of kind 2: several requests served one after the other.  A response OBJECT the
   handlers share between the requests is not changed by being applied
   (HTTPResponse.apply copies its headers, response.py:277), so the requests are
   independent runs of the model.  Output: one length-prefixed block per request. *)
Definition corr_C03 (inp : list Z) : list Z :=
  let fuel := length inp in
  match inp with
  | 0%Z :: r => corr_req true r
  | 3%Z :: r => corr_req false r                 (* config.catchall = False *)
  | 2%Z :: r =>
      match dec_list dec_block r with
      | Some (blocks, _) => enc_list (fun b => let o := corr_req true b in Z.of_nat (length o) :: o) blocks
      | None => bad_input
      end
  | 1%Z :: r0 =>
    match dec_list (fun l => match l with
                             | c :: r => match dec_str r with Some (m, r') => Some ((c, m), r') | None => None end
                             | [] => None
                             end) r0 with
    | Some (tbl, r1) =>
        let reason := fun c => match find (fun p => Z.eqb (fst p) c) tbl with
                               | Some (_, m) => Some m
                               | None => None
                               end in
        match r1 with
        | 0%Z :: c :: _ => enc_sres (set_status reason (SCode c))
        | 1%Z :: r2 => match dec_str r2 with
                       | Some (s, _) => enc_sres (set_status reason (SLine s))
                       | None => bad_input
                       end
        | _ => bad_input
        end
    | None => bad_input
    end
  | _ => bad_input
  end.
