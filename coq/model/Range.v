(* Range.v — model of ombott/static_stream.py: get_first_range (l.12-40),
   _file_iter_range (l.43-50) and the part of static_file after the path
   checks (l.100-125: stat, If-Modified-Since, HEAD, Range, header assembly).
   No proofs in this file. *)
From Verif Require Import lib.Base lib.Str lib.PyIntParse model.Static.
Local Open Scope Z_scope.

Definition s_bytes_eq : str := [98; 121; 116; 101; 115; 61]%N.   (* 'bytes=' *)
Definition COMMA : N := 44.
Definition DASH : N := 45.
Definition SEMI : N := 59.

(* ------------------------------------------------------------------ *)
(* get_first_range(header, maxlen)                                     *)
(* ------------------------------------------------------------------ *)
Section RangeParser.
(* Python's int(): a section variable for the soundness theorem; instantiated
   with PyIntParse.py_int_dec for the correspondence and the RFC theorem.
   None = ValueError. *)
Variable pint : str -> option Z.

Definition get_first_range (header : str) (maxlen : Z) : option (Z * Z) :=
  match findb s_bytes_eq header with                      (* l.18 header.split('bytes=', 1)[1] *)
  | None => None                                          (* l.19 IndexError *)
  | Some i =>
    let ranges_str := skipn (i + 6) header in
    let first_range := fst (split_once N.eqb COMMA ranges_str) in   (* l.23 *)
    match split_all N.eqb DASH first_range with                     (* l.25 *)
    | [start; end_] =>
      let res :=
        if is_nil start then                                        (* l.31 *)
          match pint end_ with
          | None => None
          | Some e => Some (Z.max 0 (maxlen - e), maxlen)
          end
        else if is_nil end_ then                                    (* l.33 *)
          match pint start with
          | None => None
          | Some s => Some (s, maxlen)
          end
        else                                                        (* l.35 *)
          match pint start with
          | None => None
          | Some s => match pint end_ with
                      | None => None
                      | Some e => Some (s, Z.min (e + 1) maxlen)
                      end
          end in
      match res with
      | Some (s, e) => if (0 <=? s) && (s <? e) && (e <=? maxlen) then Some (s, e) else None   (* l.37 *)
      | None => None                                                (* l.39 ValueError *)
      end
    | _ => None                                                     (* l.26 ValueError on unpacking *)
    end
  end.
End RangeParser.

(* ------------------------------------------------------------------ *)
(* _file_iter_range(fp, offset, bytes_len, maxread) over a regular file *)
(* ------------------------------------------------------------------ *)
Inductive iter_res :=
| IterOk (chunks : list (list N))       (* generator exhausted *)
| IterRaise (chunks : list (list N))    (* chunks yielded, then seek/read raised (negative offset / size < -1) *)
| IterOutOfFuel.

(* fp.read(n) at position pos of a regular file: -1 = to the end, < -1 raises *)
Definition fread (file : list N) (pos : nat) (n : Z) : option (list N) :=
  if n <? -1 then None
  else if n =? -1 then Some (skipn pos file)
  else Some (firstn (Z.to_nat n) (skipn pos file)).

Definition cons_chunk (c : list N) (r : iter_res) : iter_res :=
  match r with
  | IterOk cs => IterOk (c :: cs)
  | IterRaise cs => IterRaise (c :: cs)
  | IterOutOfFuel => IterOutOfFuel
  end.

(* l.47-50; [pos] = file position after the read that produced [part] *)
Fixpoint iter_loop (fuel : nat) (file : list N) (pos : nat) (bytes_len maxread : Z)
         (part : list N) : iter_res :=
  match fuel with
  | O => IterOutOfFuel
  | S f =>
    if (0 <? bytes_len) && negb (is_nil part) then                    (* l.47 *)
      let bl := bytes_len - Z.of_nat (length part) in                 (* l.48 *)
      match fread file pos (Z.min bl maxread) with                    (* l.50 (after the yield) *)
      | None => IterRaise [part]
      | Some part' => cons_chunk part (iter_loop f file (pos + length part') bl maxread part')
      end
    else IterOk []
  end.

Definition file_iter_range (file : list N) (offset bytes_len maxread : Z) : iter_res :=
  if offset <? 0 then IterRaise []                                    (* l.45 seek: OSError EINVAL *)
  else
    let pos := Z.to_nat offset in
    match fread file pos (Z.min bytes_len maxread) with               (* l.46 *)
    | None => IterRaise []
    | Some part => iter_loop (S (length file)) file (pos + length part) bytes_len maxread part
    end.

(* ------------------------------------------------------------------ *)
(* static_file after the path checks                                   *)
(* ------------------------------------------------------------------ *)
Inductive sbody :=
| BText                      (* '' (HEAD, 304) or the text of an HTTPError: no file bytes *)
| BFile                      (* the open file object itself: the whole file *)
| BIter (r : iter_res).      (* _file_iter_range(body, offset, end - offset) *)

Record resp := mkResp {
  r_status  : Z;
  r_clen    : option str;    (* Content-Length *)
  r_crange  : option str;    (* Content-Range *)
  r_accept  : bool;          (* Accept-Ranges: bytes *)
  r_lastmod : bool;          (* Last-Modified present (value: email.utils.formatdate, not modelled) *)
  r_date    : bool;          (* Date present *)
  r_opened  : bool;          (* l.111 open(filename, 'rb') executed *)
  r_body    : sbody
}.

Definition default_maxread : Z := 1024 * 1024.    (* l.43 *)

Definition s_bytes_sp : str := [98; 121; 116; 101; 115; 32]%N.   (* 'bytes ' *)

(* l.120  f"bytes {offset}-{end-1}/{clen}" *)
Definition content_range (offset end_ clen : Z) : str :=
  s_bytes_sp ++ dec_of_Z offset ++ [DASH] ++ dec_of_Z (end_ - 1) ++ [47%N] ++ dec_of_Z clen.

(* l.104-106: the argument handed to parse_date, None = parse_date not called
   (header absent or empty; with the empty header ims stays falsy => no 304) *)
Definition ims_arg (ims_hdr : option str) : option str :=
  match ims_hdr with
  | None => None
  | Some h => if is_nil h then None
              else Some (strip_set is_py_space (fst (split_once N.eqb SEMI h)))
  end.

Section Serve.
Variable pint : str -> option Z.
Variable parse_date : str -> option Z.   (* common_helpers.parse_date: oracle (email.utils, time.mktime) *)

Definition ims_value (ims_hdr : option str) : option Z :=
  match ims_arg ims_hdr with
  | None => None
  | Some a => parse_date a
  end.

(* [file] the content, [mtime] = int(stats.st_mtime), [head] = request.method == 'HEAD',
   [range_hdr] = environ.get('HTTP_RANGE') *)
Definition sf_serve (file : list N) (mtime : Z) (ims_hdr : option str) (head : bool)
           (range_hdr : option str) (maxread : Z) : resp :=
  let clen := Z.of_nat (length file) in                                       (* l.101 *)
  let notmod := match ims_value ims_hdr with
                | Some t => mtime <=? t                                       (* l.107 *)
                | None => false
                end in
  if notmod then
    mkResp 304 (Some (dec_of_Z clen)) None false true true false BText         (* l.108-109 *)
  else
    let opened := negb head in                                                (* l.111 *)
    match range_hdr with
    | Some h =>
      if is_nil h then mkResp 200 (Some (dec_of_Z clen)) None true true false opened
                              (if head then BText else BFile)                 (* l.115 falsy *)
      else
      match get_first_range pint h clen with                                  (* l.116 *)
      | None => mkResp 416 None None false false false opened BText            (* l.118 *)
      | Some (offset, end_) =>
        mkResp 206 (Some (dec_of_Z (end_ - offset)))                          (* l.121 *)
               (Some (content_range offset end_ clen))                        (* l.120 *)
               true true false opened
               (if head then BText                                            (* l.122 '' is falsy *)
                else BIter (file_iter_range file offset (end_ - offset) maxread))
      end
    | None => mkResp 200 (Some (dec_of_Z clen)) None true true false opened
                     (if head then BText else BFile)                          (* l.125 *)
    end.

(* the whole function: path checks (Static.sf_gate) then sf_serve on the file
   found at the target; [content] and [mtime_of] are filesystem oracles *)
Variables fs_exists fs_isfile fs_access : str -> bool.
Variable content : str -> list N.
Variable mtime_of : str -> Z.

Definition err_resp (status : Z) : resp := mkResp status None None false false false false BText.

Definition static_file (cwd root name : str) (ims_hdr : option str) (head : bool)
           (range_hdr : option str) : resp :=
  match sf_gate fs_exists fs_isfile fs_access cwd root name with
  | G403Denied => err_resp 403
  | G404 => err_resp 404
  | G403Perm => err_resp 403
  | GServe t => sf_serve (content t) (mtime_of t) ims_hdr head range_hdr default_maxread
  end.
End Serve.

(* ------------------------------------------------------------------ *)
(* static_file l.86-98: Content-Encoding / Content-Type / Content-Disposition *)
(* ------------------------------------------------------------------ *)
Inductive mime_arg := MAuto | MNone | MGiven (m : str).          (* mimetype='auto' / None or '' / 'x/y' *)
Inductive dl_arg := DNo | DTrue | DName (n : str).               (* download=False or '' / True / 'name' *)

Definition s_text_slash : str := [116; 101; 120; 116; 47]%N.                         (* 'text/' *)
Definition s_charset : str := [99; 104; 97; 114; 115; 101; 116]%N.                   (* 'charset' *)
Definition s_charset_eq : str := [59; 32; 99; 104; 97; 114; 115; 101; 116; 61]%N.    (* '; charset=' *)
Definition s_attach : str :=                                                         (* attachment; filename= followed by a double quote *)
  [97; 116; 116; 97; 99; 104; 109; 101; 110; 116; 59; 32; 102; 105; 108; 101; 110; 97; 109; 101; 61; 34]%N.

(* posixpath.basename: what follows the last '/' *)
Fixpoint basename_aux (p acc : str) : str :=
  match p with
  | [] => acc
  | c :: r => if (c =? SEP)%N then basename_aux r [] else basename_aux r (acc ++ [c])
  end.
Definition basename (p : str) : str := basename_aux p [].

(* common_helpers._hval: CR, LF and NUL make HeaderDict.append raise ValueError *)
Definition has_ctl (v : str) : bool := existsb (fun c => (c =? 10) || (c =? 13) || (c =? 0))%N v.

Definition nonempty (o : option str) : option str :=
  match o with Some s => if is_nil s then None else Some s | None => None end.

(* [guess] = mimetypes.guess_type(filename) (an oracle); [charset] = '' for a falsy charset.
   Result: None = ValueError from the header store; else (Content-Encoding, Content-Type, Content-Disposition) *)
Definition present_mime (guess : option str * option str) (mimetype : mime_arg) : option str * option str :=
  match mimetype with
  | MAuto => (nonempty (fst guess), nonempty (snd guess))     (* l.87-89 *)
  | MNone => (None, None)
  | MGiven m => (nonempty (Some m), None)
  end.

Definition present_ctype (mt : option str) (charset : str) : option str :=     (* l.91-94 *)
  match mt with
  | None => None
  | Some m =>
    if startswith m s_text_slash && negb (is_nil charset)
       && negb (match findb s_charset m with Some _ => true | None => false end)
    then Some (m ++ s_charset_eq ++ charset) else Some m
  end.

Definition present_cdisp (filename : str) (download : dl_arg) : option str :=  (* l.96-98 *)
  match download with
  | DNo => None
  | DTrue => Some (s_attach ++ basename filename ++ [34%N])
  | DName n => Some (s_attach ++ basename n ++ [34%N])
  end.

Definition bad_hval (o : option str) : bool := match o with Some v => has_ctl v | None => false end.

Definition sf_present (filename : str) (guess : option str * option str)
           (mimetype : mime_arg) (charset : str) (download : dl_arg)
  : option (option str * option str * option str) :=
  let enc := snd (present_mime guess mimetype) in
  let ctype := present_ctype (fst (present_mime guess mimetype)) charset in
  let cdisp := present_cdisp filename download in
  if bad_hval enc || bad_hval ctype || bad_hval cdisp then None else Some (enc, ctype, cdisp).

(* bytes delivered by a body *)
Definition body_bytes (file : list N) (b : sbody) : list N :=
  match b with
  | BText => []
  | BFile => file
  | BIter (IterOk cs) => concat cs
  | BIter (IterRaise cs) => concat cs
  | BIter IterOutOfFuel => []
  end.

(* ---- correspondence interface ---- *)
Definition enc_opt_pair (o : option (Z * Z)) : list Z :=
  match o with None => [0] | Some (s, e) => [1; s; e] end.

Definition enc_iter (r : iter_res) : list Z :=
  match r with
  | IterOk cs => 0 :: enc_list enc_str cs
  | IterRaise cs => 1 :: enc_list enc_str cs
  | IterOutOfFuel => [9]
  end.

Definition enc_body (file : list N) (b : sbody) : list Z :=
  match b with
  | BText => [0]
  | BFile => 1 :: enc_str file
  | BIter r => 2 :: enc_iter r
  end.

Definition enc_resp (file : list N) (r : resp) : list Z :=
  [r_status r] ++ enc_option enc_str (r_clen r) ++ enc_option enc_str (r_crange r)
  ++ enc_bool (r_accept r) ++ enc_bool (r_lastmod r) ++ enc_bool (r_date r) ++ enc_bool (r_opened r)
  ++ enc_body file (r_body r).

Definition dec_opt_str (l : list Z) : option (option str * list Z) :=
  match l with
  | 0 :: r => Some (None, r)
  | _ :: r => match dec_str r with Some (s, r') => Some (Some s, r') | None => None end
  | [] => None
  end.

Definition dec_opt_Z (l : list Z) : option (option Z * list Z) :=
  match l with
  | 0 :: _ :: r => Some (None, r)
  | _ :: z :: r => Some (Some z, r)
  | _ => None
  end.

(* input: kind :: ...
     0 ; header ; maxlen                                      get_first_range
     1 ; file ; offset ; bytes_len ; maxread                  _file_iter_range
     2 ; file ; mtime ; ims_hdr? ; parse_date result? ; head ; range? ; maxread     static_file *)
Definition corr_C17 (inp : list Z) : list Z :=
  match inp with
  | 0 :: r =>
    match dec_str r with
    | Some (hdr, [maxlen]) => enc_opt_pair (get_first_range py_int_dec hdr maxlen)
    | _ => bad_input
    end
  | 1 :: r =>
    match dec_str r with
    | Some (file, [off; n; mr]) => enc_iter (file_iter_range file off n mr)
    | _ => bad_input
    end
  | 2 :: r =>
    match dec_str r with
    | Some (file, mtime :: r1) =>
      match dec_opt_str r1 with
      | Some (ims_hdr, r2) =>
        match dec_opt_Z r2 with
        | Some (pd, hd :: r3) =>
          match dec_opt_str r3 with
          | Some (range_hdr, [mr]) =>
            enc_option enc_str (ims_arg ims_hdr)
            ++ enc_resp file (sf_serve py_int_dec (fun _ => pd) file mtime ims_hdr
                                       (negb (Z.eqb hd 0)) range_hdr mr)
          | _ => bad_input
          end
        | _ => bad_input
        end
      | None => bad_input
      end
    | _ => bad_input
    end
  | 3 :: r =>
    (* filename ; guess type? ; guess enc? ; mimetype tag (0 auto,1 none,2 given) ; mimetype ; charset ; dl tag (0,1,2) ; dl name *)
    match dec_str r with
    | Some (fname, r1) =>
      match dec_opt_str r1 with
      | Some (gt, r2) =>
        match dec_opt_str r2 with
        | Some (ge, mtag :: r3) =>
          match dec_str r3 with
          | Some (m, r4) =>
            match dec_str r4 with
            | Some (cs, dtag :: r5) =>
              match dec_str r5 with
              | Some (dn, _) =>
                let ma := if mtag =? 0 then MAuto else if mtag =? 1 then MNone else MGiven m in
                let da := if dtag =? 0 then DNo else if dtag =? 1 then DTrue else DName dn in
                match sf_present fname (gt, ge) ma cs da with
                | None => [0]
                | Some (e, t, d) => 1 :: enc_option enc_str e ++ enc_option enc_str t ++ enc_option enc_str d
                end
              | None => bad_input
              end
            | _ => bad_input
            end
          | None => bad_input
          end
        | _ => bad_input
        end
      | None => bad_input
      end
    | None => bad_input
    end
  | _ => bad_input
  end.
