(* History.v — C09: one application object serving a sequence of requests on one
   worker thread.  On top of model/Wsgi.v.

   ombott.py: Ombott._handle (early return for an undecodable PATH_INFO, with the
   fix F11), the per-thread cells of app.request / app.response
   (common_helpers.ts_props), DefaultConfig.errors_map (shared HTTPError
   instances) and request_pkg/request.py: BaseRequest._raise (with the fix F12).

   What survives from one request to the next on a thread is made explicit as
   [tstate]; every place where the code reads a cell is a read of the
   corresponding field of the state that the current request has built so far.
   No proofs in this file. *)
From Coq Require Import String Ascii.
From Verif Require Import lib.Base lib.Str lib.Utf8 lib.Html model.Wsgi.
From Verif Require gen.Gen.

(* ------------------------------------------------------------------ *)
(* requests, the application, the state that persists                  *)
(* ------------------------------------------------------------------ *)

(* what the framework and the application read from the environ *)
Record request := mkReq {
  q_id : nat;            (* identity of the per-request objects (environ, wsgi.input) *)
  q_raw : str;           (* environ['PATH_INFO'] as received: a Latin-1 str *)
  q_head : bool;
  q_fw : bool;
  q_json : bool;
  q_url : str;           (* repr(html.escape(request.url)): a function of the environ *)
  q_rest : list Z;       (* everything else in the environ, uninterpreted *)
  q_replaced : bool;     (* the handler read the body to the end: environ['wsgi.input'] now is the buffered copy *)
  q_nopath : bool        (* the environ has no PATH_INFO key at all (PEP 3333: a variable whose value would be
                            the empty string may be left out); q_raw is not read then *)
}.

(* the read-only part of the application: what hooks, routing, the handler and
   route hooks do, as a function of what they can legitimately read — the
   request object and the response object as the framework hands it over —
   together with the shared errors_map entries (by index) that
   BaseRequest._raise raised while they ran, each with the fact whether the raise
   happened inside an except block (only then does Python set __context__);
   the custom error handlers; the shared error objects *)
Record app_static := mkApp {
  a_beh : request -> rstate -> program * list (nat * bool);
  a_eh : Z -> option (resp -> ehres);
  a_shared : nat         (* number of entries of config.errors_map *)
}.

(* the mutable part of one shared error object: the requests whose frames its
   __traceback__ chain holds (newest first), and the request whose exception is
   its __context__ *)
Definition errstate := (list nat * option nat)%type.

(* per-thread cells of app.request / app.response, and the shared error objects *)
Record tstate := mkT {
  t_req : option request;        (* app.request.environ *)
  t_resp : rstate;               (* app.response: status, headers, cookies *)
  t_tb : list errstate
}.

Definition ts_fresh (app : app_static) : tstate :=
  mkT None st_init (repeat ([], None) (a_shared app)).

(* ------------------------------------------------------------------ *)
(* serving one request                                                 *)
(* ------------------------------------------------------------------ *)

(* path.encode('latin1').decode('utf8')  (ombott.py:264) *)
Definition decode_path (raw : str) : option str :=
  match latin1_enc raw with
  | Some bs => utf8_dec bs
  | None => None
  end.

Definition err400_path : resp :=                                 (* ombott.py:271 *)
  mk_err 400 (lit "400 Bad Request") (lit "Invalid path string. Expected UTF-8") ejson_none false [].

(* the request object the framework and the handlers see is the one in the cell *)
Definition env_of (cell : option request) (path : str) : cenv :=
  match cell with
  | Some r => mkEnv (q_head r) (q_fw r) (q_json r) (q_url r) path
  | None => mkEnv false false false [] path                      (* never read: the cell is written first *)
  end.

Fixpoint set_nth {A} (n : nat) (v : A) (l : list A) : list A :=
  match l, n with
  | [], _ => []
  | _ :: t, O => v :: t
  | x :: t, S n' => x :: set_nth n' v t
  end.

(* "raise e" sets e.__context__ to the exception being handled, if there is one; outside
   an except block it leaves __context__ as it is *)
Definition new_context (id : nat) (inside : bool) (old : option nat) : option nat :=
  if inside then Some id else old.

(* BaseRequest._raise with the fix F12: out_err.with_traceback(None), then
   "raise" pushes this request's frames: the chain holds this request only.
   k = (index of the errors_map entry, raised inside an except block?) *)
Definition raise_shared (id : nat) (tb : list errstate) (k : nat * bool) : list errstate :=
  let old := nth (fst k) tb ([], None) in
  set_nth (fst k) ([id], new_context id (snd k) (snd old)) tb.

(* F12: "raise out_err" on an instance that already has a traceback prepends the new frames *)
Definition raise_shared_F12 (id : nat) (tb : list errstate) (k : nat * bool) : list errstate :=
  let old := nth (fst k) tb ([], None) in
  set_nth (fst k) (id :: fst old, new_context id (snd k) (snd old)) tb.

(* the events a server observes for this request *)
Definition response := list event.

Definition events_of (r : wsgi_res) : response :=
  match r with
  | WsOk ev w st _ => ev ++ consume w st
  | WsEscaped ev => ev
  | WsPassed ev => ev                                             (* the server sees the exception, no response *)
  | WsOutOfFuel => []
  end.

Section Raise.
(* how BaseRequest._raise changes the traceback chains: [raise_shared] (the code) or [raise_shared_F12] *)
Variable raise_rule : nat -> list errstate -> nat * bool -> list errstate.

(* after the cells hold [ts1]: routing, hooks, handler, casting, start_response *)
Definition serve_decoded (app : app_static) (ts1 : tstate) (r : request) (path : str) : response * tstate :=
  let env := env_of (t_req ts1) path in                          (* request.url, REQUEST_METHOD, ... *)
  let '(p, raised) :=
    match t_req ts1 with
    | Some rq => a_beh app rq (t_resp ts1)                        (* handlers read app.request / app.response *)
    | None => (mkProg [] [] (R404 None), [])
    end in
  let '(evH, st, o) := handle_from (t_resp ts1) p in
  let res := wsgi_tail env (a_eh app) evH st o in
  (events_of res,
   mkT (t_req ts1) (match res with WsOk _ _ st' _ => st' | _ => st end)
       (fold_left (raise_rule (q_id r)) raised (t_tb ts1))).

(* the early return of _handle: HTTPError(400, ...), no hooks, no routing; the
   error page is rendered from the cells as they are *)
Definition serve_bad_path (app : app_static) (ts1 : tstate) (r : request) : response * tstate :=
  let env := env_of (t_req ts1) (q_raw r) in
  let res := wsgi_tail env (a_eh app) [] (t_resp ts1) (OHttp true err400_path) in
  (events_of res,
   mkT (t_req ts1) (match res with WsOk _ _ st _ => st | _ => t_resp ts1 end) (t_tb ts1)).

(* No PATH_INFO key: the first statement of _handle, environ['PATH_INFO'], raises KeyError —
   outside its try and before request.__init__ / response.__init__.  The except clause of wsgi()
   answers from the environ alone: environ.get('PATH_INFO', '/') for the page,
   environ.get('REQUEST_METHOD') for HEAD.  No hook runs, the cells keep what the previous
   request left (and are not read). *)
Definition serve_no_path (ts : tstate) (r : request) : response * tstate :=
  (events_of (catchall (mkEnv (q_head r) false false [] (lit "/")) [] (t_resp ts)), ts).

Definition serve_gen (app : app_static) (ts : tstate) (r : request) : response * tstate :=
  if q_nopath r then serve_no_path ts r else
  (* request.__init__(environ); response.__init__(): on the regular path
     (ombott.py:275-276) and, since the fix F11, before the early return too *)
  let ts1 := mkT (Some r) st_init (t_tb ts) in
  match decode_path (q_raw r) with
  | None => serve_bad_path app ts1 r
  | Some path => serve_decoded app ts1 r path
  end.

Fixpoint run_gen (app : app_static) (ts : tstate) (h : list request) : list response * tstate :=
  match h with
  | [] => ([], ts)
  | r :: t => let '(resp, ts1) := serve_gen app ts r in
              let '(rs, ts2) := run_gen app ts1 t in (resp :: rs, ts2)
  end.
End Raise.

Definition serve := serve_gen raise_shared.
Definition run := run_gen raise_shared.

(* requests some of whose objects (environ, input stream, buffered body, ...) may still be
   reachable from the application after the history: the one in the request cell, those
   whose frames the shared errors' tracebacks hold, and those whose exception is the
   __context__ of a shared error *)
Definition alive (ts : tstate) : list nat :=
  (match t_req ts with
   | Some r => [q_id r]
   | None => []
   end) ++ flat_map (fun e => fst e ++ match snd e with Some i => [i] | None => [] end) (t_tb ts).

(* ------------------------------------------------------------------ *)
(* the code before the fixes, kept as a record of the repaired defects *)
(* ------------------------------------------------------------------ *)

(* F11: the early return left both cells untouched *)
Definition serve_F11 (app : app_static) (ts : tstate) (r : request) : response * tstate :=
  if q_nopath r then serve_no_path ts r else
  match decode_path (q_raw r) with
  | None => serve_bad_path app ts r                              (* cells still hold the previous request *)
  | Some path => serve_decoded raise_shared app (mkT (Some r) st_init (t_tb ts)) r path
  end.

(* F12: the chains grow *)
Definition serve_F12 := serve_gen raise_shared_F12.
Definition run_F12 := run_gen raise_shared_F12.

(* ------------------------------------------------------------------ *)
(* correspondence interface                                            *)
(* ------------------------------------------------------------------ *)

(* dump of the response object as a before_request hook sees it (harness hook "peek") *)
Definition dump_state (st : rstate) : str :=
  s_line st ++ lit "|"
  ++ flat_map (fun kv => fst kv ++ lit "=" ++ join (lit ",") (snd kv) ++ lit ";") (s_hs st) ++ lit "|"
  ++ flat_map (fun kv => snd kv ++ lit ";") (s_cs st).

Definition peek_hook (st : rstate) : hprog :=
  mkH [MSetHeader (lit "X-Peek") (dump_state st)] (HRet OFalsy).

(* one request of a generated history: the request, whether the app's peek hook is
   installed, the program its hooks/handler run, the shared errors raised *)
Record hcase := mkHC { hc_req : request; hc_prog : program; hc_raised : list (nat * bool) }.

Definition dec_request (l : list Z) : option (request * list Z) :=
  match l with
  | id :: hd :: fw :: js :: rep :: np :: r0 =>
    match dec_str r0 with Some (raw, r1) =>
    match dec_str r1 with Some (url, r2) =>
      Some (mkReq (Z.to_nat id) raw (negb (Z.eqb hd 0)) (negb (Z.eqb fw 0)) (negb (Z.eqb js 0)) url []
                  (negb (Z.eqb rep 0)) (negb (Z.eqb np 0)), r2)
    | None => None end | None => None end
  | _ => None
  end.

Definition dec_hcase (fuel : nat) (l : list Z) : option (hcase * list Z) :=
  match dec_request l with Some (rq, r1) =>
  match dec_list (dec_hprog fuel) r1 with Some (bef, r2) =>
  match dec_list (dec_hprog fuel) r2 with Some (aft, r3) =>
  match dec_routing fuel r3 with Some (rt, r4) =>
  match dec_list (dec_pair dec_nat dec_bool) r4 with Some (raised, r5) => Some (mkHC rq (mkProg bef aft rt) raised, r5)
  | None => None end | None => None end | None => None end | None => None end | None => None end.

(* the behaviour function of the generated application: look the request up by
   id; the peek hook (registered first) is a function of the handed-over state *)
Definition beh_of (peek : bool) (cases : list hcase) (rq : request) (st : rstate) : program * list (nat * bool) :=
  match find (fun c => Nat.eqb (q_id (hc_req c)) (q_id rq)) cases with
  | Some c =>
      let p := hc_prog c in
      (mkProg ((if peek then [peek_hook st] else []) ++ p_before p) (p_after p) (p_routing p), hc_raised c)
  | None => (mkProg [] [] (R404 None), [])
  end.

Definition enc_response (r : response) : list Z := enc_list enc_event r.

(* input: 3 ; reset ; ids   (runtime-rule experiment), or
          variant (0 = the code, 1 = F11 variant, 2 = F12 variant) ; peek ; shared count ; eh table ; cases
   output: the responses, then for each shared error its traceback owners and its context owner, then the
   ids that may be alive *)
Definition corr_C09 (inp : list Z) : list Z :=
  let fuel := length inp in
  match inp with
  | 3%Z :: reset :: ids =>
      (* the runtime rule alone: one exception instance raised once per id, with / without
         with_traceback(None) before each raise; output = owners of the frames in its chain *)
      let step := if Z.eqb reset 0 then raise_shared_F12 else raise_shared in
      enc_list (fun i => [Z.of_nat i])
               (fst (nth 0 (fold_left (fun tb id => step (Z.to_nat id) tb (0, true)) ids [([], None)]) ([], None)))
  | 4%Z :: pk :: nshared :: n :: r0 =>
    (* a retention history: the same request class n times, ids 0..n-1; output = the last
       response, the traceback owners, the alive ids *)
    match dec_hcase fuel r0 with
    | Some (c, _) =>
        let with_id := fun i =>
          let q := hc_req c in
          mkHC (mkReq i (q_raw q) (q_head q) (q_fw q) (q_json q) (q_url q) (q_rest q) (q_replaced q) (q_nopath q))
               (hc_prog c) (hc_raised c) in
        let cases := map with_id (seq 0 (Z.to_nat n)) in
        let app := mkApp (beh_of (negb (Z.eqb pk 0)) cases) (fun _ => None) (Z.to_nat nshared) in
        let '(rs, ts) := run app (ts_fresh app) (map hc_req cases) in
        enc_list enc_response (match rev rs with x :: _ => [x] | [] => [] end)
        ++ enc_list (fun e => enc_list (fun i => [Z.of_nat i]) (fst e) ++ enc_option (fun i => [Z.of_nat i]) (snd e)) (t_tb ts)
        ++ enc_list (fun i => [Z.of_nat i]) (alive ts)
    | None => bad_input
    end
  | variant :: pk :: nshared :: r0 =>
    match dec_list (fun l => match l with
                             | c :: r => match dec_ehspec fuel r with
                                         | Some (s, r') => Some ((c, s), r')
                                         | None => None
                                         end
                             | [] => None
                             end) r0 with Some (tbl, r1) =>
    match dec_list (dec_hcase fuel) r1 with Some (cases, _) =>
      let app := mkApp (beh_of (negb (Z.eqb pk 0)) cases) (eh_of_table tbl) (Z.to_nat nshared) in
      let reqs := map hc_req cases in
      let '(rs, ts) :=
        if Z.eqb variant 1 then
          fold_left (fun acc r => let '(resp, ts1) := serve_F11 app (snd acc) r in (fst acc ++ [resp], ts1))
                    reqs ([], ts_fresh app)
        else if Z.eqb variant 2 then run_F12 app (ts_fresh app) reqs
        else run app (ts_fresh app) reqs in
      enc_list enc_response rs
      ++ enc_list (fun e => enc_list (fun i => [Z.of_nat i]) (fst e) ++ enc_option (fun i => [Z.of_nat i]) (snd e)) (t_tb ts)
      ++ enc_list (fun i => [Z.of_nat i]) (alive ts)
    | None => bad_input end | None => bad_input end
  | _ => bad_input
  end.
