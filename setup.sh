#!/bin/sh
# Build the whole framework from files on disk (offline).  Idempotent.
set -e
cd "$(dirname "$0")"
export PYTHONPATH=/repo PYTHONHASHSEED=0
/venv/bin/python tools/gen_constants.py
mkdir -p ocaml/build coq/cases
cd coq
( echo "-Q . Verif"; echo "-arg -w -arg -notation-overridden,-deprecated-hint-without-locality,-deprecated-instance-without-locality"; find lib gen model proofs props extract -name '*.v' | sort ) > _CoqProject.new
if ! cmp -s _CoqProject.new _CoqProject 2>/dev/null; then mv _CoqProject.new _CoqProject; coq_makefile -f _CoqProject -o Makefile >/dev/null; else rm _CoqProject.new; fi
[ -f Makefile ] || coq_makefile -f _CoqProject -o Makefile >/dev/null
timeout 3400 make -j16 -k >/dev/null 2>make.log || { echo "coq build had failures (see coq/make.log)"; tail -30 make.log; }
cd ..
/venv/bin/python tools/build_drivers.py --all
echo "setup done"
