import io, sys
from ombott import Ombott
class Rec:
    def __init__(s, data): s.io = io.BytesIO(data); s.log = []
    def read(s, n=-1):
        s.log.append((n, s.io.tell())); return s.io.read(n)
app = Ombott(dict(max_body_size=3, max_memfile_size=2, catchall=True))
seen = []
@app.route('/u', method='POST')
def h():
    return app.request.body.read()
def after():
    try:
        seen.append(app.request.body.read())
    except Exception as e:
        seen.append(type(e).__name__)
app.add_hook('after_request', after)
st = Rec(b'abcdGET /next HTTP/1.1\r\n\r\n')
env = {'REQUEST_METHOD': 'POST', 'PATH_INFO': '/u', 'CONTENT_LENGTH': '4', 'wsgi.input': st, 'wsgi.errors': io.StringIO(),
       'SERVER_NAME': 'l', 'SERVER_PORT': '80', 'wsgi.url_scheme': 'http', 'SERVER_PROTOCOL': 'HTTP/1.1', 'QUERY_STRING': '', 'SCRIPT_NAME': ''}
status = []
b''.join(app(env, lambda s, h, e=None: status.append(s)))
beyond = [(n, p) for n, p in st.log if p + n > 4]
print(status[0], 'after hook saw', seen, 'reads', st.log)
if beyond:
    print('FAIL: reads beyond Content-Length 4:', beyond); sys.exit(1)
print('OK')
