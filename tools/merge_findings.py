#!/venv/bin/python
"""merge_findings.py <cluster> — move the `finding` lines of fixes/<cluster>.findings.jsonl into KNOWN_FINDINGS.jsonl (coordinator)."""
import json, os, sys
root = '/verif'
frag = os.path.join(root, 'fixes', sys.argv[1] + '.findings.jsonl')
known = os.path.join(root, 'KNOWN_FINDINGS.jsonl')
have = {json.loads(l)['id'] for l in open(known) if l.strip()}
n = 0
with open(known, 'a') as out:
    for l in open(frag):
        if not l.strip():
            continue
        e = json.loads(l)
        if e.get('kind') == 'finding' and e['id'] not in have:
            out.write(json.dumps(e, ensure_ascii=False) + '\n')
            n += 1
os.remove(frag)
print('merged', n, 'finding(s) from', sys.argv[1])
