#!/bin/sh
# usage: tools/seed_recheck_all.sh [parallelism] — re-run every kept seeded change (seeded/<id>/patch.diff) against the
# current checks; prints one line per seed that is NOT reported (or does not apply), and a summary
P=${1:-5}
cd /verif
ls seeded | grep -v _staging | while read id; do
  prop=$(echo $id | sed 's/-.*//')
  echo "$prop seeded/$id/patch.diff seeded/$id/demo.py $id"
done | xargs -P $P -L 1 sh -c 'out=$(timeout 1200 tools/seed_verify.sh $0 $1 $2 2>&1); if echo "$out" | grep -q "^VIOLATION property=$0"; then nfi=$(echo "$out" | grep -c no-failing-input-found); v=$(echo "$out" | grep -c "^VIOLATION"); if [ "$nfi" = "$v" ]; then echo "NFI-ONLY $3"; else echo "caught $3"; fi; else echo "MISSED $3: $(echo "$out" | tail -1 | cut -c1-120)"; fi' | tee /tmp/seed_recheck.log | grep -v "^caught"
echo "total: $(grep -c . /tmp/seed_recheck.log) caught: $(grep -c '^caught' /tmp/seed_recheck.log) nfi-only: $(grep -c '^NFI-ONLY' /tmp/seed_recheck.log) missed: $(grep -c '^MISSED' /tmp/seed_recheck.log)"
