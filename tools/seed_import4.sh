#!/bin/sh
# usage: tools/seed_import4.sh Cxx [first-number] — import /tmp/mut4out_Cxx/{change,demo,note}{1,2} as numbers N, N+1
# (default 7, 8) into seeded/_staging/Cxx
P=$1
N=${2:-7}
mkdir -p /verif/seeded/_staging/$P
for i in 1 2; do
  j=$((N+i-1))
  cp /tmp/mut4out_$P/change$i.diff /verif/seeded/_staging/$P/change$j.diff
  cp /tmp/mut4out_$P/demo$i.py /verif/seeded/_staging/$P/demo$j.py
  cp /tmp/mut4out_$P/note$i.txt /verif/seeded/_staging/$P/note$j.txt
done
git -C /repo worktree remove --force /tmp/mut4_$P 2>/dev/null
exit 0
