#!/bin/sh
# independent re-check of every compiled property file with coqchk -o; writes COQCHK.txt
cd "$(dirname "$0")/../coq"
flock .lock sh -c 'coq_makefile -f _CoqProject -o Makefile >/dev/null; timeout 3400 make -j16 >/dev/null 2>make.log' || { echo "make failed"; tail -5 make.log; }
mods=$(ls props/*.v | sed 's/\.v$//; s/\//./; s/^/Verif./')
( echo "# coqchk -silent -o -Q . Verif <all props modules>: $(echo $mods | wc -w) modules"; date -u; timeout 7200 coqchk -silent -o -Q . Verif $mods 2>&1 | tail -40 ) > ../COQCHK.txt
tail -25 ../COQCHK.txt
