#!/bin/sh
# independent re-check of every compiled property file with coqchk -o; writes COQCHK.txt
cd /verif/coq
mods=$(ls props/*.v | sed 's/\.v$//; s/\//./; s/^/Verif./')
( echo "# coqchk -silent -o -Q . Verif $mods"; date -u; timeout 7200 coqchk -silent -o -Q . Verif $mods 2>&1 | tail -40 ) > /verif/COQCHK.txt
tail -25 /verif/COQCHK.txt
