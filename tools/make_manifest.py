#!/venv/bin/python
"""make_manifest.py — (re)generate MANIFEST.json from the per-property modules
(tools/props/Cxx.py: MANIFEST dict) and tools/not_applicable.json."""
import importlib
import json
import os
import sys

ROOT = os.path.normpath(os.path.join(os.path.dirname(os.path.abspath(__file__)), '..'))
sys.path.insert(0, os.path.join(ROOT, 'tools'))
sys.path.insert(0, '/repo')
sys.dont_write_bytecode = True

SUBCHECKS = {'C01': ['C01p'], 'C03': ['C03a']}

BASELINE = ('cd /repo && /venv/bin/python -m pytest -ra -q -p no:cacheprovider --timeout=900 '
            '--continue-on-collection-errors')


def main():
    props = [json.loads(l) for l in open(os.path.join(ROOT, 'properties.jsonl'))]
    na = json.load(open(os.path.join(ROOT, 'tools', 'not_applicable.json')))
    claimed = set(json.load(open(os.path.join(ROOT, 'tools', 'claimed.json'))))   # maintained by the coordinator
    checks = []
    not_app = []
    for p in props:
        pid = p['id']
        path = os.path.join(ROOT, 'tools', 'props', pid + '.py')
        mod = None
        if os.path.exists(path) and pid not in na and pid in claimed:
            mod = importlib.import_module('props.' + pid)
        if mod is None or not hasattr(mod, 'MANIFEST'):
            not_app.append(dict(property_id=pid, reason=na.get(pid, 'check not built yet (work in progress); not claimed')))
            continue
        m = dict(mod.MANIFEST)
        for sub in getattr(mod, 'SUBCHECKS', SUBCHECKS.get(pid, [])):
            sm = importlib.import_module('props.' + sub)
            if hasattr(sm, 'MANIFEST'):
                m['text'] = m['text'] + '  ' + sm.MANIFEST['text']
                m['note'] = m['note'] + '  [' + sub + '] ' + sm.MANIFEST['note']
        checks.append(dict(
            property_id=pid,
            quick_cmd='./check %s --tier quick%s' % (pid, ''.join(' --with ' + x for x in getattr(mod, 'SUBCHECKS', SUBCHECKS.get(pid, [])))),
            thorough_cmd='./check %s --tier thorough%s' % (pid, ''.join(' --with ' + x for x in getattr(mod, 'SUBCHECKS', SUBCHECKS.get(pid, [])))),
            evidence_file='/verif/evidence/%s.json' % pid,
            replay_cmd_template='./check %s --replay {path}' % pid,
            engine='coq-proof+correspondence',
            level_claimed=dict(category=m.get('category', 'proof'), text=m['text'], design_ref=m['design_ref']),
            level_note=m['note'],
            technique=m['technique'],
        ))
    man = dict(
        version=1,
        setup_cmd='./setup.sh',
        hooks=dict(guard='OMBOTT_VERIF', enable='no source hooks are needed: every observation point is reachable '
                   'from the harness (recording streams, module-namespace patching, weak references)',
                   baseline_off_cmd=BASELINE, source_commits=[], add_only=True),
        engines=[dict(name='coq-proof+correspondence', path='/verif/tools/check.py',
                      serves_properties=[c['property_id'] for c in checks],
                      kind_free_text='Coq 8.16.1 theorems over hand-written Gallina models (coq/), constants '
                      'regenerated from /repo (tools/gen_constants.py), model tied to the code by differential '
                      'correspondence through OCaml extraction + vm_compute, independent Python property oracle '
                      'for failing-input search')],
        checks=checks,
        notes='See DESIGN.md. KNOWN_FINDINGS.jsonl lists findings and fixed defects; seeded/ holds the seeded breaking changes.',
        not_applicable=not_app,
    )
    with open(os.path.join(ROOT, 'MANIFEST.json'), 'w') as f:
        json.dump(man, f, indent=1)
    print('MANIFEST.json: %d checks, %d not claimed' % (len(checks), len(not_app)))


if __name__ == '__main__':
    main()
