"""gen_loops.py — fail-closed translator of small Python generator loops into Gallina.

Where gen_constants.py extracts declarative facts, this module translates the
*statements* of a function: ombott/request_pkg/body_mixin.py:_iter_body (the
bounded read loop of property C04) becomes a fuelled Gallina function over the
stream model (coq/model/Stream.v), regenerated from /repo's current source on
every run.  coq/proofs/C04_translated.v proves that the generated function and
the hand-written model agree, so a change to the loop's statements breaks a
proof obligation directly (not only the differential correspondence).

Supported subset (anything else raises Shape -> the check fails closed):
  function   def f(read, <int params>..., *, <int kw-only params>): <stmts>   (a generator)
  stmts      x = <int expr> | x = read(<int expr>) | x -= <int expr> | x += <int expr>
             | yield <bytes var> | if <cond>: break (or a bare `return`, the loop being the last statement)
             | while <cond>: <stmts>    (one loop, last statement)
  int expr   name | integer literal | e + e | e - e | min(e, e) | max(e, e) | len(<bytes var>)
  cond       <int expr> (> | >= | < | <= | == | !=) <int expr> | not <bytes var> | <bytes var>
Translation scheme: integers are Z; bytes values are list N; `read(n)` is
Stream.read s (Z.to_nat n) threading the stream; `yield p` appends p to the list
of yielded parts; the while loop is a Fixpoint on fuel whose parameters are the
stream, the function's integer parameters, the integer variables whose value
flows from one iteration into the next (read before written in the loop body, or
read by the loop test) and the yielded list; `break` and a false loop test return Some (yielded, stream);
fuel exhaustion returns None.
"""
import ast


class Shape(Exception):
    pass


CMP = {ast.Gt: 'Z.gtb', ast.GtE: 'Z.geb', ast.Lt: 'Z.ltb', ast.LtE: 'Z.leb', ast.Eq: 'Z.eqb'}


class Tr:
    def __init__(self, fn):
        self.fn = fn
        a = fn.args
        if a.vararg or a.kwarg or a.defaults or any(d is not None for d in a.kw_defaults):
            raise Shape('%s: unsupported signature' % fn.name)
        names = [x.arg for x in a.args] + [x.arg for x in a.kwonlyargs]
        if not names or names[0] != 'read':
            raise Shape('%s: first parameter must be `read`' % fn.name)
        self.params = names[1:]
        self.bytes_vars = set()
        self.int_vars = []          # assigned integer variables, in order of first assignment

    # ---- expressions
    def iexp(self, e):
        if isinstance(e, ast.Name):
            if e.id in self.bytes_vars:
                raise Shape('bytes variable %s used as an integer' % e.id)
            if e.id not in self.params and e.id not in self.int_vars:
                raise Shape('unknown name %s' % e.id)
            return e.id
        if isinstance(e, ast.Constant) and isinstance(e.value, int) and not isinstance(e.value, bool):
            return '(%d)%%Z' % e.value
        if isinstance(e, ast.BinOp) and isinstance(e.op, (ast.Add, ast.Sub)):
            return '(%s %s %s)%%Z' % (self.iexp(e.left), '+' if isinstance(e.op, ast.Add) else '-', self.iexp(e.right))
        if isinstance(e, ast.Call) and isinstance(e.func, ast.Name) and not e.keywords:
            if e.func.id in ('min', 'max') and len(e.args) == 2:
                return '(Z.%s %s %s)' % (e.func.id, self.iexp(e.args[0]), self.iexp(e.args[1]))
            if e.func.id == 'len' and len(e.args) == 1 and isinstance(e.args[0], ast.Name) \
                    and e.args[0].id in self.bytes_vars:
                return '(Z.of_nat (length %s))' % e.args[0].id
        raise Shape('unsupported integer expression: %s' % ast.dump(e)[:100])

    def cond(self, e):
        if isinstance(e, ast.Compare) and len(e.ops) == 1:
            l, r = self.iexp(e.left), self.iexp(e.comparators[0])
            if type(e.ops[0]) in CMP:
                return '(%s %s %s)' % (CMP[type(e.ops[0])], l, r)
            if isinstance(e.ops[0], ast.NotEq):
                return '(negb (Z.eqb %s %s))' % (l, r)
        if isinstance(e, ast.UnaryOp) and isinstance(e.op, ast.Not) and isinstance(e.operand, ast.Name) \
                and e.operand.id in self.bytes_vars:
            return '(match %s with [] => true | _ :: _ => false end)' % e.operand.id
        if isinstance(e, ast.Name) and e.id in self.bytes_vars:
            return '(match %s with [] => false | _ :: _ => true end)' % e.id
        raise Shape('unsupported condition: %s' % ast.dump(e)[:100])

    # ---- statements
    def declare(self, stmts):
        """first pass: which variables are bytes (assigned from read), which are integers"""
        for st in ast.walk(ast.Module(body=stmts, type_ignores=[])):
            if isinstance(st, ast.Assign):
                if len(st.targets) != 1 or not isinstance(st.targets[0], ast.Name):
                    raise Shape('unsupported assignment target')
                v = st.targets[0].id
                if isinstance(st.value, ast.Call) and isinstance(st.value.func, ast.Name) and st.value.func.id == 'read':
                    self.bytes_vars.add(v)
                elif v not in self.int_vars:
                    self.int_vars.append(v)
            elif isinstance(st, ast.AugAssign):
                if not isinstance(st.target, ast.Name):
                    raise Shape('unsupported augmented assignment target')
                if st.target.id not in self.int_vars:
                    self.int_vars.append(st.target.id)
        clash = self.bytes_vars & (set(self.int_vars) | set(self.params))
        if clash:
            raise Shape('variable used both as bytes and as integer: %s' % sorted(clash))

    def block(self, stmts, tail, brk, ind):
        """translate a statement list; `tail` is the Gallina text that follows the last statement,
        `brk` the text for `break` (None outside a loop)"""
        if not stmts:
            return ind + tail
        st, rest = stmts[0], stmts[1:]
        if isinstance(st, ast.Expr) and isinstance(st.value, ast.Constant) and isinstance(st.value.value, str):
            return self.block(rest, tail, brk, ind)              # docstring
        if isinstance(st, ast.Assign):
            v = st.targets[0].id
            if v in self.bytes_vars:
                c = st.value
                if len(c.args) != 1 or c.keywords:
                    raise Shape('read() takes one argument')
                return (ind + "let '(%s, s) := read s (Z.to_nat %s) in\n" % (v, self.iexp(c.args[0]))
                        + self.block(rest, tail, brk, ind))
            return ind + 'let %s := %s in\n' % (v, self.iexp(st.value)) + self.block(rest, tail, brk, ind)
        if isinstance(st, ast.AugAssign) and isinstance(st.op, (ast.Add, ast.Sub)):
            v = st.target.id
            op = '+' if isinstance(st.op, ast.Add) else '-'
            return (ind + 'let %s := (%s %s %s)%%Z in\n' % (v, v, op, self.iexp(st.value))
                    + self.block(rest, tail, brk, ind))
        if isinstance(st, ast.Expr) and isinstance(st.value, ast.Yield):
            y = st.value.value
            if not (isinstance(y, ast.Name) and y.id in self.bytes_vars):
                raise Shape('yield of something that is not a bytes variable')
            return ind + 'let yielded := yielded ++ [%s] in\n' % y.id + self.block(rest, tail, brk, ind)
        if isinstance(st, ast.If) and not st.orelse and len(st.body) == 1 and (
                isinstance(st.body[0], ast.Break)
                or (isinstance(st.body[0], ast.Return) and st.body[0].value is None and self.loop_is_last)):
            # a bare `return` inside the loop of a generator whose loop is its last statement ends it like `break`
            if brk is None:
                raise Shape('break outside a loop')
            return (ind + 'if %s then %s\n' % (self.cond(st.test), brk) + ind + 'else\n'
                    + self.block(rest, tail, brk, ind + '  '))
        raise Shape('unsupported statement: %s' % ast.dump(st)[:120])

    def names_read(self, e):
        return {n.id for n in ast.walk(e) if isinstance(n, ast.Name)}

    def carried(self, loop):
        """integer variables whose value flows from one iteration into the next (or into the loop test):
        read before they are written in the (straight-line) loop body"""
        need = set(self.names_read(loop.test))
        written = set()
        for st in loop.body:
            if isinstance(st, ast.Assign):
                need |= self.names_read(st.value) - written
                written.add(st.targets[0].id)
            elif isinstance(st, ast.AugAssign):
                need |= (self.names_read(st.value) | {st.target.id}) - written
                written.add(st.target.id)
            elif isinstance(st, ast.If):
                need |= self.names_read(st.test) - written
            elif isinstance(st, ast.Expr):
                need |= self.names_read(st.value) - written
        return [v for v in self.int_vars if v in need]

    def translate(self, name):
        self.loop_is_last = True
        body = [s for s in self.fn.body]
        if not body or not isinstance(body[-1], ast.While) or body[-1].orelse:
            raise Shape('%s: expected a single while loop as the last statement' % self.fn.name)
        loop = body[-1]
        if any(isinstance(n, ast.While) for s in body[:-1] + loop.body for n in ast.walk(s)):
            raise Shape('%s: nested or several loops' % self.fn.name)
        self.declare(body)
        state = self.params + self.carried(loop)
        # variables first assigned inside the loop start at 0
        pre_assigned = []
        for s in body[:-1]:
            for n in ast.walk(s):
                if isinstance(n, ast.Assign) and n.targets[0].id not in pre_assigned:
                    pre_assigned.append(n.targets[0].id)
        done = 'Some (yielded, s)'
        call = '%s_loop fuel s %s yielded' % (name, ' '.join(state))
        out = []
        out.append('Fixpoint %s_loop (fuel : nat) (s : stream) %s (yielded : list (list N)) {struct fuel}'
                   % (name, ' '.join('(%s : Z)' % v for v in state)))
        out.append('  : option (list (list N) * stream) :=')
        out.append('  match fuel with')
        out.append('  | O => None')
        out.append('  | S fuel =>')
        out.append('    if %s then' % self.cond(loop.test))
        out.append(self.block(loop.body, call, done, '      '))
        out.append('    else %s' % done)
        out.append('  end.')
        out.append('')
        out.append('Definition %s (fuel : nat) (s : stream) %s : option (list (list N) * stream) :='
                   % (name, ' '.join('(%s : Z)' % v for v in self.params)))
        init = ''.join('  let %s := 0%%Z in\n' % v for v in self.carried(loop) if v not in pre_assigned)
        out.append(init + '  let yielded := @nil (list N) in\n'
                   + self.block(body[:-1], call, None, '  ') + '.')
        return '\n'.join(out)


def translate_function(tree, fname, coq_name):
    for n in ast.walk(tree):
        if isinstance(n, ast.FunctionDef) and n.name == fname:
            return Tr(n).translate(coq_name)
    raise Shape('function %s not found' % fname)


def generate(parse):
    """parse(rel) -> (ast, source) as in gen_constants.py"""
    tree, src = parse('ombott/request_pkg/body_mixin.py')
    out = ['(* GENERATED by tools/gen_loops.py from the current working tree of the repository - do not edit *)',
           'From Coq Require Import List ZArith NArith.', 'Import ListNotations.',
           'From Verif Require Import model.Stream.', '',
           '(* body_mixin.py:_iter_body — statements translated one by one; see tools/gen_loops.py for the scheme *)']
    fn = [n for n in ast.walk(tree) if isinstance(n, ast.FunctionDef) and n.name == '_iter_body']
    if len(fn) != 1:
        raise Shape('_iter_body not found')
    seg = ast.get_source_segment(src, fn[0]) or ''
    out.append('(*\n' + seg.replace('(*', '( *').replace('*)', '* )') + '\n*)')
    out.append(translate_function(tree, '_iter_body', 'iter_body'))
    out.append('')
    return '\n'.join(out)
