# Reference shape of ombott/request_pkg/body_mixin.py:_iter_body (as of /repo 07ee6fc, the F4 repair).
# Used ONLY when the current source of the loop cannot be translated by tools/gen_loops.py: GenLoops.v is then
# generated from this text so that the development still compiles, the theorem about the translated loop is
# reported as "not applicable to this tree" (it is about this reference, not about the code), and the property
# rests on the hand-written model and the correspondence alone, as it does for every other loop.
def _iter_body(read, buff_size, *, content_length):
    rest_len = content_length
    while rest_len > 0:
        part_size = min(rest_len, buff_size)
        part = read(part_size)
        if not part:
            break
        yield part
        rest_len -= len(part)
