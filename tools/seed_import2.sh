#!/bin/sh
# usage: tools/seed_import2.sh Cxx  — import /tmp/mut2out_Cxx/{change,demo,note}{1,2} as numbers 3,4 into seeded/_staging/Cxx
P=$1
mkdir -p /verif/seeded/_staging/$P
for i in 1 2; do j=$((i+2)); for k in change:diff demo:py note:txt; do b=${k%%:*}; e=${k##*:}; cp /tmp/mut2out_$P/$b$i.$e /verif/seeded/_staging/$P/$b$j.$e; done; done
git -C /repo worktree remove --force /tmp/mut2_$P 2>/dev/null
ls /verif/seeded/_staging/$P | tr '\n' ' '; echo
