#!/bin/sh
# usage: tools/seed_import3.sh Cxx — import /tmp/mut3out_Cxx/{change,demo,note}{1,2} as numbers 5,6 into seeded/_staging/Cxx
P=$1
mkdir -p /verif/seeded/_staging/$P
for i in 1 2; do
  j=$((i+4))
  cp /tmp/mut3out_$P/change$i.diff /verif/seeded/_staging/$P/change$j.diff
  cp /tmp/mut3out_$P/demo$i.py /verif/seeded/_staging/$P/demo$j.py
  cp /tmp/mut3out_$P/note$i.txt /verif/seeded/_staging/$P/note$j.txt
done
git -C /repo worktree remove --force /tmp/mut3_$P 2>/dev/null
exit 0
