#!/bin/sh
# usage: tools/ref_try.sh <round> Cxx n — apply the behaviour-preserving refactoring refactorings/Cxx/changeN.diff
# (round 1; round 2: refactorings2/Cxx/changeN.diff; later rounds: /tmp/ref<round>out_Cxx/changeN.diff) in a scratch worktree, run the repo tests and every check
# whose anchored files the diff touches; all must stay OK.
R=$1; P=$2; N=$3
D=/verif/refactorings/$P/change$N.diff
[ "$R" = "2" ] && D=/verif/refactorings2/$P/change$N.diff
[ "$R" = "3" ] && D=/verif/refactorings3/$P/change$N.diff
[ -f "$D" ] || D=/tmp/ref${R}out_$P/change$N.diff
[ -f "$D" ] || { echo "== $P ref$N: no diff"; exit 0; }
WT=/tmp/refwt_$$
git -C /repo worktree add --detach $WT HEAD >/dev/null 2>&1 || exit 2
cd $WT
if ! git apply --check "$D" 2>/dev/null; then echo "== $P ref$N: does not apply"; cd /; git -C /repo worktree remove --force $WT; exit 0; fi
git apply "$D"
T=$(/venv/bin/python -m pytest -q -p no:cacheprovider 2>&1 | tail -1)
FILES=$(git diff --name-only | tr '\n' ' ')
CHECKS=$(/venv/bin/python - "$P" $FILES <<'PY'
import json,sys
p=sys.argv[1]; files=set(sys.argv[2:])
out=[p]
for l in open('/verif/properties.jsonl'):
    d=json.loads(l)
    if d['id']!=p and files & set(d['anchors']['files']): out.append(d['id'])
print(' '.join(out))
PY
)
cd /verif
RES=""
for c in $CHECKS; do
  cmd=$(/venv/bin/python -c "import json;print([x for x in json.load(open('/verif/MANIFEST.json'))['checks'] if x['property_id']=='$c'][0]['quick_cmd'])")
  o=$(VERIF_REPO=$WT sh -c "$cmd" 2>&1)
  v=$(echo "$o" | grep -c '^VIOLATION')
  if [ "$v" != "0" ]; then RES="$RES $c:ALARM($(echo "$o" | grep 'tier=' | tail -1 | sed 's/.*obligations=\([^ ]*\).*disagreements=\([^ ]*\) oracle_failures=\([^ ]*\).*/obl=\1,dis=\2,orc=\3/'))"; echo "$o" | grep -E "error:|VIOLATION" | head -5 > /tmp/ref_alarm_${P}_${N}_$c.txt; else RES="$RES $c:ok"; fi
done
echo "== $P ref$N [$FILES] tests: $T |$RES"
rm -rf /tmp/verif_alt_$(/venv/bin/python -c "import hashlib,os;print(hashlib.md5(os.path.realpath('$WT').encode()).hexdigest()[:10])")
git -C /repo worktree remove --force $WT
