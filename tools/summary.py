#!/venv/bin/python
"""summary.py — regenerate the AUTO:STATUS block of DESIGN.md from the tree:
theorems per property (coq/props), evidence numbers, fix commits / findings
(KNOWN_FINDINGS.jsonl) and the seeded changes with which check caught them."""
import glob
import json
import os
import re

ROOT = os.path.normpath(os.path.join(os.path.dirname(os.path.abspath(__file__)), '..'))


def strip_comments(text):
    out, depth, i = [], 0, 0
    while i < len(text):
        if text.startswith('(*', i):
            depth += 1
            i += 2
        elif text.startswith('*)', i) and depth:
            depth -= 1
            i += 2
        else:
            if not depth:
                out.append(text[i])
            i += 1
    return ''.join(out)


def main():
    props = [json.loads(l) for l in open(os.path.join(ROOT, 'properties.jsonl'))]
    man = json.load(open(os.path.join(ROOT, 'MANIFEST.json')))
    claimed = {c['property_id']: c for c in man['checks']}
    known = [json.loads(l) for l in open(os.path.join(ROOT, 'KNOWN_FINDINGS.jsonl')) if l.strip()]
    seeds = {}
    for mp in sorted(glob.glob(os.path.join(ROOT, 'seeded', '*', 'meta.json'))):
        m = json.load(open(mp))
        seeds.setdefault(m['property'], []).append(m)
    out = []
    out.append('| property | claimed | theorems (full / partial / refuted-or-record) | quick-tier cases (non-trivial) | fixes | findings | seeded changes caught |')
    out.append('|---|---|---|---|---|---|---|')
    details = []
    for p in props:
        pid = p['id']
        names = []
        for f in [os.path.join(ROOT, 'coq', 'props', pid + '.v')] + sorted(glob.glob(os.path.join(ROOT, 'coq', 'props', pid + '?.v'))):
            if os.path.exists(f):
                names += re.findall(r'^\s*Theorem\s+(\w+)', strip_comments(open(f).read()), re.M)
        part = [n for n in names if n.endswith('_partial')]
        ref = [n for n in names if 'refuted' in n or 'observation' in n]
        full = [n for n in names if n not in part and n not in ref]
        ev = None
        ep = os.path.join(ROOT, 'evidence', pid + '.json')
        if os.path.exists(ep):
            ev = json.load(open(ep))
        fx = [k for k in known if k['property'] == pid and k['kind'] == 'fixed']
        fd = [k for k in known if k['property'] == pid and k['kind'] == 'finding']
        sd = seeds.get(pid, [])
        caught = sum(1 for s in sd if s['verification']['caught_by_check'])
        out.append('| %s | %s | %d / %d / %d | %s | %s | %s | %s |' % (
            pid, 'yes' if pid in claimed else 'no', len(full), len(part), len(ref),
            ('%d (%d)' % (ev['coverage']['evaluations'], ev['coverage']['distinct_nontrivial'])) if ev else '-',
            ' '.join('%s@%s' % (k['id'], k['commit']) for k in fx) or '-',
            ' '.join(k['id'] for k in fd) or '-',
            ('%d/%d' % (caught, len(sd))) if sd else '-'))
        d = ['**%s — %s**' % (pid, p['title']), '']
        if full:
            d.append('* proved in full: ' + ', '.join('`%s`' % n for n in full))
        if part:
            d.append('* proved in part (full statement kept in the file): ' + ', '.join('`%s`' % n for n in part))
        if ref:
            d.append('* refutations / records of repaired defects / observations: ' + ', '.join('`%s`' % n for n in ref))
        for k in fx:
            d.append('* %s' % k['line'])
        for k in fd:
            d.append('* finding %s: %s' % (k['id'], k['what']))
        for s in sd:
            v = s['verification']
            d.append('* seeded %s (%s): %s' % (
                s['seed_id'], s['needs_to_manifest'],
                ('caught by `./check %s` with a concrete replay' % pid) if v['caught_by_check'] and not v.get('no_failing_input_found')
                else ('caught (broken obligation/correspondence, no failing input found)' if v['caught_by_check'] else 'NOT caught')))
        d.append('')
        details.append('\n'.join(d))
    block = '\n'.join(out) + '\n\n' + '\n'.join(details)
    dp = os.path.join(ROOT, 'DESIGN.md')
    text = open(dp).read()
    b, e = '<!-- AUTO:STATUS BEGIN -->', '<!-- AUTO:STATUS END -->'
    if b in text:
        text = text[:text.index(b) + len(b)] + '\n' + block + '\n' + text[text.index(e):]
        open(dp, 'w').write(text)
        print('DESIGN.md status block updated')
    else:
        print(block)


if __name__ == '__main__':
    main()
