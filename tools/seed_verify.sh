#!/bin/sh
# usage: tools/seed_verify.sh <prop> <diff> <demo>   — confirm a seeded change in a scratch worktree, then run our check on it
# prints: tests / demo-changed / demo-clean / check verdict
P=$1; D=$(realpath $2); M=$(realpath $3)
WT=/tmp/seedwt_$$
git -C /repo worktree add --detach $WT HEAD >/dev/null 2>&1 || exit 2
cd $WT
if ! git apply --check "$D" 2>/dev/null; then echo "APPLY: does not apply to /repo HEAD"; cd /; git -C /repo worktree remove --force $WT; exit 3; fi
PYTHONPATH=$WT /venv/bin/python "$M" >/tmp/seed_demo_clean.$$ 2>&1; echo "demo on clean tree: exit $?"
git apply "$D"
echo "tests: $(/venv/bin/python -m pytest -q -p no:cacheprovider 2>&1 | tail -1)"
PYTHONPATH=$WT /venv/bin/python "$M" >/tmp/seed_demo_changed.$$ 2>&1; echo "demo on changed tree: exit $? ($(tail -1 /tmp/seed_demo_changed.$$ | cut -c1-150))"
cd /verif
VERIF_REPO=$WT ./check $P --tier ${TIER:-quick} 2>/dev/null | grep -E "VIOLATION|KNOWN|tier=" | cut -c1-300
rm -rf /tmp/verif_alt_$(/venv/bin/python -c "import hashlib,os,sys;print(hashlib.md5(os.path.realpath('$WT').encode()).hexdigest()[:10])")
git -C /repo worktree remove --force $WT
rm -f /tmp/seed_demo_clean.$$ /tmp/seed_demo_changed.$$
