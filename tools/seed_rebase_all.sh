#!/bin/sh
# usage: tools/seed_rebase_all.sh — after a fix: commit in /repo, re-base every kept seeded patch that no longer applies
# (3-way merge in a scratch worktree); prints what was re-based and what needs a manual look
cd /verif
WT=/tmp/rebasewt_$$
git -C /repo worktree add --detach $WT HEAD >/dev/null 2>&1 || exit 2
for d in seeded/C*-*/; do
  id=$(basename $d)
  if ! git -C $WT apply --check /verif/$d/patch.diff 2>/dev/null; then
    if (cd $WT && git apply -3 /verif/$d/patch.diff >/dev/null 2>&1 && ! git diff --name-only --diff-filter=U | grep -q .); then
      (cd $WT && git diff HEAD > /verif/$d/patch.diff)
      echo "rebased $id"
    else
      echo "MANUAL $id"
    fi
    (cd $WT && git reset -q --hard HEAD && git clean -qfd)
  fi
done
git -C /repo worktree remove --force $WT
