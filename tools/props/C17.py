"""C17 — range and conditional requests describe exactly the bytes delivered."""
import atexit
import email.utils
import math
import os
import re
import shutil
import tempfile

from props.common import enc_str, enc_list, Reader
from props.C16 import Coverage, ANCHORED

ID = 'C17'
COQ_MODEL = 'model.Range'
COQ_CORR = 'corr_C17'
N_QUICK = 3000
N_THOROUGH = 20000
THOROUGH_EXHAUSTIVE = True
RULE = ('cases = corpus + random, three kinds: (range) get_first_range(header, maxlen) directly; (iter) '
        '_file_iter_range over a real file with offsets/lengths/streaming buffers 1..9 around the file size; (static) '
        'ombott.static_file on a real temporary file of length 0..40 (one case: streaming-buffer size + 5) with chosen '
        'mtime, GET/HEAD, Range headers from the RFC 7233 grammar (a-b, a-, -n, lists, leading zeros, values around the '
        'length) and near misses (-0, reversed, 1-2-3, xbytes=, items=, spaces, +1, 1_0, unicode spaces, superscript/circled digits that str.isdigit accepts and int() rejects, 4300/4301 '
        'digits, junk), If-Modified-Since dates before/equal/after the mtime in three formats, under several local time zones of the server process (TZ + tzset: UTC, whole-hour, half-hour and DST zones; the oracle knows the instant it generated and does not use parse_date) (mtimes include 0, 1, 2: the epoch date parses to 0; mtimes and dates after the server clock), with parameters, empty '
        'and garbage.  thorough adds every first range spec over numbers {"",0,1,L-1,L,L+1} x lengths 0..6 and every '
        '(length, offset, n, buffer) <= 7 for the iterator (exhaustive).  non-trivial = a Range header that reaches the '
        'numeric cases, an iterator run with >= 2 chunks, or a conditional request with a parsed date; distinct by case content')
TRUSTED = ['C17: common_helpers.parse_date (email.utils.parsedate_tz, time.mktime) is an oracle: a section variable in '
           'the theorems, its real result is fed to the model; the argument it is called with is part of the observation',
           'C17 modelled, not verified: Python int() on str (coq/lib/PyIntParse.v; non-ASCII decimal digits above U+00FF '
           'are not modelled and not generated - WSGI header values are latin-1), str.split/strip, f-string decimal '
           'formatting, regular-file read/seek semantics (read(n) returns min(n, remaining) bytes), os.stat',
           'C17 not covered: the file changing between stat and read; Last-Modified/Date values (email.utils.formatdate); '
           'Content-Type guessing; negative mtimes']
ASSUMPTIONS = ['the file is a regular file that does not change during the request',
               'streaming buffer (maxread) > 0', 'sys.int_info.default_max_str_digits = 4300 (CPython default)']
VM_CASES = 60
COV = Coverage('C17', ANCHORED)

_D = None
_N = [0]


def tmpdir():
    global _D
    if _D is None:
        _D = tempfile.mkdtemp(prefix='vC17_')
        atexit.register(shutil.rmtree, _D, True)
    return _D


_PAT = {}


def fbytes(case):
    f = case['file']
    if isinstance(f, dict):
        k = (f['len'], f['mul'])
        if k not in _PAT:
            _PAT[k] = bytes((i * f['mul'] + 3) % 256 for i in range(f['len']))
        return _PAT[k]
    return bytes(f)


def default_maxread():
    import ombott.static_stream as ss
    d = ss._file_iter_range.__defaults__
    if not d or len(d) != 1 or not isinstance(d[0], int):
        raise RuntimeError('_file_iter_range: expected exactly one integer default (maxread)')
    return d[0]


def cps(s):
    return [ord(c) for c in s]


class _tz:
    """run with the process's local time zone set to case['tz'] (None: unchanged); restored afterwards"""

    def __init__(self, case):
        self.tz = case.get('tz')

    def __enter__(self):
        if self.tz is not None:
            import time
            self.old = os.environ.get('TZ')
            os.environ['TZ'] = self.tz
            time.tzset()

    def __exit__(self, *a):
        if self.tz is not None:
            import time
            if self.old is None:
                os.environ.pop('TZ', None)
            else:
                os.environ['TZ'] = self.old
            time.tzset()


TZS = ['UTC0', 'MSK-3', 'EST5', 'IST-5:30', 'NPT-5:45', 'EST5EDT,M3.2.0,M11.1.0', 'CET-1CEST,M3.5.0,M10.5.0/3', 'AEST-10AEDT,M10.1.0,M4.1.0/3']


def mtime_seen(case):
    """int(os.stat().st_mtime): st_mtime is the double sec + 1e-9 * nsec, so .999999999 rounds up to the next second
    (Last-Modified is formatted from the same double, so header and comparison stay consistent)"""
    return int(case['mtime'] + 1e-9 * case['frac'])


def st(file, mtime=1700000000, frac=0, method='GET', rng=None, ims=None, delta=None, tz=None, via='direct', prev=None, kw=None, setup=None, interleave=False, replace=None):
    """ims: literal header or None; delta: if not None the header is a well-formed date mtime+delta (format in ims)"""
    return dict(kind='static', file=file, mtime=mtime, frac=frac, method=method, range=rng, ims=ims, delta=delta, tz=tz,
                via=via, prev=prev, kw=kw or {}, setup=setup, interleave=interleave, replace=replace)


def pr(fname, mimetype='auto', charset='UTF-8', download=False):
    return dict(kind='present', fname=fname, mimetype=mimetype, charset=charset, download=download)


def ims_header(case):
    if case.get('delta') is None:
        return case['ims']
    t = case['mtime'] + case['delta']
    fmt = case['ims'] or 'rfc1123'
    base = email.utils.formatdate(t, usegmt=True)
    if fmt.startswith('rfc850') and 0 <= t < 3000000000:   # two-digit years: only unambiguous inside 1970..2065
        import time
        base = time.strftime('%A, %d-%b-%y %H:%M:%S GMT', time.gmtime(t))
    elif fmt.startswith('asctime'):
        import time
        base = time.strftime('%a %b %d %H:%M:%S %Y', time.gmtime(t))
    if fmt.endswith('+param'):
        base += '; length=12'
    if fmt.endswith('+space'):
        base = '  ' + base + ' \t'
    return base


def corpus():
    d10 = list(range(48, 58))
    out = [
        st(d10), st(d10, method='HEAD'), st([]), st([], method='HEAD'),
        st(d10, rng='bytes=0-3'), st(d10, rng='bytes=2-'), st(d10, rng='bytes=-3'), st(d10, rng='bytes=-100'),
        st(d10, rng='bytes=9-100'), st(d10, rng='bytes=9-9'), st(d10, rng='bytes=10-'), st(d10, rng='bytes=10-12'),
        st(d10, rng='bytes=-0'), st(d10, rng='bytes=5-2'), st(d10, rng='bytes=0-0,5-6'), st(d10, rng='bytes=50-60,0-1'),
        st(d10, rng='bytes=1_0-2'), st(d10, rng='bytes=0-1_0'), st(d10, rng='bytes= 1 - 5 '), st(d10, rng='bytes=-+5'),
        st(d10, rng='xbytes=1-2'), st(d10, rng='items=1-2'), st(d10, rng='Bytes=1-2'), st(d10, rng='bytes=1-2-3'),
        st(d10, rng='bytes='), st(d10, rng='bytes=-'), st(d10, rng='bytes=a-b'), st(d10, rng=''), st(d10, rng='0-1'),
        st(d10, rng='bytes=\xa01-2\x85'), st(d10, rng='bytes=\x1c1-2'), st(d10, rng='bytes=bytes=1-2'),
        st(d10, rng='bytes=' + '0' * 4299 + '1-5'), st(d10, rng='bytes=' + '0' * 4300 + '1-5'),
        st(d10, rng='bytes=0-' + '9' * 4300), st(d10, rng='bytes=0-' + '9' * 4301),
        st([], rng='bytes=0-'), st([], rng='bytes=-5'), st([], rng='bytes=0-0'), st([7], rng='bytes=0-0'), st([7], rng='bytes=-1'),
        st(d10, method='HEAD', rng='bytes=0-3'), st(d10, method='HEAD', rng='bytes=10-'),
        st(d10, ims='rfc1123', delta=0), st(d10, ims='rfc1123', delta=-1), st(d10, ims='rfc1123', delta=1),
        st(d10, frac=500000000, ims='rfc1123', delta=0), st(d10, frac=999999999, ims='rfc1123', delta=-1),
        st(d10, ims='rfc850', delta=0), st(d10, ims='asctime', delta=0), st(d10, ims='rfc1123+param', delta=3600),
        st(d10, ims='rfc1123+space', delta=0), st(d10, ims='rfc1123', delta=0, rng='bytes=0-3'),
        st(d10, ims='rfc1123', delta=-5, rng='bytes=0-3'), st(d10, ims='rfc1123', delta=0, method='HEAD'),
        # the epoch: parse_date gives 0.0, which is falsy but is a date (seeded change C17/3)
        st(d10, mtime=0, ims='rfc1123', delta=0), st(d10, mtime=0, ims='asctime', delta=0), st(d10, mtime=0, ims='rfc850', delta=0),
        st(d10, mtime=0, ims='rfc1123', delta=1), st(d10, mtime=1, ims='rfc1123', delta=-1), st(d10, mtime=1, ims='rfc1123', delta=0),
        st(d10, mtime=0, ims='rfc1123', delta=0, rng='bytes=0-3'), st(d10, mtime=0, ims='rfc1123', delta=0, method='HEAD'),
        st(d10, mtime=0, frac=500000000, ims='rfc1123', delta=0), st(d10, mtime=2, ims='rfc1123', delta=-2),
        # the server's local zone must not matter: asctime dates carry no zone and are UTC (seeded change C17/5)
        st(d10, mtime=1600000000, ims='asctime', delta=0, tz='MSK-3'), st(d10, mtime=1600000000, ims='asctime', delta=-3600, tz='EST5'),
        st(d10, mtime=1600000000, ims='asctime', delta=-1, tz='MSK-3'), st(d10, mtime=1600000000, ims='asctime', delta=0, tz='IST-5:30'),
        st(d10, mtime=1600000000, ims='rfc1123', delta=0, tz='MSK-3'), st(d10, mtime=1600000000, ims='rfc850', delta=0, tz='EST5'),
        st(d10, mtime=1600000000, ims='asctime', delta=0, tz='EST5EDT,M3.2.0,M11.1.0'),
        st(d10, mtime=1593600000, ims='asctime', delta=0, tz='CET-1CEST,M3.5.0,M10.5.0/3'),
        st(d10, mtime=1600000000, ims='asctime', delta=0, tz='UTC0'),
        # characters str.isdigit() accepts and int() rejects (seeded change C17/6): still 416, never an exception
        st(d10, rng='bytes=0-\xb2'), st(d10, rng='bytes=\xb9-'), st(d10, rng='bytes=-\xb3'), st(d10, rng='bytes=\xb2-\xb3'),
        st(d10, rng='bytes=1\xb2-5'), st(d10, rng='bytes=0-\xbd'),
        dict(kind='range', header='bytes=0-\xb2', maxlen=10), dict(kind='range', header='bytes=\u2070-\u2079', maxlen=10),
        dict(kind='range', header='bytes=\u2460-', maxlen=10), dict(kind='range', header='bytes=-\u2488', maxlen=10),
        # the request of the application whose handler calls static_file decides, not the default application's
        # (finding/fix C17-static-file-default-app): second application, with and without an earlier unrelated request
        st(d10, via='app'), st(d10, via='app', rng='bytes=2-4'), st(d10, via='app', method='HEAD', rng='bytes=2-4'),
        st(d10, via='app2'), st(d10, via='app2', rng='bytes=2-4'), st(d10, via='app2', method='HEAD'),
        st(d10, via='app2', ims='rfc1123', delta=0), st(d10, via='app2', rng='bytes=50-'),
        st(d10, via='app2', prev=dict(range='bytes=2-4')), st(d10, via='app2', prev=dict(method='HEAD')),
        st(d10, via='app2', prev=dict(ims='Thu, 01 Jan 2099 00:00:00 GMT')),
        st(d10, via='app2', rng='bytes=0-1', prev=dict(range='bytes=5-6')),
        st(d10, via='app', prev=dict(range='bytes=2-4')), st(d10, via='direct', prev=dict(range='bytes=2-4')),
        # the file is replaced (new file renamed over it) after static_file() answered, before the body is consumed: headers
        # and bytes must still agree - the response streams the file it opened (seeded change C17/18)
        st(d10, rng='bytes=2-7', replace='longer'), st(d10, rng='bytes=2-7', replace='shorter'), st(d10, rng='bytes=2-7', replace='empty'),
        st(d10, rng='bytes=-4', replace='same'), st(d10, replace='shorter'), st(d10, replace='longer'),
        st(d10, via='app', rng='bytes=2-7', replace='same'), st(d10, via='app', replace='empty', interleave=True),
        st(d10, method='HEAD', rng='bytes=2-7', replace='empty'),
        # the body of a response is still streamed while the same thread handles its next request (seeded change C17/15)
        st(d10, via='app', interleave=True), st(d10, via='app', rng='bytes=2-7', interleave=True),
        st(d10, via='app2', rng='bytes=2-7', interleave=True), st(d10, via='app', method='HEAD', interleave=True),
        st(dict(len=default_maxread() + 7, mul=11), via='app', rng='bytes=5-', interleave=True),
        # byte-range-sets with many specs: the first one decides, however many follow (seeded change C17/16)
        st(d10, rng='bytes=2-4,' + ','.join('%d-%d' % (i % 9, i % 9) for i in range(1))),
        st(d10, rng='bytes=2-4,' + ','.join('%d-%d' % (i % 9, i % 9) for i in range(7))),
        st(d10, rng='bytes=2-4,' + ','.join('%d-%d' % (i % 9, i % 9) for i in range(8))),
        st(d10, rng='bytes=2-4,' + ','.join('%d-%d' % (i % 9, i % 9) for i in range(19))),
        st(d10, rng='bytes=-3,' + ','.join('0-0' for i in range(99)), via='app'),
        st(d10, rng='bytes=50-,' + ','.join('0-0' for i in range(9))), st(d10, rng='bytes=1-1' + ',' * 12, via='app'),
        dict(kind='range', header='bytes=1-2,' + ','.join('0-0' for i in range(30)), maxlen=10),
        # configuring the DEFAULT application after import must not detach static_file from its requests (seeded change C17/14)
        st(d10, via='app', setup={}, rng='bytes=2-4'), st(d10, via='app', setup=dict(max_memfile_size=2048), method='HEAD'),
        st(d10, via='app', setup=dict(debug=True), ims='rfc1123', delta=0), st(d10, via='app', setup={}),
        st(d10, via='app', rng='bytes=-3'), st(d10, via='direct', setup={}, rng='bytes=2-4'),
        st(d10, via='fresh', rng='bytes=2-4'), st(d10, via='fresh', setup=dict(debug=True), prev=dict(range='bytes=0-0')),
        # presentation arguments do not change status, length, range or body
        st(d10, rng='bytes=2-4', kw=dict(mimetype='text/plain', charset='latin1', download=True)),
        st(d10, kw=dict(mimetype=None, download='x.bin')), st(d10, via='app2', kw=dict(download=True, mimetype='text/html')),
        st(d10, ims='rfc1123', delta=0, kw=dict(download=True)),
        pr('p.txt'), pr('p.txt', download=True), pr('p.txt', download='../up/name.bin'), pr('p.txt', download=''),
        pr('p.txt', download='a"b;c.txt'), pr('p.txt', download='a\r\nX: y'), pr('a"b.txt', download=True),
        pr('n\nl.txt', download=True), pr('n\nl.txt'), pr('p.tar.gz'), pr('p.tar.gz', download=True), pr('p.svgz'),
        pr('noext'), pr('p.bin'), pr('p.html', charset='latin1'), pr('p.html', charset=''), pr('p.html', charset=None),
        pr('p.bin', mimetype='text/x'), pr('p.bin', mimetype='text/x; charset=foo'), pr('p.bin', mimetype='text/charset'),
        pr('p.bin', mimetype='TEXT/x'), pr('p.bin', mimetype='application/json'), pr('p.bin', mimetype=None),
        pr('p.bin', mimetype=''), pr('p.txt', mimetype='text/a\nb'), pr('p.txt', charset='u\r8'), pr('p.css', charset='x y'),
        # the server clock is not part of the comparison (seeded change C17/12): dates after "now", files dated in the future
        st(d10, ims='rfc1123', delta=10 * 365 * 86400), st(d10, ims='asctime', delta=40 * 365 * 86400),
        st(d10, mtime=2000000000, ims='rfc1123', delta=0), st(d10, mtime=2000000000, ims='rfc1123', delta=1),
        st(d10, mtime=2000000000, ims='rfc1123', delta=-1), st(d10, mtime=4000000000, ims='rfc1123', delta=0),
        st(d10, mtime=2000000000, ims='rfc850', delta=86400, method='HEAD'), st(d10, mtime=2000000000, ims='asctime', delta=0, rng='bytes=0-3'),
        st(d10, mtime=2000000000, ims='rfc1123', delta=0, via='app'), st(d10, mtime=1700000000, ims='rfc1123', delta=-1, tz='MSK-3'),
        # an unparsable date is no date, whatever the file's mtime (seeded change C17/19): epoch and pre-1970 files
        st(d10, mtime=0, ims='garbage'), st(d10, mtime=0, ims='0'), st(d10, mtime=0, ims=';'), st(d10, mtime=0, ims='Thu, 32 Jan 2099 00:00:00 GMT'),
        st(d10, mtime=-5, ims='garbage'), st(d10, mtime=-86400 * 400, ims='0'), st(d10, mtime=-1, ims='01 Jan', rng='bytes=0-3'),
        st(d10, mtime=0, ims='garbage', via='app'), st(d10, mtime=-5, ims='rfc1123', delta=0), st(d10, mtime=-5, ims='rfc1123', delta=-1),
        st(d10, mtime=-5), st(d10, mtime=-5, rng='bytes=1-2'),
        st(d10, ims=''),                               # F20: an empty If-Modified-Since header crashed (TypeError)
        st(d10, ims='', rng='bytes=0-3'), st(d10, ims='garbage'), st(d10, ims=' ; x'), st(d10, ims=';'), st(d10, ims=' '),
        st(d10, ims='Thu, 01 Jan 2099 00:00:00 GMT'), st(d10, ims='Thu, 32 Jan 2099 00:00:00 GMT'),
        st(d10, ims='0'), st(d10, ims='Thu, 01 Jan 1960 00:00:00 GMT'),
        dict(kind='iter', file=d10, offset=0, n=10, maxread=3), dict(kind='iter', file=d10, offset=2, n=6, maxread=3),
        dict(kind='iter', file=d10, offset=2, n=7, maxread=3), dict(kind='iter', file=d10, offset=0, n=10, maxread=10),
        dict(kind='iter', file=d10, offset=0, n=10, maxread=11), dict(kind='iter', file=d10, offset=0, n=10, maxread=1),
        dict(kind='iter', file=d10, offset=5, n=20, maxread=4), dict(kind='iter', file=d10, offset=10, n=1, maxread=4),
        dict(kind='iter', file=d10, offset=12, n=1, maxread=4), dict(kind='iter', file=d10, offset=0, n=0, maxread=4),
        dict(kind='iter', file=d10, offset=0, n=-1, maxread=4), dict(kind='iter', file=d10, offset=0, n=-3, maxread=4),
        dict(kind='iter', file=d10, offset=-1, n=3, maxread=4), dict(kind='iter', file=d10, offset=0, n=5, maxread=0),
        dict(kind='iter', file=d10, offset=0, n=5, maxread=-1), dict(kind='iter', file=d10, offset=0, n=5, maxread=-2),
        dict(kind='iter', file=[], offset=0, n=5, maxread=2),
        dict(kind='range', header='bytes=-10', maxlen=100), dict(kind='range', header='bytes=10-', maxlen=100),
        dict(kind='range', header='bytes=5-10', maxlen=100), dict(kind='range', header='bytes=5-10', maxlen=0),
        dict(kind='range', header='bytes=5-10', maxlen=-3), dict(kind='range', header='bytes=-5', maxlen=-3),
        dict(kind='range', header='bytes=\u20031-2\u3000', maxlen=9), dict(kind='range', header='bytes=\u200b1-2', maxlen=9),
        dict(kind='range', header='bytes=1\x00-2', maxlen=9), dict(kind='range', header='bytes=1-2\x7f', maxlen=9),
        dict(kind='range', header='bytes=1__0-20', maxlen=99), dict(kind='range', header='bytes=_1-20', maxlen=99),
        dict(kind='range', header='bytes=1_-20', maxlen=99), dict(kind='range', header='bytes=1_1-2_0', maxlen=99),
    ]
    return out


def rnd_num(rng, L):
    r = rng.random()
    if r < 0.6:
        v = rng.choice([0, 1, 2, L - 2, L - 1, L, L + 1, L // 2, 2 * L + 3, rng.randrange(0, L + 3)])
        v = max(v, 0)
    elif r < 0.7:
        v = rng.choice([10 ** 6, 2 ** 31, 2 ** 63, 2 ** 64 + 1, 10 ** 30])
    else:
        v = rng.randrange(0, max(L, 1) + 2)
    s = str(v)
    if rng.random() < 0.1:
        s = '0' * rng.randrange(1, 4) + s
    return s


def rnd_spec(rng, L):
    r = rng.random()
    if r < 0.45:
        return rnd_num(rng, L) + '-' + rnd_num(rng, L)
    if r < 0.7:
        return rnd_num(rng, L) + '-'
    return '-' + rnd_num(rng, L)


NEAR = ['-0', '5-2', '1-2-3', '-', '', 'a-b', '+1-+3', '-+2', '1_0-2_0', '0-1_', '_0-1', ' 1 - 3 ', '1 -', '- 2', '\t0-\n',
        '0x1-2', '1e1-', '1.0-2', '--2', '2--', '0-1;', '0 1', '\xa00-1', '\x850-', '\x1c0-1', '0-1\x00', ' 0-1', '0-1?',
        '-' + '0' * 40 + '3', '1-+', '+-1', '-+', '0-+0', '+0-0', '00-00',
        '0-\xb2', '\xb9-', '-\xb3', '\xb2-\xb3', '1\xb9-5', '0-1\xb2', '\xbc-', '0-\u2074', '\u2460-\u2461', '-\u2082', '0-\u00b2\u00b3']
NEAR_LONG = ['0' * 4300 + '-', '0' * 4301 + '-', '0-' + '1' * 4301, '-' + '1_' * 4299 + '1', '-' + '1_' * 4300 + '1']   # int() digit limit; slow in the model
UNITS = ['bytes=', 'bytes=', 'bytes=', 'bytes=', 'bytes=', 'bytes=', 'xbytes=', 'Bytes=', 'BYTES=', 'items=', 'bytes =', 'bytes',
         'bytes:', ' bytes=', 'bytes= ', 'bytes==', 'bytes=bytes=', '', '=', 'none', 'a=b,bytes=']


def many_ranges(rng, L, n):
    """a byte-range-set with n specs (n - 1 commas); the first spec decides"""
    return 'bytes=' + ','.join(rnd_spec(rng, L) for _ in range(n))


def rnd_range(rng, L):
    if rng.random() < 0.08:
        return many_ranges(rng, L, rng.choice([2, 3, 8, 9, 10, 20, 100]))
    r = rng.random()
    if r < 0.55:
        h = 'bytes=' + rnd_spec(rng, L)
        for _ in range(rng.choice([0, 0, 0, 1, 2])):
            h += rng.choice([',', ', ', ',,']) + rng.choice([rnd_spec(rng, L), rng.choice(NEAR)])
        return h
    if r < 0.8:
        if rng.random() < 0.01:
            return 'bytes=' + rng.choice(NEAR_LONG)
        return 'bytes=' + rng.choice(NEAR) + rng.choice(['', '', ',0-1', ','])
    if r < 0.92:
        return rng.choice(UNITS) + rng.choice([rnd_spec(rng, L), rng.choice(NEAR)])
    return ''.join(rng.choice('bytes=-,0123456789 _+x') for _ in range(rng.randrange(0, 14)))


def gen(rng, n):
    for i in range(n):
        if i == 50:
            # one file larger than static_file's real streaming buffer: two chunks
            yield st(dict(len=default_maxread() + 5, mul=7), rng='bytes=3-')
            continue
        if rng.random() < 0.1:
            yield pr(rng.choice(['p.txt', 'p.html', 'p.css', 'p.json', 'p.tar.gz', 'p.svgz', 'p.txt.bz2', 'noext', 'p.bin', 'P.TXT',
                                 'a"b.txt', 'n\nl.txt', 'p.unknownext', '.hidden', 'x.py']),
                     rng.choice(['auto', 'auto', 'auto', None, '', 'text/plain', 'text/x; charset=foo', 'text/charset', 'Text/plain',
                                 'application/octet-stream', 'application/x; q=text/', 'text/a\rb', 'image/png']),
                     rng.choice(['UTF-8', 'UTF-8', 'latin1', '', None, 'x\ny', 'utf-8; x=1']),
                     rng.choice([False, False, True, True, '', 'name.bin', 'dir/sub/name.txt', '/abs/n', 'tr/', 'q"uote', 'a\nb', 'ü.txt']))
            continue
        r = rng.random()
        L = rng.choice([0, 1, 2, 3, 5, 8, 10, 16, 40]) if rng.random() < 0.6 else rng.randrange(0, 41)
        file = [rng.randrange(256) for _ in range(L)]
        if r < 0.25:
            ml = L if rng.random() < 0.9 else rng.choice([-1, -5, 0, 10 ** 12])
            yield dict(kind='range', header=rnd_range(rng, max(ml, 0)), maxlen=ml)
        elif r < 0.5:
            q = rng.random()
            off = rng.randrange(0, L + 2) if q < 0.9 else rng.choice([-1, L + 5])
            nn = rng.randrange(0, L + 3) if q < 0.9 else rng.choice([-1, -2, 0, 100])
            mr = rng.randrange(1, 10) if rng.random() < 0.93 else rng.choice([0, -1, -2, 100])
            yield dict(kind='iter', file=file, offset=off, n=nn, maxread=mr)
        else:
            q = rng.random()
            rg = rnd_range(rng, L) if q < 0.7 else None
            method = 'HEAD' if rng.random() < 0.2 else 'GET'
            ims, delta = None, None
            q2 = rng.random()
            if q2 < 0.2:
                ims = rng.choice(['rfc1123', 'rfc1123', 'rfc850', 'asctime', 'asctime', 'rfc1123+param', 'rfc1123+space', 'asctime+param'])
                delta = rng.choice([0, 0, 1, -1, 60, -60, 86400, -86400, 3600 * 24 * 400, -3600 * 24 * 400])
            elif q2 < 0.3:
                ims = rng.choice(['', ' ', ';', 'garbage', 'Thu, 01 Jan 2099 00:00:00 GMT', 'Thu, 01 Jan 1980 00:00:00 GMT',
                                  'Thu, 01 Jan 2099 00:00:00 +0100', '01 Jan 2099', 'Thu, 01 Jan 2099 25:00:00 GMT', '1700000000',
                                  'Thu, 01 Jan 2099 00:00:00 GMT; x', '; Thu, 01 Jan 2099 00:00:00 GMT', '\xa0Thu, 01 Jan 2099 00:00:00 GMT\x85'])
            if ims is None and rng.random() < 0.12:
                ims = rng.choice(JUNK_IMS)
            mtime = rng.choice([1700000000, 0, 0, 1, 2, 60, -1, -5, -86400 * 365, 86400 * 365, 1700000000 + rng.randrange(10 ** 6),
                                2000000000, 2000000000 + rng.randrange(10 ** 6), 4000000000])   # the last three: after the server clock
            if delta is not None and rng.random() < 0.25:
                delta = rng.choice([10 * 365 * 86400, 40 * 365 * 86400, 365 * 86400])            # far later than the file
            if delta is not None and mtime < 100:
                delta = rng.choice([0, 0, 1, -1, -mtime, 60, 86400])   # dates at and around the epoch
            frac = rng.choice([0, 0, 1, 500000000, 999999999]) if mtime >= 0 else 0
            tz = rng.choice(TZS) if (ims is not None and rng.random() < 0.5) else None
            via = rng.choice(['direct', 'direct', 'direct', 'app', 'app', 'app2', 'app2', 'fresh'])
            setup = rng.choice([None, None, {}, dict(max_memfile_size=4096), dict(debug=False)]) if via != 'app2' else None
            prev = None
            if rng.random() < 0.4:
                prev = rng.choice([dict(range='bytes=1-2'), dict(range='bytes=0-'), dict(method='HEAD'), dict(range='junk'),
                                   dict(ims='Thu, 01 Jan 2099 00:00:00 GMT'), dict(ims='', range='bytes=-1'), dict()])
            kw = {}
            if rng.random() < 0.3:
                kw = rng.choice([dict(download=True), dict(mimetype=None), dict(mimetype='text/plain', charset='latin1'),
                                 dict(download='x.bin', mimetype='application/x'), dict(charset='')])
            yield st(file, mtime, frac, method, rg, ims, delta, tz, via, prev, kw, setup, via != 'direct' and rng.random() < 0.4,
                     rng.choice(['shorter', 'longer', 'same', 'empty']) if rng.random() < 0.2 else None)


def thorough():
    for L in range(0, 7):
        nums = sorted({'', '0', '1', str(max(L - 1, 0)), str(L), str(L + 1)})
        file = list(range(65, 65 + L))
        for a in nums:
            for b in nums:
                for tail in ('', ',0-0'):
                    yield dict(kind='range', header='bytes=%s-%s%s' % (a, b, tail), maxlen=L)
                    yield st(file, rng='bytes=%s-%s%s' % (a, b, tail))
        for off in range(0, L + 2):
            for nn in range(0, L + 2):
                for mr in range(1, 8):
                    yield dict(kind='iter', file=file, offset=off, n=nn, maxread=mr)


ENTITY = ('allow', 'content-encoding', 'content-language', 'content-length', 'content-range', 'content-type',
          'content-md5', 'last-modified')



_APPS = {}
_CUR = {}


def apps():
    """the module-level default application and a second, independent one; both route /__sf to static_file"""
    if not _APPS:
        import ombott
        from ombott.ombott import Globals

        def handler():
            return ombott.static_file(_CUR['name'], _CUR['root'], **_CUR['kw'])
        app2 = ombott.Ombott()
        Globals.app.route('/__sf')(handler)
        app2.route('/__sf')(handler)
        _APPS.update(app=Globals.app, app2=app2, handler=handler)
    return _APPS


def app_for(case):
    """the application object that serves the case: 'app' = the module-level default application, 'app2' = one second
    application kept for the whole process, 'fresh' = a new Ombott() per case; setup= calls app.setup(config) first
    (the documented way to configure an application after import)"""
    via = case['via']
    a = apps()
    if via == 'fresh':
        import ombott
        app = ombott.Ombott(case.get('setup') or None)
        app.route('/__sf')(a['handler'])
        return app
    app = a[via]
    if case.get('setup') is not None:
        app.setup(dict(case['setup']))
    return app


def request_environ(method, rng, ims):
    import wsgiref.util
    env = {}
    wsgiref.util.setup_testing_defaults(env)
    env['REQUEST_METHOD'] = method
    env['PATH_INFO'] = '/__sf'
    if rng is not None:
        env['HTTP_RANGE'] = rng
    if ims is not None:
        env['HTTP_IF_MODIFIED_SINCE'] = ims
    return env


def wsgi_call(app, env, between=None):
    """between: called after the application returned its body iterable and BEFORE that iterable is consumed (a server
    thread that starts its next request while the previous response is still being streamed)"""
    out = {}

    def start_response(status, headers, exc_info=None):
        out['status'], out['headers'] = status, headers
    it = app(env, start_response)
    if between is not None:
        between()
    try:
        body = b''.join(it)
    finally:
        close = getattr(it, 'close', None)
        if close:
            close()
    return int(out['status'][:3]), out['headers'], body


def replace_file(path, case):
    """atomically replace the file (write a new one, rename over it) after static_file() answered and before the body
    is consumed: the response must still deliver the bytes its headers describe (the inode that was opened)"""
    how = case.get('replace')
    if not how:
        return
    n = len(fbytes(case))
    m = {'shorter': n // 2, 'longer': n + 7, 'same': n, 'empty': 0}[how]
    tmp = path + '.new'
    with open(tmp, 'wb') as f:
        f.write(bytes((i * 5 + 1) % 251 for i in range(m)))
    os.replace(tmp, path)


def kw_of(case):
    """keyword arguments for static_file from the JSON form of the case"""
    kw = dict(case.get('kw') or {})
    return kw


def run_impl(case):
    import ombott
    import ombott.static_stream as ss
    if case['kind'] == 'range':
        with COV:
            r = ss.get_first_range(case['header'], case['maxlen'])
        return dict(result=None if r is None else [r[0], r[1]])
    if case['kind'] == 'present':
        from props.C16 import set_request
        d = os.path.join(tmpdir(), 'pres')
        os.makedirs(d, exist_ok=True)
        path = os.path.join(d, case['fname'])
        with open(path, 'wb') as f:
            f.write(b'presentation')
        set_request('GET', None, None)
        try:
            try:
                with COV:
                    resp = ombott.static_file(case['fname'], d, mimetype=case['mimetype'], charset=case['charset'],
                                              download=case['download'])
            except ValueError:
                return dict(raised=True)
            h = resp.headers
            if hasattr(resp.body, 'close'):
                resp.body.close()
            if resp.status_code != 200:
                return dict(status=resp.status_code)

            def hv(k):
                return None if h.get(k) is None else cps(h.get(k))
            return dict(raised=False, cenc=hv('Content-Encoding'), ctype=hv('Content-Type'), cdisp=hv('Content-Disposition'))
        finally:
            os.unlink(path)
    data = fbytes(case)
    _N[0] += 1
    path = os.path.join(tmpdir(), 'f%d.bin' % _N[0])
    with open(path, 'wb') as f:
        f.write(data)
    try:
        if case['kind'] == 'iter':
            chunks, raised = [], None
            with open(path, 'rb') as fp:
                g = ss._file_iter_range(fp, case['offset'], case['n'], maxread=case['maxread'])
                try:
                    with COV:
                        for c in g:
                            chunks.append(list(c))
                except (ValueError, OSError) as e:
                    raised = type(e).__name__
            return dict(chunks=chunks, raised=bool(raised))
        from props.C16 import set_request
        ns = case['mtime'] * 10 ** 9 + case['frac']
        os.utime(path, ns=(ns, ns))
        if int(os.stat(path).st_mtime) != mtime_seen(case):
            return dict(error='harness: st_mtime %r differs from the predicted %d' % (os.stat(path).st_mtime, mtime_seen(case)))
        via = case.get('via', 'direct')
        prev = case.get('prev')
        if prev:
            # an earlier, unrelated request handled by the default application on this thread
            set_request(prev.get('method', 'GET'), prev.get('range'), prev.get('ims'))
        else:
            # no earlier request: the default application's request object is a plain GET, so that every case is
            # reproducible on its own whatever ran before it in the process
            set_request('GET', None, None)
        if via == 'direct':
            if case.get('setup') is not None:
                apps()['app'].setup(dict(case['setup']))
            set_request(case['method'], case['range'], ims_header(case))
        pd_args = []
        opened = []
        real_pd = ss.parse_date
        import builtins

        def rec_pd(x):
            pd_args.append(x)
            return real_pd(x)

        def rec_open(p, *a, **kw):
            opened.append(p)
            return builtins.open(p, *a, **kw)
        had_open = 'open' in ss.__dict__
        saved_open = ss.__dict__.get('open')
        ss.parse_date = rec_pd
        ss.open = rec_open
        resp = wire = None
        try:
            with _tz(case), COV:
                if via == 'direct':
                    resp = ombott.static_file(os.path.basename(path), tmpdir(), **kw_of(case))
                    replace_file(path, case)
                else:
                    _CUR.update(name=os.path.basename(path), root=tmpdir(), kw=kw_of(case))
                    the_app = app_for(case)
                    between = None
                    if case.get('replace') and not case.get('interleave'):
                        def between():
                            replace_file(path, case)
                    if case.get('interleave'):
                        def between():
                            replace_file(path, case)
                            # the same thread handles another request (same route, plain GET and a Range) completely
                            n_o, n_p = len(opened), len(pd_args)
                            wsgi_call(the_app, request_environ('GET', None, None))
                            wsgi_call(the_app, request_environ('GET', 'bytes=0-0', None))
                            del opened[n_o:], pd_args[n_p:]          # what the other request did is not observed here
                    wire = wsgi_call(the_app, request_environ(case['method'], case['range'], ims_header(case)), between)
        finally:
            ss.parse_date = real_pd
            if had_open:
                ss.open = saved_open
            else:
                del ss.open
        common = dict(opened=len(opened), ims_arg=(cps(pd_args[0]) if pd_args else None), pd_calls=len(pd_args))
        if wire is not None:
            status, hl, bodyb = wire
            hd = {}
            for k, v in hl:
                hd.setdefault(k.lower(), v)
            return dict(status=status, clen=hd.get('content-length') if status in (200, 206) else None,
                        crange=hd.get('content-range'), accept=hd.get('accept-ranges'),
                        lastmod='last-modified' in hd, date='date' in hd,
                        body=dict(kind='wire', data=_compact(bodyb) if status in (200, 206, 304) else None),
                        wire_entity=[k for k in sorted(hd) if k in ENTITY] if status == 304 else None, **common)
        body = resp.body
        status = resp.status_code
        if isinstance(body, (str, bytes)):
            b = dict(kind='text', nonempty=bool(body) and status in (200, 206, 304))
        elif hasattr(body, 'read'):
            b = dict(kind='file', data=_compact(body.read()))
            body.close()
        else:
            chunks, raised = [], False
            try:
                with COV:
                    for c in body:
                        chunks.append(c)
            except (ValueError, OSError):
                raised = True
            b = dict(kind='iter', sizes=[len(c) for c in chunks], data=_compact(b''.join(chunks)), raised=raised)
        h = resp.headers
        wire_names = sorted(k.lower() for k, _ in resp.headerlist)
        return dict(status=status, clen=h.get('Content-Length'), crange=h.get('Content-Range'),
                    accept=h.get('Accept-Ranges'), lastmod='Last-Modified' in h, date='Date' in h,
                    body=b, wire_entity=[k for k in wire_names if k in ENTITY] if status == 304 else None, **common)
    finally:
        os.unlink(path)


def _compact(b):
    """file-sized byte strings above 4 KiB are compared by digest"""
    if len(b) > 4096:
        import hashlib
        return dict(len=len(b), sha=hashlib.sha256(b).hexdigest())
    return list(b)


def _wire_shape(status, clen, crange, accept, opened, ims_arg, data):
    """what is compared for a request that went through an application's WSGI entry point"""
    ok = status in (200, 206)
    return dict(status=status, clen=clen if ok else None, crange=crange, accept=accept, opened=opened,
                ims_arg=ims_arg, data=data if ok else None)


def project(obs, case):
    k = case['kind']
    if k == 'present':
        return obs
    if k != 'static' or 'status' not in obs:
        return obs
    o = dict(obs)
    o.pop('pd_calls')
    o.pop('wire_entity')
    o['clen'] = None if o['clen'] is None else cps(o['clen'])
    o['crange'] = None if o['crange'] is None else cps(o['crange'])
    o['accept'] = o['accept'] == 'bytes'
    if case.get('via', 'direct') != 'direct':
        return _wire_shape(o['status'], o['clen'], o['crange'], o['accept'], o['opened'], o['ims_arg'], o['body']['data'])
    if o['body']['kind'] == 'text':
        o['body'] = dict(kind='text')
    return o


def _parse_date_value(case):
    """what the real parse_date answers for this case's header (floor), computed as the code prepares it"""
    from ombott.common_helpers import parse_date
    h = ims_header(case)
    if not h:
        return None
    with _tz(case):
        v = parse_date(h.split(';')[0].strip())
    return None if v is None else math.floor(v)


def enc_opt_str(s):
    return [0] if s is None else [1] + enc_str(cps(s))


def encode(case):
    k = case['kind']
    if k == 'range':
        return [0] + enc_str(cps(case['header'])) + [case['maxlen']]
    if k == 'iter':
        return [1] + enc_str(list(fbytes(case))) + [case['offset'], case['n'], case['maxread']]
    if k == 'present':
        import mimetypes
        path = os.path.join(tmpdir(), 'pres', case['fname'])
        gt, ge = mimetypes.guess_type(path)
        m, cs, dl = case['mimetype'], case['charset'], case['download']
        mtag = 0 if m == 'auto' else 1 if not m else 2
        dtag = 0 if not dl else 1 if dl is True else 2
        return ([3] + enc_str(cps(path)) + enc_opt_str(gt) + enc_opt_str(ge) + [mtag] + enc_str(cps(m or ''))
                + enc_str(cps(cs or '')) + [dtag] + enc_str(cps(dl if isinstance(dl, str) else '')))
    pd = _parse_date_value(case)
    return ([2] + enc_str(list(fbytes(case))) + [mtime_seen(case)] + enc_opt_str(ims_header(case))
            + ([0, 0] if pd is None else [1, pd]) + [int(case['method'] == 'HEAD')] + enc_opt_str(case['range'])
            + [default_maxread()])


def _iter(r):
    tag = r.int()
    if tag == 9:
        return dict(fuel=True)
    chunks = r.list(lambda q: q.str())
    return chunks, tag == 1


def decode(out, case):
    r = Reader(out)
    k = case['kind']
    if k == 'range':
        return dict(result=[r.int(), r.int()] if r.int() else None)
    if k == 'iter':
        chunks, raised = _iter(r)
        return dict(chunks=chunks, raised=raised)
    if k == 'present':
        if not r.int():
            return dict(raised=True)
        return dict(raised=False, cenc=r.str() if r.int() else None, ctype=r.str() if r.int() else None,
                    cdisp=r.str() if r.int() else None)
    ims_arg = r.str() if r.int() else None
    status = r.int()
    clen = r.str() if r.int() else None
    crange = r.str() if r.int() else None
    accept, lastmod, date, opened = r.bool(), r.bool(), r.bool(), r.bool()
    bk = r.int()
    if bk == 0:
        body = dict(kind='text')
    elif bk == 1:
        body = dict(kind='file', data=_compact(bytes(r.str())))
    else:
        chunks, raised = _iter(r)
        body = dict(kind='iter', sizes=[len(c) for c in chunks], data=_compact(bytes(sum(chunks, []))), raised=raised)
    if case.get('via', 'direct') != 'direct':
        return _wire_shape(status, clen, crange, accept, int(opened), ims_arg, body.get('data', []))
    return dict(status=status, clen=clen, crange=crange, accept=accept, lastmod=lastmod, date=date,
                opened=int(opened), body=body, ims_arg=ims_arg)


JUNK_IMS = ['', ' ', ';', 'garbage', '0', '01 Jan', ' ; x', '1700000000',
            '; Thu, 01 Jan 2099 00:00:00 GMT', 'yesterday', '-1', 'Thu']
GRAMMAR = re.compile(r'^bytes=(\d*)-(\d*)(?:,.*)?$', re.S)


def _num(d):
    """value of a digit string of any length (saturating: all that matters is the comparison with a file length)"""
    t = d.lstrip('0') or '0'
    return int(t) if len(t) < 30 else 10 ** 30


def rfc_first(header, L):
    """independent statement of RFC 7233 for the FIRST range spec of a grammar-conforming header:
    returns 'n/a' (not from the grammar), None (unsatisfiable / invalid) or (first, last) inclusive"""
    m = GRAMMAR.match(header)
    if not m or not header.isascii():
        return 'n/a'
    a, b = m.group(1), m.group(2)
    if not a and not b:
        return 'n/a'
    if not a:
        n = _num(b)
        if n == 0 or L == 0:
            return None
        return (max(0, L - n), L - 1)
    first = _num(a)
    if not b:
        return (first, L - 1) if first < L else None
    last = _num(b)
    if last < first:
        return None            # syntactically invalid spec: the code answers 416 (the RFC says: ignore the header)
    return (first, min(last, L - 1)) if first < L else None


def oracle(case, obs):
    k = case['kind']
    if k == 'range':
        if 'result' not in obs:
            return 'get_first_range raised: %s' % obs
        res, L = obs['result'], case['maxlen']
        if res is not None and not (0 <= res[0] < res[1] <= L):
            return 'get_first_range returned %s for length %d' % (res, L)
        want = rfc_first(case['header'], L) if L >= 0 else 'n/a'
        if want != 'n/a':
            got = None if res is None else (res[0], res[1] - 1)
            if got != want:
                return 'first range of %r on %d bytes: RFC 7233 says %s, got %s' % (case['header'][:60], L, want, got)
        return None
    data = fbytes(case) if k != 'present' else b''
    if k == 'iter':
        if 'chunks' not in obs:
            return '_file_iter_range escaped: %s' % obs
        off, n, mr = case['offset'], case['n'], case['maxread']
        if off < 0 or n < 0 or mr <= 0:
            return None
        if obs['raised']:
            return 'raised on a legal call'
        want = data[off:off + n]
        got = bytes(sum(obs['chunks'], []))
        if got != want:
            return 'delivered %d bytes, expected file[%d:%d] (%d bytes)' % (len(got), off, off + n, len(want))
        sizes = [len(c) for c in obs['chunks']]
        if any(s > mr or s == 0 for s in sizes):
            return 'chunk sizes %s with buffer %d' % (sizes, mr)
        if len(sizes) != -(-len(want) // mr):
            return '%d chunks for %d bytes with buffer %d' % (len(sizes), len(want), mr)
        return None
    if k == 'present':
        if 'raised' not in obs:
            return 'static_file answered %s for an existing file' % obs
        import mimetypes
        if obs['raised']:
            vals = [case['mimetype'], case['charset'], case['download'], case['fname']]
            if not any(isinstance(v, str) and any(c in v for c in '\r\n\0') for v in vals):
                return 'ValueError although no argument contains CR, LF or NUL'
            return None
        for key in ('cenc', 'ctype', 'cdisp'):
            if obs[key] is not None and any(c in (0, 10, 13) for c in obs[key]):
                return 'control character in %s' % key
        ct = None if obs['ctype'] is None else ''.join(map(chr, obs['ctype']))
        m = case['mimetype']
        base = mimetypes.guess_type(case['fname'])[0] if m == 'auto' else m
        if not base:
            if ct is not None:
                return 'Content-Type %r without a mimetype' % ct
        elif ct is None or not ct.startswith(base):
            return 'Content-Type %r does not start with the mimetype %r' % (ct, base)
        elif ct != base and ct != '%s; charset=%s' % (base, case['charset']):
            return 'Content-Type %r for mimetype %r charset %r' % (ct, base, case['charset'])
        elif ct != base and not base.startswith('text/'):
            return 'charset appended to the non-text type %r' % base
        dl = case['download']
        cd = None if obs['cdisp'] is None else ''.join(map(chr, obs['cdisp']))
        if not dl:
            return None if cd is None else 'Content-Disposition %r without download' % cd
        want = os.path.basename(case['fname'] if dl is True else dl)
        if cd != 'attachment; filename="%s"' % want:
            return 'Content-Disposition %r, expected the base name %r' % (cd, want)
        return None
    # ---- static
    if 'status' not in obs:
        return 'static_file did not return a response: %s' % str(obs)[:200]
    L, stt, body = len(data), obs['status'], obs['body']
    head = case['method'] == 'HEAD'
    hdr = ims_header(case)
    # HTTP dates have a resolution of one second: "not older" is judged against the file time in whole seconds
    must304 = case.get('delta') is not None and case['mtime'] + case['delta'] >= mtime_seen(case)
    if case.get('delta') is not None and case['mtime'] + case['delta'] < mtime_seen(case) and stt == 304:
        return '304 although the date is older than the file'
    if case.get('delta') is None and hdr is not None and hdr in JUNK_IMS and stt == 304:
        return 'If-Modified-Since %r is not a date but the answer is 304' % hdr
    if must304:
        if stt != 304:
            return 'If-Modified-Since %r is not older than the file but status is %d' % (hdr, stt)
    if stt == 304:
        if (body['kind'] == 'wire' and body['data']) or (body['kind'] != 'wire' and (body['kind'] != 'text' or body.get('nonempty'))):
            return '304 with a body'
        if obs['wire_entity']:
            return '304 carries entity headers %s' % obs['wire_entity']
        if obs['opened']:
            return '304 opened the file'
        return None
    mr = default_maxread()

    def delivered():
        if body['kind'] == 'text':
            return b'' if not body.get('nonempty') else None
        d = body['data']
        if d is None:
            return None
        return d if isinstance(d, dict) else bytes(d)

    def same(d, want):
        if isinstance(d, dict):
            import hashlib
            return d == dict(len=len(want), sha=hashlib.sha256(want).hexdigest())
        return d == want
    rg = case['range']
    if rg:
        if stt not in (206, 416):
            return 'Range request answered with %d' % stt
        want = rfc_first(rg, L)
        if stt == 416:
            if want not in ('n/a', None):
                return 'satisfiable first range %s of %r on %d bytes answered 416' % (want, rg[:60], L)
            return None
        m = re.match(r'^bytes (\d+)-(\d+)/(\d+)$', obs['crange'] or '')
        if not m:
            return '206 with Content-Range %r' % obs['crange']
        a, b, tot = int(m.group(1)), int(m.group(2)), int(m.group(3))
        if tot != L or not (0 <= a <= b < L):
            return 'Content-Range %r for a file of %d bytes' % (obs['crange'], L)
        if obs['clen'] != str(b - a + 1):
            return 'Content-Length %r but Content-Range %r' % (obs['clen'], obs['crange'])
        if want != 'n/a' and want != (a, b):
            return 'first range of %r on %d bytes: RFC 7233 says %s, Content-Range says %s' % (rg[:60], L, want, (a, b))
        d = delivered()
        if head:
            if d != b'':
                return 'HEAD delivered a body'
            return None
        if d is None or not same(d, data[a:b + 1]):
            return 'delivered bytes differ from file[%d:%d]' % (a, b + 1)
        sizes = body.get('sizes')
        if body['kind'] == 'wire':
            return None
        if sizes is None or any(s > mr or s == 0 for s in sizes) or body.get('raised'):
            return 'chunk sizes %s with streaming buffer %d' % (sizes, mr)
        return None
    if stt != 200:
        return 'plain request answered with %d' % stt
    if obs['clen'] != str(L) or obs['crange'] is not None:
        return 'Content-Length %r / Content-Range %r for a whole file of %d bytes' % (obs['clen'], obs['crange'], L)
    d = delivered()
    if head:
        return None if d == b'' else 'HEAD delivered a body'
    if d is None or not same(d, data):
        return 'delivered bytes differ from the file'
    return None


def nontrivial(case, obs):
    k = case['kind']
    if k == 'range':
        return rfc_first(case['header'], max(case['maxlen'], 0)) != 'n/a' or obs.get('result') is not None
    if k == 'iter':
        return len(obs.get('chunks') or []) >= 2
    if k == 'present':
        return case['mimetype'] != 'auto' or bool(case['download']) or obs.get('cenc') is not None
    return bool(case['range'] and 'bytes=' in case['range']) or bool(obs.get('pd_calls'))


def key(case):
    import json
    return json.dumps(case, sort_keys=True)


def classify(case, obs):
    k = case['kind']
    if k == 'range':
        g = rfc_first(case['header'], max(case['maxlen'], 0))
        return 'range/%s/%s' % ('grammar' if g != 'n/a' else 'near-miss', 'none' if obs.get('result') is None else 'range')
    if k == 'iter':
        return 'iter/chunks=%s%s' % (min(len(obs.get('chunks') or []), 4), '/raised' if obs.get('raised') else '')
    if k == 'present':
        return 'present/%s' % ('raised' if obs.get('raised') else 'ok')
    return 'static-%s/%s/%s%s%s' % (case.get('via', 'direct'), case['method'], obs.get('status'), '/range' if case['range'] else '',
                                 '/ims' if ims_header(case) is not None else '')


def shrink(case):
    k = case['kind']
    if k == 'range':
        h = case['header']
        for i in range(len(h)):
            yield dict(case, header=h[:i] + h[i + 1:])
        return
    if k == 'present':
        for key, v in (('download', False), ('mimetype', 'auto'), ('charset', 'UTF-8'), ('fname', 'p.txt')):
            if case[key] != v:
                yield dict(case, **{key: v})
        return
    f = case['file']
    if isinstance(f, list):
        for i in range(len(f)):
            yield dict(case, file=f[:i] + f[i + 1:])
    if k == 'static':
        if case['range']:
            h = case['range']
            yield dict(case, range=None)
            for i in range(len(h)):
                yield dict(case, range=h[:i] + h[i + 1:])
        if case['ims'] is not None:
            yield dict(case, ims=None, delta=None)
        if case['method'] != 'GET':
            yield dict(case, method='GET')
        if case['frac']:
            yield dict(case, frac=0)
        if case.get('tz') not in (None, 'MSK-3'):
            yield dict(case, tz='MSK-3')
        if case.get('kw'):
            yield dict(case, kw={})
        if case.get('prev'):
            yield dict(case, prev=None)
        if case.get('via', 'direct') == 'app':
            yield dict(case, via='direct')
        if case.get('via') == 'fresh':
            yield dict(case, via='app2')
        if case.get('setup'):
            yield dict(case, setup={})
        if case.get('interleave'):
            yield dict(case, interleave=False)
        if case.get('replace') not in (None, 'same'):
            yield dict(case, replace='same')


def _over_digit_limit(case, what, m):
    h = case.get('header') if case['kind'] == 'range' else case.get('range')
    g = GRAMMAR.match(h or '')
    return bool(g) and max(len(g.group(1)), len(g.group(2))) > m.get('digits', 4300)


def _outside_default_app(case, what, m):
    return case.get('kind') == 'static' and case.get('via') in ('app2', 'fresh')


PREDICATES = {'range_numeral_over_int_digit_limit': _over_digit_limit,
              'static_file_outside_default_app': _outside_default_app}

API_SURFACE = [
    ('get_first_range(header, maxlen)', 'covered by kind range (direct calls, maxlen negative/zero/huge) and by kind static'),
    ('_file_iter_range(fp, offset, bytes_len, maxread)', 'covered by kind iter (all four arguments, illegal values included) and by kind static (default maxread, one file larger than it)'),
    ('static_file(filename, root)', 'covered by kind static (existing regular file); refusals/404 belong to C16'),
    ('static_file mimetype= / charset= / download=', 'covered by kind present (model sf_present: Content-Type, Content-Encoding, Content-Disposition, ValueError on CR/LF/NUL) and as riders on kind static (must not change status/length/range/body)'),
    ('request.method (HEAD)', 'covered by kind static method=HEAD, directly and through the WSGI entry point'),
    ('environ HTTP_RANGE', 'covered by kind static: absent, empty, grammar, near misses'),
    ('environ HTTP_IF_MODIFIED_SINCE', 'covered by kind static: absent, empty, three date forms, parameters, junk, epoch, time zones'),
    ('Globals.request / application binding', 'covered by kind static via=direct|app|app2|fresh with prev= (an earlier unrelated request on the default application)'),
    ('Ombott(config) / Ombott.setup(config)', 'covered by setup= on via=app|direct (default application reconfigured after import) and via=fresh (constructor)'),
    ('streaming a body while the thread starts its next request', 'covered by interleave=True on via=app|app2|fresh (incl. two files larger than the streaming buffer)'),
    ('several calls in one process', 'covered: every case runs in one process, prev= makes the order adversarial; static_stream has no module-level state of its own'),
    ('common_helpers.parse_date', 'covered through kind static (argument recorded, result fed to the model; instants judged independently by the oracle under several TZ)'),
    ('Last-Modified / Date values', 'excluded: email.utils.formatdate output is not modelled; presence is compared'),
    ('mimetypes.guess_type', 'excluded as an oracle: its real result is an input of sf_present'),
    ('os.stat size/mtime', 'covered: sizes 0..40 and 1 MiB+5, mtimes 0,1,2,.., fractional'),
    ('root / filename as bytes', 'excluded: TypeError before anything is opened (API misuse: abspath(bytes) + str)'),
    ('root as os.PathLike', 'covered by C16 (root_kind=path)'),
    ('HTTPResponse.headerlist for 304', 'covered by the oracle (no entity header on the wire), model: C14'),
    ('file replaced (rename) between the answer and the streaming of the body', 'covered by replace=shorter|longer|same|empty: the opened inode is streamed'),
    ('file modified IN PLACE between stat and read, symlinks', 'excluded: outside the property (see ASSUMPTIONS)'),
]

MANIFEST = dict(
    text=('Proof (Coq, all theorems closed under the global context): C17_range_sound (for ANY int parser a returned range '
          'satisfies 0 <= s < e <= len), C17_range_rfc + C17_rfc_none_iff_unsatisfiable (with the concrete decimal parser a '
          'header "bytes=" first-spec ["," anything] of the RFC 7233 grammar, numerals of at most 4300 digits, yields '
          'exactly the first spec clipped to the file, None exactly when it selects no byte), C17_iter_exact_and_bounded '
          '(_file_iter_range delivers exactly file[offset:offset+n] in non-empty chunks of at most the streaming buffer; '
          'the fuel suffices), C17_consistent (206: Content-Range, Content-Length and the delivered chunks describe the '
          'same slice; else 416 without file bytes), C17_whole_file (200, true length), C17_conditional / '
          'C17_ims_absent_or_empty (date >= mtime: 304, no body, file not opened; otherwise 200/206/416), C17_head, '
          'C17_decimal_text_denotes (the decimal header texts read back as the numbers), for ALL files, headers, dates '
          'and buffer sizes > 0.  C17_range_rfc_digit_limit_refuted records the known finding C17-int-digit-limit '
          '(a numeral of more than 4300 digits makes int() raise => 416).  The model (coq/model/Range.v, '
          'coq/lib/PyIntParse.v) is tied to /repo on every run by real calls of static_file, get_first_range and '
          '_file_iter_range on real files (extracted OCaml + vm_compute), and an independent oracle states RFC 7233 '
          'and the slice/length/chunk consistency directly on the implementation.'),
    note=('Trusted: Coq kernel + vm_compute; extraction; the Python harness; parse_date and int() are arbitrary functions '
          'in the soundness/consistency theorems.  Modelled not verified: int() parsing (ASCII digits, underscores, '
          'Unicode spaces, 4300-digit limit), decimal formatting, regular-file read/seek semantics.  Not covered: '
          'file changes between stat and read, Last-Modified/Date values, non-ASCII decimal digits (not latin-1).'),
    technique='Coq proof (case analysis of the parser, loop invariant of the chunk iterator on fuel) + model/implementation correspondence',
    design_ref='DESIGN.md section 4, C17',
)
