"""C16 — static_file never serves a file outside its root."""
import atexit
import itertools
import os
import shutil
import tempfile

from props.common import enc_str, enc_list, Reader

ID = 'C16'
COQ_MODEL = 'model.Static'
COQ_CORR = 'corr_C16'
N_QUICK = 3000
N_THOROUGH = 12000
THOROUGH_EXHAUSTIVE = True
RULE = ('cases = corpus + random names built from segments {file/dir names inside the root, ".", "..", "", sibling '
        'directory names, directories spelling the root or an ancestor in another letter case, decoy names, NUL/backslash segments} joined by {"/", "\\\\", "//"} with optional absolute '
        'prefixes, x roots {absolute, trailing separator(s), containing "..", relative to several working directories, '
        '"/", "//", "", ".", the sibling, nonexistent, an existing regular file} x GET/HEAD/Range/If-Modified-Since x forced-false '
        'exists/isfile/access; real calls to ombott.static_file over a real temporary tree with open() and the os/os.path '
        'calls recorded in the module namespace.  thorough adds every name of <= 5 segments over 7 segments joined by "/" '
        '(x 3 roots) and every name of <= 3 segments over 3 separators (exhaustive).  non-trivial = the name contains a '
        '"..", an absolute prefix, a backslash or a sibling name AND the request got past abspath; distinct by (root, name, cwd)')
TRUSTED = ['C16: os.path.exists / os.path.isfile / os.access are arbitrary oracle functions in the theorems (section '
           'variables fs_exists fs_isfile fs_access); their real values are recorded from the implementation run',
           'C16 modelled, not verified: CPython 3.12 posixpath.join/normpath/abspath re-implemented in coq/model/Static.v '
           '(tied by the recorded abspath results of every case); str.strip',
           'C16 not covered: symbolic links inside the root, Windows path semantics, races between the check and open()']
ASSUMPTIONS = ['POSIX path semantics (os.sep == "/")', 'os.getcwd() is an absolute path',
               'no symbolic links below the root (lexical containment = physical containment)']


# --------------------------------------------------------------------------
# dev-only line coverage of the anchored functions:  VERIF_COVERAGE=1 ./check Cxx --no-coq
# --------------------------------------------------------------------------
class Coverage:
    """records which lines of the named functions run (sys.settrace, only while a run_impl is active);
    prints reached/total and the unreached line numbers at process exit"""

    def __init__(self, pid, targets):
        self.pid = pid
        self.targets = targets          # [(module name, function name)]
        self.codes = None
        self.hit = set()
        self.on = os.environ.get('VERIF_COVERAGE') == '1'
        if self.on:
            atexit.register(self.report)

    def _load(self):
        import importlib
        self.codes = {}
        for mod, fn in self.targets:
            f = getattr(importlib.import_module(mod), fn)
            self._add(f.__code__, '%s.%s' % (mod.split('.')[-1], fn))

    def _add(self, code, name):
        self.codes[code] = name
        for c in code.co_consts:
            if hasattr(c, 'co_code'):
                self._add(c, name)

    def _tracer(self, frame, event, arg):
        if frame.f_code in self.codes:
            return self._local
        return None

    def _local(self, frame, event, arg):
        if event == 'line':
            self.hit.add((frame.f_code, frame.f_lineno))
        return self._local

    def __enter__(self):
        if self.on:
            if self.codes is None:
                self._load()
            import sys
            sys.settrace(self._tracer)

    def __exit__(self, *a):
        if self.on:
            import sys
            sys.settrace(None)

    def report(self):
        import sys
        if self.codes is None:
            return
        tot = got = 0
        for code, name in self.codes.items():
            lines = sorted({ln for _, _, ln in code.co_lines() if ln is not None and ln != code.co_firstlineno})
            if not lines:
                continue
            miss = [ln for ln in lines if (code, ln) not in self.hit]
            tot += len(lines)
            got += len(lines) - len(miss)
            print('COVERAGE %s %s (%s): %d/%d lines%s' % (self.pid, name, code.co_name, len(lines) - len(miss), len(lines),
                                                         '' if not miss else '  unreached: %s' % miss), file=sys.stderr)
        print('COVERAGE %s total: %d/%d' % (self.pid, got, tot), file=sys.stderr)


ANCHORED = [('ombott.static_stream', 'static_file'), ('ombott.static_stream', 'get_first_range'),
            ('ombott.static_stream', '_file_iter_range'), ('ombott.common_helpers', 'parse_date')]
COV = Coverage('C16', ANCHORED[:1])

_T = None
OUT_MARK = b'OUTSIDE-THE-ROOT'
IN_MARK = b'INSIDE-THE-ROOT'


def tree():
    """the real directory tree (created once per process, removed at exit)"""
    global _T
    if _T is not None:
        return _T
    t = tempfile.mkdtemp(prefix='vC16_')
    t = os.path.realpath(t)

    def put(rel, mark):
        p = os.path.join(t, rel)
        os.makedirs(os.path.dirname(p), exist_ok=True)
        with open(p, 'wb') as f:
            f.write(mark + b':' + rel.encode() + b'\n' + bytes(range(48, 80)))
    put('top.txt', OUT_MARK)
    put('base/decoy.txt', OUT_MARK)
    put('base/root/index.html', IN_MARK)
    put('base/root/sub/page.txt', IN_MARK)
    put('base/root/sub/deep/x.txt', IN_MARK)
    put('base/root/a b.txt', IN_MARK)
    put('base/root/back\\slash.txt', IN_MARK)
    put('base/root/root2/inner.txt', IN_MARK)
    put('base/root/arch.tar.gz', IN_MARK)
    put('base/root2/secret.txt', OUT_MARK)
    put('base/root2/index.html', OUT_MARK)
    put('base/rootX/secret.txt', OUT_MARK)
    put('base/roo/secret.txt', OUT_MARK)
    put('base/Root/secret.txt', OUT_MARK)             # the root's name in another letter case: a different directory
    put('base/Root/index.html', OUT_MARK)
    put('base/ROOT/sub/page.txt', OUT_MARK)
    put('BASE/root/index.html', OUT_MARK)             # an ancestor's name in another letter case
    put('BASE/root/secret.txt', OUT_MARK)
    put('Base/ROOT/secret.txt', OUT_MARK)
    # directories whose literal names look like shell expansions, and the decoy tree HOME / the variables point at:
    # a root is a path, it is not expanded
    for d in ('~', '~x', '~root', '$HOME', '${DECOY}', '$DECOY', 'a$DECOYX', '%DECOY%'):
        put('base/' + d + '/index.html', IN_MARK)
        put('base/' + d + '/pub/page.txt', IN_MARK)
    put('home/index.html', OUT_MARK)
    put('home/secret.txt', OUT_MARK)
    put('home/pub/page.txt', OUT_MARK)
    put('home/pub/secret.txt', OUT_MARK)
    # roots whose legal names begin or end with white space; the stripped name is a different (decoy) directory
    for d in ('root ', ' root', 'root\n', '\troot', ' ', 'root  '):
        put('base/' + d + '/index.html', IN_MARK)
        put('base/' + d + '/only_in_blank.txt', IN_MARK)
    put('base/index.html', OUT_MARK)
    put('base/root/a%20b.txt', IN_MARK)
    # a tree with the SAME relative names beside the application script (sys.modules['__main__'].__file__), for
    # relative roots: the root is resolved against the working directory, not against the script's directory
    put('scriptdir/main.py', OUT_MARK)
    put('scriptdir/root/index.html', OUT_MARK)
    put('scriptdir/root/sub/page.txt', OUT_MARK)
    put('scriptdir/root/only_beside_script.txt', OUT_MARK)
    put('scriptdir/public/secret.txt', OUT_MARK)
    os.makedirs(os.path.join(t, 'base/public'), exist_ok=True)
    # directories INSIDE the root whose names are compatibility characters that NFKC / case folding turn into path syntax
    put('base/root/\u2025/decoy.txt', IN_MARK)            # TWO DOT LEADER          -> '..'
    put('base/root/\uff0e\uff0e/top.txt', IN_MARK)        # FULLWIDTH FULL STOP x2  -> '..'
    put('base/root/sub/\u2024\u2024/index.html', IN_MARK)  # ONE DOT LEADER x2       -> '..'
    put('base/root/a\uff0fb.txt', IN_MARK)                # FULLWIDTH SOLIDUS       -> '/'
    # trees OUTSIDE the root whose absolute path embeds the root's absolute path (backup / rsync -R / chroot copies)
    put('backup' + t + '/base/root/secret.txt', OUT_MARK)
    put('backup' + t + '/base/root/index.html', OUT_MARK)
    put('base/mirror' + t + '/base/root/sub/page.txt', OUT_MARK)
    put('base/root2' + t + '/base/root/secret.txt', OUT_MARK)
    os.makedirs(os.path.join(t, 'base/work/d'), exist_ok=True)
    os.makedirs(os.path.join(t, 'base/root/emptydir'), exist_ok=True)
    _T = t
    atexit.register(shutil.rmtree, t, True)
    return t


def sub(s):
    return s.replace('{T}', tree())


ROOTS = [
    ('{T}/base/root', '{T}'), ('{T}/base/root/', '{T}'), ('{T}/base/root//', '/'), ('{T}/base/root/.', '{T}/base'),
    ('{T}/base/rootX/../root', '{T}'), ('{T}/base/root/sub/..', '{T}'), ('{T}/base/root/sub', '{T}'),
    ('root', '{T}/base'), ('./root/', '{T}/base'), ('../root', '{T}/base/work'), ('../../root/', '{T}/base/work/d'),
    ('root/../root', '{T}/base'), ('', '{T}/base/root'), ('.', '{T}/base/root'), ('..', '{T}/base/root/sub'),
    ('{T}/base/root2', '{T}'), ('{T}/base/roo', '{T}'), ('/', '{T}'), ('//', '{T}'), ('///', '{T}'), ('/..', '{T}'),
    ('/{T}/base/root', '{T}'), ('//{T}/base/root', '{T}'), ('{T}/base/nonexistent', '{T}'),
    ('{T}/base/root\\', '{T}'), ('{T}//base///root', '{T}'), ('{T}/base', '{T}'), ('{T}', '/'),
    ('../../../../../../../../../..', '{T}/base/work'), ('root', '/'), ('public', '{T}/base'), ('root', '{T}/scriptdir'),
    ('{T}/base/root ', '{T}'), (' root', '{T}/base'), ('root\n', '{T}/base'), (' ', '{T}/base'), ('{T}/base/ /', '{T}'), ('root  ', '{T}/base'),
    ('~', '{T}/base'), ('~/', '{T}/base'), ('~/pub', '{T}/base'), ('~x', '{T}/base'), ('$HOME', '{T}/base'), ('${DECOY}/pub', '{T}/base'),
    ('{T}/base/$DECOY', '{T}'), ('a$DECOYX', '{T}/base'), ('./~', '{T}/base'),
    ('{T}/base/Root', '{T}'), ('{T}/BASE/root', '{T}'), ('Root', '{T}/base'),
    # the root names an existing REGULAR FILE: nothing lies inside it, its siblings are outside
    ('{T}/base/root/index.html', '{T}'), ('{T}/base/root/index.html/', '{T}'), ('root/index.html', '{T}/base'),
    ('index.html', '{T}/base/root'), ('./index.html/', '{T}/base/root'), ('{T}/base/decoy.txt', '{T}'), ('{T}/top.txt', '/'),
    ('{T}/base/root/sub/page.txt', '{T}'), ('../decoy.txt', '{T}/base/root'),
]
SEGS_IN = ['index.html', 'sub', 'page.txt', 'deep', 'x.txt', 'a b.txt', 'emptydir', 'back\\slash.txt', 'root2', 'inner.txt']
SEGS_OUT = ['root2', 'rootX', 'roo', 'root', 'base', 'Root', 'ROOT', 'BASE', 'Base', 'secret.txt', 'decoy.txt', 'top.txt', 'work', 'etc', 'passwd']
SEGS_SPECIAL = ['.', '..', '..', '..', '', '...', '\u2025', '\ufe52\ufe52', '\uff3c', '\ufe68', '\u2026', '. .', '..\\', '\\..', 'a\x00b', '\x00', '%2e%2e', '.\\.',
                'SUB', '\u017fub', 'Index.html', '\udc80', '\u2215', '\uff0f', '\uff0e\uff0e', '\u2024\u2024', '\xfc.txt', '.\u200b.']
SEPS = ['/', '/', '/', '\\', '//', '/\\', '\\/']
PREFIXES = ['', '', '', '/', '//', '///', '\\', '{T}/', '{T}/base/root2/', '/etc/passwd/', '{T}/base/root/', '../', '/../',
            '..\\', './/', '{T}/base/root/../root2/']


def mk(root, cwd, name, method='GET', rng=None, ims=None, deny=(), kw=None, root_kind='str', main_dir=None, entry='pkg', env=None):
    return dict(root=root, cwd=cwd, name=name, method=method, range=rng, ims=ims, deny=sorted(deny), kw=kw or {},
                root_kind=root_kind, main_dir=main_dir, entry=entry, env=env or {})


ENVX = dict(HOME='{T}/home', DECOY='{T}/home', DECOYX='/../../home')


def corpus():
    A = '{T}/base/root'
    out = [
        mk(A, '{T}', 'index.html'),
        mk(A, '{T}', 'sub/page.txt'),
        mk(A, '{T}', '../root2/secret.txt'),                  # the sibling-prefix case
        mk(A, '{T}', '../rootX/secret.txt'),
        mk(A + '/', '{T}', '../root2/secret.txt'),
        mk('root', '{T}/base', '../root2/secret.txt'),
        mk('{T}/base/roo', '{T}', '../root/index.html'),      # the root's name is a prefix of the sibling's
        mk(A, '{T}', '../root/index.html'),                    # leaves and re-enters: inside
        mk(A, '{T}', 'sub/../../root2/secret.txt'),
        mk(A, '{T}', '..'), mk(A, '{T}', ''), mk(A, '{T}', '.'), mk(A, '{T}', '/'), mk(A, '{T}', '\\'),
        mk(A, '{T}', '{T}/base/root2/secret.txt'),            # absolute name: leading '/' is stripped
        mk(A, '{T}', '/etc/passwd'), mk(A, '{T}', '//etc/passwd'), mk(A, '{T}', '\\/etc/passwd'),
        mk(A, '{T}', '..\\root2\\secret.txt'),                # a backslash is an ordinary character on POSIX
        mk(A, '{T}', 'back\\slash.txt'),
        mk(A, '{T}', 'sub//page.txt'), mk(A, '{T}', 'sub/./page.txt/'), mk(A, '{T}', 'sub/page.txt/..'),
        mk(A, '{T}', 'a\x00b'), mk(A, '{T}', '../root2/secret.txt\x00'), mk(A, '{T}', '\x00/../../root2/secret.txt'),
        mk(A, '{T}', 'emptydir'), mk(A, '{T}', 'sub'),
        mk('/', '{T}', ''), mk('/', '{T}', '..'), mk('/', '{T}', '{T}/top.txt'), mk('/', '{T}', 'etc/../{T}/top.txt'),
        mk('//', '{T}', '{T}/top.txt'), mk('///', '{T}', '{T}/top.txt'),
        mk('//{T}/base/root', '{T}', 'index.html'), mk('//{T}/base/root', '{T}', '../root2/secret.txt'),
        mk('', '{T}/base/root', 'index.html'), mk('', '{T}/base/root', '../decoy.txt'),
        mk('..', '{T}/base/root/sub', 'index.html'), mk('..', '{T}/base/root/sub', '../decoy.txt'),
        mk('{T}/base/nonexistent', '{T}', 'index.html'),
        mk(A, '{T}', 'index.html', method='HEAD'),
        mk(A, '{T}', 'index.html', rng='bytes=2-5'),
        mk(A, '{T}', 'index.html', rng='bytes=999-'),
        mk(A, '{T}', 'index.html', ims='Thu, 01 Jan 2099 00:00:00 GMT'),
        mk(A, '{T}', 'index.html', deny=['access']),
        mk(A, '{T}', 'index.html', deny=['isfile']),
        mk(A, '{T}', 'index.html', deny=['exists']),
        mk(A, '{T}', '../root2/secret.txt', method='HEAD', rng='bytes=0-1'),
        # percent-escapes in a name are not decoded (seeded change C16/19)
        mk(A, '{T}', '%2e%2e/decoy.txt'), mk(A, '{T}', '..%2fdecoy.txt'), mk(A, '{T}', 'sub/%2e%2e/%2e%2e/decoy.txt'),
        mk(A, '{T}', '%2e%2e/root2/secret.txt'), mk(A, '{T}', '%2e%2e%2froot2%2fsecret.txt'), mk('root', '{T}/base', '%2E%2E/%2E%2E/top.txt'),
        mk(A, '{T}', 'a%20b.txt'), mk(A, '{T}', 'sub%2fpage.txt'),
        # white space at the ends of a root's name belongs to the name (seeded change C16/20)
        mk(A + ' ', '{T}', 'index.html'), mk(A + ' ', '{T}', 'only_in_blank.txt'), mk(A + ' /', '{T}', 'index.html'),
        mk('{T}/base/ root', '{T}', 'index.html'), mk(' root', '{T}/base', 'index.html'), mk('root\n', '{T}/base', 'index.html'),
        mk('\troot', '{T}/base', 'sub/page.txt'), mk('{T}/base/ ', '{T}', 'index.html'), mk(' ', '{T}/base', 'index.html'),
        mk(' ', '{T}/base', 'root/index.html'), mk('root  ', '{T}/base', 'index.html', root_kind='path'), mk(A + ' ', '{T}', '../root/index.html'),
        # '~' and '$NAME' in a root are literal directory names (seeded change C16/16); HOME / DECOY point at a decoy tree
        mk('~', '{T}/base', 'index.html', env=ENVX), mk('~/', '{T}/base', 'secret.txt', env=ENVX), mk('~/pub', '{T}/base', 'page.txt', env=ENVX),
        mk('~/pub', '{T}/base', 'secret.txt', env=ENVX), mk('~x', '{T}/base', 'index.html', env=ENVX), mk('~root', '{T}/base', 'index.html', env=ENVX),
        mk('$HOME', '{T}/base', 'secret.txt', env=ENVX), mk('$HOME', '{T}/base', 'index.html', env=ENVX), mk('${DECOY}', '{T}/base', 'secret.txt', env=ENVX),
        mk('$DECOY/pub', '{T}/base', 'secret.txt', env=ENVX), mk('{T}/base/$DECOY', '{T}', 'index.html', env=ENVX),
        mk('a$DECOYX', '{T}/base', 'index.html', env=ENVX), mk('%DECOY%', '{T}/base', 'index.html', env=ENVX),
        mk('~', '{T}/base', 'secret.txt', env=ENVX, entry='module'), mk('~', '{T}/base', '../~x/index.html', env=ENVX),
        mk('$HOME', '{T}/base', 'secret.txt', env=ENVX, root_kind='path'),
        # a relative root means <cwd>/root, wherever the application script lives (seeded change C16/13)
        mk('root', '{T}/base', 'index.html', main_dir='{T}/scriptdir'), mk('root', '{T}/base', 'only_beside_script.txt', main_dir='{T}/scriptdir'),
        mk('root/', '{T}/base', 'sub/page.txt', main_dir='{T}/scriptdir'), mk('public', '{T}/base', 'secret.txt', main_dir='{T}/scriptdir'),
        mk('./public', '{T}/base', '/secret.txt', main_dir='{T}/scriptdir'), mk('../root', '{T}/base/work', 'only_beside_script.txt', main_dir='{T}/scriptdir/root'),
        mk('root', '{T}/base', 'only_beside_script.txt', main_dir='{T}/scriptdir', entry='module'),
        mk('root', '{T}/scriptdir', 'only_beside_script.txt', main_dir='{T}/base'), mk('', '{T}/base/root', 'index.html', main_dir='{T}/scriptdir/root'),
        mk(A, '{T}', 'index.html', main_dir='{T}/scriptdir', entry='module'), mk('root', '{T}/base', 'index.html', root_kind='path', main_dir='{T}/scriptdir'),
        # compatibility characters are not path syntax (seeded change C16/12): real directories of that name inside the root
        mk(A, '{T}', '\u2025/decoy.txt'), mk(A, '{T}', '\uff0e\uff0e/top.txt'), mk(A, '{T}', 'sub/\u2024\u2024/index.html'),
        mk(A, '{T}', '\u2025/root2/secret.txt'), mk(A, '{T}', '\uff0e\uff0e/root2/secret.txt'), mk(A, '{T}', '\uff0e\uff0e/\uff0e\uff0e/top.txt'),
        mk(A, '{T}', '\u2025\uff0froot2\uff0fsecret.txt'), mk(A, '{T}', 'a\uff0fb.txt'), mk('root', '{T}/base', '\u2025/root2/index.html'),
        mk(A + '/\u2025', '{T}', 'decoy.txt'), mk(A + '/\u2025', '{T}', '../index.html'),
        # a path that merely CONTAINS the root's absolute path is outside (seeded change C16/10)
        mk(A, '{T}', '../../backup{T}/base/root/secret.txt'), mk(A, '{T}', '../../backup{T}/base/root/index.html'),
        mk(A + '/', '{T}', '../mirror{T}/base/root/sub/page.txt'), mk('root', '{T}/base', '../root2{T}/base/root/secret.txt'),
        mk(A, '{T}', '../../backup{T}/base/root/nothing.txt'), mk(A, '{T}', '../../backup{T}/base/root/'),
        mk(A + '/sub', '{T}', '../../../backup{T}/base/root/sub/../secret.txt'),
        # a root that is a regular file has no inside: its siblings must not be served (seeded change C16/8)
        mk(A + '/index.html', '{T}', 'sub/page.txt'), mk(A + '/index.html', '{T}', 'a b.txt'), mk(A + '/index.html/', '{T}', 'sub/page.txt'),
        mk('root/index.html', '{T}/base', 'arch.tar.gz'), mk('index.html', '{T}/base/root', 'sub/deep/x.txt'),
        mk(A + '/index.html', '{T}', 'index.html'), mk(A + '/index.html', '{T}', ''), mk(A + '/index.html', '{T}', '../index.html'),
        mk('{T}/base/decoy.txt', '{T}', 'root/index.html'), mk('{T}/base/decoy.txt', '{T}', 'root2/secret.txt'),
        mk('{T}/top.txt', '{T}', 'base/decoy.txt'), mk(A + '/index.html', '{T}', 'sub/page.txt', root_kind='path'),
        # presentation arguments and the root's type do not move the gate
        mk(A, '{T}', 'index.html', kw=dict(download=True)), mk(A, '{T}', 'arch.tar.gz', kw=dict(download='../../x')),
        mk(A, '{T}', '../root2/secret.txt', kw=dict(download=True, mimetype='text/plain')),
        mk(A, '{T}', 'arch.tar.gz'), mk(A, '{T}', 'sub/page.txt', kw=dict(mimetype=None, charset='')),
        mk(A, '{T}', 'index.html', root_kind='path'), mk(A + '//', '{T}', '../root2/secret.txt', root_kind='path'),
        mk('', '{T}/base/root', 'index.html', root_kind='path'), mk('//{T}/base/root', '{T}', 'index.html', root_kind='path'),
        mk('root/../root', '{T}/base', '../decoy.txt', root_kind='path'),
        # directories that differ from the root (or an ancestor) only in letter case are outside (seeded change C16/4)
        mk(A, '{T}', '../Root/secret.txt'), mk(A, '{T}', '../Root/index.html'), mk(A, '{T}', '../ROOT/sub/page.txt'),
        mk(A, '{T}', '../../BASE/root/index.html'), mk(A, '{T}', '../../Base/ROOT/secret.txt'),
        mk('root', '{T}/base', '../Root/secret.txt'), mk('{T}/base/Root', '{T}', '../root/index.html'),
        mk('{T}/BASE/root', '{T}', '../../base/root/index.html'),
    ]
    return out


GOOD = [['only_in_blank.txt'], ['arch.tar.gz'], ['only_beside_script.txt'], ['secret.txt'], ['page.txt'], ['pub', 'secret.txt'], ['index.html'], ['sub', 'page.txt'], ['sub', 'deep', 'x.txt'], ['root2', 'inner.txt'], ['a b.txt'],
        ['back\\slash.txt'], ['emptydir'], ['sub']]
ESCAPES = [['..', 'root2', 'secret.txt'], ['..', 'root2', 'index.html'], ['..', 'rootX', 'secret.txt'],
           ['..', 'roo', 'secret.txt'], ['..', 'decoy.txt'], ['..', '..', 'top.txt'], ['..', 'root', 'index.html'],
           ['..', 'root', 'sub', 'page.txt'], ['sub', '..', '..', 'root2', 'secret.txt'], ['..'], ['..', '..'],
           ['..', 'root'], ['..', 'root2'], ['sub', '..'], ['sub', 'deep', '..', '..', '..', 'decoy.txt'],
           ['..', 'Root', 'secret.txt'], ['..', 'Root', 'index.html'], ['..', 'ROOT', 'sub', 'page.txt'],
           ['..', '..', 'BASE', 'root', 'index.html'], ['..', '..', 'BASE', 'root', 'secret.txt'],
           ['..', '..', 'Base', 'ROOT', 'secret.txt'], ['sub', '..', '..', 'Root', 'secret.txt'],
           ['..', '..', 'backup{T}', 'base', 'root', 'secret.txt'], ['..', '..', 'backup{T}', 'base', 'root', 'index.html'],
           ['..', 'mirror{T}', 'base', 'root', 'sub', 'page.txt'], ['..', 'root2{T}', 'base', 'root', 'secret.txt'],
           ['sub', '..', '..', '..', 'backup{T}', 'base', 'root', 'secret.txt'],
           # characters that Unicode normalisation maps to '.', '/' or '\\' are ordinary characters (seeded change C16/12)
           ['\u2025', 'decoy.txt'], ['\u2025', 'root2', 'secret.txt'], ['\uff0e\uff0e', 'root2', 'secret.txt'],
           ['\uff0e\uff0e', '\uff0e\uff0e', 'top.txt'], ['\u2024\u2024', 'rootX', 'secret.txt'], ['sub', '\u2025', '\u2025', 'decoy.txt'],
           ['\u2025\uff0froot2\uff0fsecret.txt'], ['\uff0e\uff0e\uff0fdecoy.txt'], ['\u2025\uff3croot2\uff3csecret.txt'],
           ['\ufe52\ufe52', 'decoy.txt'], ['\u2025\ufe68..', 'decoy.txt'], ['\uff0e\uff0e', 'top.txt'], ['sub', '\u2024\u2024', 'index.html'],
           ['\u2026', 'decoy.txt'], ['a\uff0fb.txt'],
           # percent-escapes are ordinary characters of a file name (seeded change C16/19)
           ['%2e%2e', 'decoy.txt'], ['..%2fdecoy.txt'], ['sub', '%2e%2e', '%2e%2e', 'decoy.txt'], ['%2E%2E', 'root2', 'secret.txt'],
           ['%2e%2e%2froot2%2fsecret.txt'], ['%2e.', 'rootX', 'secret.txt'], ['.%2e', '.%2E', 'top.txt'], ['..%5croot2%5csecret.txt'],
           ['%252e%252e', 'decoy.txt'], ['sub%2f..%2f..%2fdecoy.txt'], ['a%20b.txt'], ['%2e%2e', 'root', 'index.html']]


def mutate(rng, segs):
    segs = list(segs)
    for _ in range(rng.choice([0, 0, 1, 1, 2, 3])):
        i = rng.randrange(len(segs) + 1)
        ins = rng.choice([['.'], [''], ['emptydir', '..'], ['sub', '..'], ['x', '..'], ['.', '.'], ['sub', 'deep', '..', '..'],
                          ['..', 'root'], ['root2', '..']])
        segs[i:i] = ins
    return segs


def gen_name(rng):
    r = rng.random()
    if r < 0.45:
        segs = mutate(rng, rng.choice(GOOD))
    elif r < 0.7:
        segs = mutate(rng, rng.choice(ESCAPES))
    else:
        segs = []
        for _ in range(rng.choice([1, 1, 2, 2, 3, 3, 4, 5, 6, 8])):
            q = rng.random()
            pool = SEGS_IN if q < 0.4 else SEGS_OUT if q < 0.6 else SEGS_SPECIAL
            segs.append(rng.choice(pool))
    name = segs[0]
    for sg in segs[1:]:
        name += rng.choice(SEPS if r >= 0.7 else ['/', '/', '/', '/', '//', '\\']) + sg
    if r >= 0.55 or rng.random() < 0.15:
        name = rng.choice(PREFIXES) + name
    if rng.random() < 0.12:
        name += rng.choice(['/', '\\', '//', '/.', '/..'])
    return name


def gen(rng, n):
    for _ in range(n):
        root, cwd = rng.choice(ROOTS[:12]) if rng.random() < 0.6 else rng.choice(ROOTS)
        if rng.random() < 0.1:
            cwd = rng.choice(['{T}', '{T}/base', '{T}/base/root', '{T}/base/work/d', '/'])
        q = rng.random()
        method, rg, ims, deny = 'GET', None, None, ()
        if q < 0.1:
            method = 'HEAD'
        elif q < 0.2:
            rg = rng.choice(['bytes=0-3', 'bytes=-4', 'bytes=9999-', 'junk'])
        elif q < 0.25:
            ims = rng.choice(['Thu, 01 Jan 2099 00:00:00 GMT', 'Thu, 01 Jan 1980 00:00:00 GMT'])
        elif q < 0.32:
            deny = [rng.choice(['exists', 'isfile', 'access'])]
        name = gen_name(rng)
        if root.rstrip('/').endswith(('.html', '.txt')) and rng.random() < 0.6:
            name = rng.choice(['sub/page.txt', 'a b.txt', 'index.html', 'arch.tar.gz', 'sub/deep/x.txt', 'root/index.html',
                               'root2/secret.txt', 'decoy.txt', 'base/decoy.txt', 'page.txt', 'deep/x.txt'])
        kw = {}
        if rng.random() < 0.15:
            kw = rng.choice([dict(download=True), dict(download='other.bin'), dict(mimetype=None), dict(mimetype='text/plain', charset='latin1'),
                             dict(mimetype='application/x', download=True)])
        main_dir = rng.choice([None, '{T}/scriptdir', '{T}/scriptdir', '{T}/scriptdir/root', '{T}/base', '{T}']) \
            if not root.startswith(('/', '{T}')) else rng.choice([None, None, '{T}/scriptdir'])
        env = ENVX if ('~' in root or '$' in root or rng.random() < 0.1) else None
        yield mk(root, cwd, name, method, rg, ims, deny, kw, 'path' if rng.random() < 0.15 else 'str', main_dir,
                 'module' if rng.random() < 0.25 else 'pkg', env)


def thorough():
    segs = ['..', '.', '', 'sub', 'root2', 'index.html', 'secret.txt']
    roots = [('{T}/base/root', '{T}'), ('root/', '{T}/base'), ('/', '{T}/base')]
    for root, cwd in roots:
        for L in range(1, 6):
            for combo in itertools.product(segs, repeat=L):
                yield mk(root, cwd, '/'.join(combo))
    segs2 = ['..', '', 'sub', 'root2', 'index.html']
    for L in range(1, 4):
        for combo in itertools.product(segs2, repeat=L):
            for seps in itertools.product(['/', '\\', '//'], repeat=L):
                name = ''.join(sp + sg for sp, sg in zip(seps, combo))
                yield mk('{T}/base/root', '{T}', name)
                yield mk('{T}/base/root', '{T}', name[len(seps[0]):])


SERVE = (200, 206, 304, 416)

class _PathProxy:
    def __init__(self, log, deny):
        self._log = log
        self._deny = deny

    def __getattr__(self, k):
        return getattr(os.path, k)

    def abspath(self, p):
        r = os.path.abspath(p)
        self._log.append(('abspath', p, r))
        return r

    def exists(self, p):
        r = os.path.exists(p) and 'exists' not in self._deny
        self._log.append(('exists', p, r))
        return r

    def isfile(self, p):
        r = os.path.isfile(p) and 'isfile' not in self._deny
        self._log.append(('isfile', p, r))
        return r


class _OsProxy:
    def __init__(self, log, deny):
        self._log = log
        self._deny = deny
        self.path = _PathProxy(log, deny)

    def __getattr__(self, k):
        return getattr(os, k)

    def access(self, p, mode):
        r = os.access(p, mode) and 'access' not in self._deny
        self._log.append(('access', p, r))
        return r


def set_request(method='GET', rng=None, ims=None):
    import wsgiref.util
    import ombott
    env = {}
    wsgiref.util.setup_testing_defaults(env)
    env['REQUEST_METHOD'] = method
    if rng is not None:
        env['HTTP_RANGE'] = rng
    if ims is not None:
        env['HTTP_IF_MODIFIED_SINCE'] = ims
    from ombott.ombott import Globals
    Globals.request.__init__(env)
    return Globals.request


def cps(s):
    return [ord(c) for c in s]


def run_impl(case):
    import ombott
    import ombott.static_stream as ss
    import builtins
    root, cwd, name = sub(case['root']), sub(case['cwd']), sub(case['name'])
    log = []
    opened = []

    def rec_open(path, *a, **kw):
        opened.append(path)
        return builtins.open(path, *a, **kw)

    old_cwd = os.getcwd()
    set_request(case['method'], case['range'], case['ims'])
    os.chdir(cwd)
    had_open = 'open' in ss.__dict__
    saved_open = ss.__dict__.get('open')
    saved_os = ss.os
    ss.open = rec_open
    ss.os = _OsProxy(log, case['deny'])
    resp = None
    try:
        root_arg = root
        if case.get('root_kind') == 'path':
            import pathlib
            root_arg = pathlib.Path(root)           # os.PathLike: abspath() takes os.fspath() of it
        # entry='pkg': the exported ombott.static_file (what applications import); 'module': static_stream.static_file
        fn = ombott.static_file if case.get('entry', 'pkg') == 'pkg' else ss.static_file
        import sys
        main_mod = sys.modules.get('__main__')
        had_file = hasattr(main_mod, '__file__')
        saved_file = getattr(main_mod, '__file__', None)
        if case.get('main_dir'):
            # the directory of the application script is an environment parameter like the working directory
            main_mod.__file__ = os.path.join(sub(case['main_dir']), 'main.py')
        saved_env = {k: os.environ.get(k) for k in (case.get('env') or {})}
        for k, v in (case.get('env') or {}).items():
            os.environ[k] = sub(v)
        try:
            with COV:
                resp = fn(name, root_arg, **(case.get('kw') or {}))
        finally:
            for k, v in saved_env.items():
                if v is None:
                    os.environ.pop(k, None)
                else:
                    os.environ[k] = v
            if case.get('main_dir'):
                if had_file:
                    main_mod.__file__ = saved_file
                else:
                    del main_mod.__file__
    finally:
        ss.os = saved_os
        if had_open:
            ss.open = saved_open
        else:
            del ss.open
        os.chdir(old_cwd)
    status = resp.status_code
    body = resp.body
    content = None
    if status in (200, 206) and not isinstance(body, (str, bytes)):
        content = body.read() if hasattr(body, 'read') else b''.join(body)
    for o in (body,):
        cl = getattr(o, 'close', None)
        if cl:
            cl()
    abss = [(p, r) for k, p, r in log if k == 'abspath']
    asked = [[k, cps(p), bool(r)] for k, p, r in log if k != 'abspath']
    if len(abss) != 2:
        # the code no longer normalises root and target with two abspath calls: the tie to the model is broken
        # (reported as a disagreement); the oracle still judges what was opened
        abss = [(None, '?'), (None, '?')]
    # 403 before any file-system question = refused by the prefix test; 403 after a failed access() = not readable
    # (the texts of the error pages are not part of the property)
    if status in SERVE:
        gate = 'serve'
    elif status == 404:
        gate = '404'
    elif status == 403:
        gate = 'perm' if any(k == 'access' and not r for k, _, r in log) else 'denied'
    else:
        gate = 'other-%s' % status
    return dict(status=status, gate=gate, root_norm=cps(abss[0][1] + os.sep), target_norm=cps(abss[1][1]),
                opened=[cps(p) for p in opened], asked=asked,
                served_from=_served_from(content))


def _served_from(content):
    """tree files (relative to the tree top) that contain the delivered bytes"""
    if not content:
        return None
    t = tree()
    out = []
    for d, _, files in os.walk(t):
        for fn in files:
            p = os.path.join(d, fn)
            with open(p, 'rb') as f:
                if content in f.read():
                    out.append(os.path.relpath(p, t))
    return sorted(out)


def project(obs, case):
    if 'gate' not in obs:
        return obs
    # the file-system questions that decide the answer are those about the target; a further probe of some other
    # path (or the same question asked twice) is not a behavioural difference by itself
    asked = []
    for k, p, r in obs['asked']:
        if p == obs['target_norm'] and [k, p] not in asked:
            asked.append([k, p])
    return dict(gate=obs['gate'], root_norm=obs['root_norm'], target_norm=obs['target_norm'],
                opened=obs['opened'], asked=asked)


def _facts(case):
    """real exists/isfile/access of the normalised target, minus the forced-false ones"""
    root, cwd, name = sub(case['root']), sub(case['cwd']), sub(case['name'])
    old = os.getcwd()
    os.chdir(cwd)
    try:
        r = os.path.abspath(root) + os.sep
        t = os.path.abspath(os.path.join(r, name.strip('/\\')))
        ex, isf, acc = os.path.exists(t), os.path.isfile(t), os.access(t, os.R_OK) if '\x00' not in t else False
    finally:
        os.chdir(old)
    d = case['deny']
    return [int(ex and 'exists' not in d), int(isf and 'isfile' not in d), int(acc and 'access' not in d)]


def _notmod(case):
    return case['ims'] is not None and '2099' in case['ims']


def encode(case):
    root, cwd, name = sub(case['root']), sub(case['cwd']), sub(case['name'])
    return (enc_str(cps(cwd)) + enc_str(cps(root)) + enc_str(cps(name)) + _facts(case)
            + [int(case['method'] == 'HEAD'), int(_notmod(case))])


def decode(out, case):
    r = Reader(out)
    root_norm = r.str()
    target = r.str()
    tag = r.int()
    opened = r.list(lambda q: q.str())
    gate = ['denied', '404', 'perm', 'serve'][tag]
    ex, isf, acc = _facts(case)
    asked = []
    if gate != 'denied':
        asked.append(['exists', target])
        if ex:
            asked.append(['isfile', target])
            if isf:
                asked.append(['access', target])
    return dict(gate=gate, root_norm=root_norm, target_norm=target, opened=opened, asked=asked)


def oracle(case, obs):
    """the property, stated on the implementation: nothing outside realpath(root) is opened or served"""
    if 'status' not in obs:
        return 'static_file did not return a response: %s' % obs
    st = obs['status']
    if st not in (200, 206, 304, 403, 404, 416):
        return 'unexpected status %s' % st
    cwd, root = sub(case['cwd']), sub(case['root'])
    rr = os.path.realpath(os.path.join(cwd, root))
    pre = rr if rr.endswith('/') else rr + '/'
    for p in obs['opened']:
        ps = ''.join(map(chr, p))
        rp = os.path.realpath(ps)
        if not rp.startswith(pre):
            return 'open(%r) (real path %r) is outside the root %r' % (ps, rp, rr)
    sf = obs['served_from']
    if sf is not None and (rr + '/').startswith(tree() + '/'):
        if not any(os.path.realpath(os.path.join(tree(), rel)).startswith(pre) for rel in sf):
            return 'the delivered bytes are not the content of a file inside the root (they occur in %s)' % sf
    if st in (403, 404) and obs['opened']:
        return 'status %d although open() was called' % st
    if st in (200, 206) and case['method'] != 'HEAD':
        if len(obs['opened']) != 1:
            return 'status %d with %d open() calls' % (st, len(obs['opened']))
    # a request for something that lexically leaves the root must not be answered from a file
    if st in (200, 206, 416) and obs['opened']:
        ps = ''.join(map(chr, obs['opened'][0]))
        if not os.path.isfile(ps):
            return 'served %r which is not a regular file' % ps
    return None


def nontrivial(case, obs):
    n = case['name']
    tricky = ('..' in n or n.startswith(('/', '\\', '{T}')) or '\\' in n
              or any(s in n for s in ('root2', 'rootX', 'roo/', 'decoy', 'top.txt', 'Root', 'ROOT', 'BASE', 'Base')))
    return tricky and 'gate' in obs


def key(case):
    return (case['root'], case['name'], case['cwd'], case['method'], tuple(case['deny']), case.get('root_kind'),
            case.get('main_dir'), case.get('entry'))


def classify(case, obs):
    r = case['root']
    rk = ('slash-root' if sub(r).strip('/') == '' else 'relative' if not r.startswith(('/', '{T}')) else
          'dotdot' if '..' in r else 'trailing-sep' if r.endswith('/') else 'absolute')
    return '%s/%s/%s' % (rk, obs.get('gate'), obs.get('status'))


def shrink(case):
    n = case['name']
    for i in range(len(n)):
        yield dict(case, name=n[:i] + n[i + 1:])
    if case['method'] != 'GET':
        yield dict(case, method='GET')
    if case['range']:
        yield dict(case, range=None)
    if case['ims']:
        yield dict(case, ims=None)
    if case['deny']:
        yield dict(case, deny=[])
    if case.get('kw'):
        yield dict(case, kw={})
    if case.get('root_kind') == 'path':
        yield dict(case, root_kind='str')
    if case.get('entry') == 'module':
        yield dict(case, entry='pkg')


PREDICATES = {}

API_SURFACE = [
    ('static_file(filename, root)', 'covered: names x roots x working directories over a real tree (corpus, gen, thorough)'),
    ('ombott.static_file (package export) vs static_stream.static_file', 'covered by entry=pkg|module'),
    ('environment (HOME, $VARS) and ~ / $NAME in a root', 'covered by env= with real directories literally named ~, ~x, $HOME, ${DECOY}, ... and a decoy tree at HOME'),
    ('directory of the __main__ script', 'covered by main_dir= (sys.modules[__main__].__file__ set for the call; a same-named tree lies beside it): must not matter'),
    ('root as str / os.PathLike', 'covered by root_kind=str|path (pathlib.Path)'),
    ('root / filename as bytes', 'excluded: TypeError before anything is opened (abspath(bytes) + os.sep)'),
    ('os.getcwd()', 'covered: cwd is a case field (os.chdir), model parameter'),
    ('os.path.exists / isfile / os.access', 'covered: real results recorded, each can be forced false (deny=...)'),
    ('mimetype= / charset= / download=', 'covered as riders kw=... (must not move the gate or what is opened); their headers: C17 kind present'),
    ('request.method HEAD, HTTP_RANGE, HTTP_IF_MODIFIED_SINCE', 'covered: decide whether open() is reached after the gate (model sf_opened); details: C17'),
    ('Globals.request / application binding', 'excluded here: does not influence the gate; covered by C17 via=app|app2'),
    ('several calls in one process', 'covered: all cases run in one process over one tree; static_stream keeps no state'),
    ('symbolic links, Windows separators, check/open races', 'excluded: see TRUSTED / ASSUMPTIONS'),
]

MANIFEST = dict(
    text=('Proof (Coq, all theorems closed under the global context): normpath_normal (every posixpath.normpath result '
          'is "." or <= 2 slashes followed by clean components joined by single "/", no ".." when absolute); '
          'C16_contained (for ALL working directories, roots and names: if static_file\'s prefix test passes, the '
          'normalised target\'s components are the normalised root\'s components followed by a non-empty list of '
          'components none of which is "..", "." or empty - root "/" apart, where the target may be the root directory '
          'itself); C16_sibling_prefix_rejected (a target whose component merely starts with the root\'s last component '
          'is refused); C16_status (failed test => 403, failed exists/isfile => 404, failed access => 403, in all three '
          'nothing is opened; open() is reached only when every test passed, not for HEAD/304; status always in '
          '{200,206,304,403,404,416}) and C16_never_opens_outside_root, for arbitrary exists/isfile/access/content '
          'oracles.  The model of posixpath.join/normpath/abspath and of static_file (coq/model/Static.v, Range.v) is '
          'tied to /repo and CPython on every run by real calls over a real directory tree (root, siblings sharing the '
          'prefix, decoys beside and above) with open(), abspath, exists, isfile and access recorded in the module '
          'namespace; an independent oracle checks realpath containment of everything opened and delivered.'),
    note=('Trusted: Coq kernel + vm_compute; extraction; the Python harness; exists/isfile/access are arbitrary '
          'functions in the theorems.  Not covered: symbolic links inside the root, Windows paths, check/open races.'),
    technique='Coq proof (component-stack invariant of normpath, prefix-of-join lemma) + model/implementation correspondence',
    design_ref='DESIGN.md section 4, C16',
)
