"""C15 — cookies round-trip; forged signed cookies are never deserialised."""
import base64
import hashlib
import hmac
import pickle

from props.common import enc_str, enc_list, Reader, environ

ID = 'C15'
COQ_MODEL = 'model.Cookie'
COQ_CORR = 'corr_C15'
N_QUICK = 2600
N_THOROUGH = 12000
THOROUGH_EXHAUSTIVE = False
RULE = ('cases = corpus + random scenarios: 1-2 cookies set with Response.set_cookie (names: legal tokens, '
        '$-prefixed, reserved attribute names, illegal; plain values over separators, quotes, backslashes, controls, '
        '128-255, > 255, empty, 4096/4097 long; signed values = nested picklable objects; secrets incl. non-ASCII, '
        'empty), the emitted Set-Cookie values become the Cookie header of a new Request, optionally edited by an '
        'attacker (single-byte substitution with 8 byte values per position, deletion, truncation, insertion, '
        'signature swap between two cookies, replay of another cookie under this name, sum- / multiset-preserving '
        'alterations of the signature (adjacent swap, +k/-k on two characters or on two decoded bytes, rotation, '
        'reversal), reading with another '
        'secret), then Request.get_cookie and Request.cookies; in 30% of the scenarios 1-3 further get_cookie reads on '
        'the SAME request (names of the cookies sent, secrets from right / another / empty / None), each compared with '
        'a fresh request; pickle.loads observed through a recording proxy. '
        'Plus response-side sequences (8%): set_cookie / delete_cookie on a Response, copy(HTTPResponse), a raised or '
        'returned HTTPResponse / HTTPError with cookies of its own applied to it (directly and through an Ombott app '
        'whose before_request hook sets the cookies), further '
        'set / delete on the copy or the original, both header lists emitted and each read back through a new Request. '
        'Plus primitive streams: http.cookies._quote/_unquote on arbitrary text, SimpleCookie parsing of arbitrary '
        'and malformed Cookie headers (through Request.cookies), base64 encode / lenient decode, HMAC-MD5. '
        'thorough adds every single-byte substitution (8 values), deletion and truncation at every position of '
        'three signed cookies. non-trivial = scenario whose cookie value needs quoting or that was tampered with, '
        'or a primitive case with a quote, backslash, separator or non-ASCII character')
TRUSTED = [
    'section variables of coq/model/Cookie.v: mac (HMAC-MD5: theorems hold for every function; acceptance of an '
    'altered payload or of another key is REDUCED to a MAC collision, unforgeability itself is not proved), '
    'dumps/loads (pickle; C15_signed_roundtrip assumes loads (dumps n v) = LPair n v)',
    'modelled, not verified (tied by correspondence only): CPython 3.12 http.cookies (_quote, _unquote, '
    '_CookiePattern as a deterministic scanner, Morsel.set, BaseCookie.__parse_string), base64 (lib/Base64.v), '
    'HMAC-MD5 (lib/HmacMd5.v, used by the correspondence only), UTF-8 (lib/Utf8.v)',
    'not modelled in C15: cookie options other than those of delete_cookie (they are modelled for C14, '
    'model/Headers.v, and do not come back from the client); BaseResponse.copy of cookies whose names start with $ '
    'or whose option values lie outside the cookie token alphabet (SimpleCookie.load drops / rejects them); '
    'CookieDict with encodings other than utf8 / latin1; direct mutation of request.environ or of the cached '
    'CookieDict; pinned to CPython 3.12.1 http.cookies (_unquote was rewritten in later 3.12 releases)',
    'the WSGI server is assumed to hand the Cookie header to the application as the Latin-1 decoding of the '
    'bytes the client sent back (PEP 3333 native string)',
]
# AUDIT_BRIEF.md item 2: every public name of the anchored code that can influence what is read back
API_SURFACE = [
    ('common_helpers.cookie_encode(data, key)', 'covered by scn (through set_cookie with a secret: str and bytes secrets, '
                                                'non-ASCII and unencodable secrets)'),
    ('common_helpers.cookie_decode(data, key)', 'covered by scn reads with a secret: untouched, every tamper kind, '
                                                'other secret, plain value, re-signed messages (bad base64, bad pickle)'),
    ('common_helpers.tob / touni', 'covered (str and bytes secrets; unencodable secret raises)'),
    ('BaseResponse.set_cookie(name, value, secret)', 'covered by scn / resp (name classes, value types, 4096 limit, '
                                                     'TypeError without secret)'),
    ('BaseResponse.set_cookie(**options)', 'excluded here: options do not come back from the client; covered by C14 '
                                           '(every option key / value type, F35)'),
    ('BaseResponse.delete_cookie', 'covered by resp (expired empty cookie reads as absent; attributes stay on the morsel)'),
    ('BaseResponse.copy', 'covered by resp (ops on the copy and on the original after copy, second copy)'),
    ('BaseResponse.headerlist (Set-Cookie part)', 'covered by scn / resp (transcoding, one header per cookie, dict order)'),
    ('HTTPResponse.apply (cookies)', 'excluded here: covered by C14 op apply / apply_err'),
    ('PropsMixin.cookies', 'covered by scn / parse (any Cookie header incl. malformed, absent, empty; cached; '
                           'invalidated by request[HTTP_COOKIE] = ..., del, __init__)'),
    ('PropsMixin.get_cookie(key, default, secret)', 'covered by scn: 1-4 reads per request, default sentinel, '
                                                    'secret None / empty / right / other / bytes'),
    ('PropsMixin.headers (WSGIHeaderDict)', 'covered by read @hdr (getitem/get/raw/in/keys/len/iter, read-only setters, '
                                            'CGI keys)'),
    ('CookieDict item access / get / in', 'covered by read @item'),
    ('CookieDict.getunicode / __getattr__', 'covered by read @attr (utf8, latin1, default, dunder names)'),
    ('CookieDict.decode(encoding)', 'covered by read @decode (None, latin1; second decode; re-decode with another '
                                    'encoding raises)'),
    ('CookieDict._fix for non-str values', 'excluded: SimpleCookie only produces str values'),
    ('CookieDict.input_encoding (class attribute)', 'excluded: only changed by the application; default utf8 covered'),
    ('BaseRequest.__setitem__/__delitem__/__init__/copy', 'covered by reads @sethdr / @reinit / @copyreq'),
    ('config / setup()', 'excluded: no configuration key influences cookies'),
    ('time zone / locale', 'excluded: no date is parsed on the cookie read path (expires rendering: C14, UTC only)'),
]
ASSUMPTIONS = ['the client returns the cookie pair exactly as emitted in Set-Cookie (name=value, no attributes)',
               'HMAC-MD5 is unforgeable (only used to read the reduction theorems as the property)']

SENTINEL = object()


# ----------------------------------------------------------------------------
# helpers
# ----------------------------------------------------------------------------

def cps(s):
    return [ord(c) for c in s]


def uncps(l):
    return ''.join(chr(c) for c in l)


def opt_str(s):
    return [0] if s is None else [1] + enc_str(cps(s))


class Point(__import__('collections').namedtuple('Point', 'x y')):
    """a module-level namedtuple: pickled by reference to props.C15.Point"""
    __slots__ = ()


class Colour(__import__('enum').Enum):
    RED = 1
    GREEN = 2


def mat(v):
    """materialise a case value: JSON cannot carry tuples, sets, bytes or instances of library / user classes,
    so cases describe them as {'$py': kind, 'a': args}"""
    if isinstance(v, list):
        return [mat(x) for x in v]
    if isinstance(v, dict):
        if '$py' in v:
            import datetime
            import decimal
            import fractions
            import uuid
            k, a = v['$py'], v.get('a')
            if k == 'tuple':
                return tuple(mat(x) for x in a)
            if k == 'frozenset':
                return frozenset(mat(x) for x in a)
            if k == 'set':
                return set(mat(x) for x in a)
            if k == 'bytes':
                return bytes(a)
            if k == 'complex':
                return complex(a[0], a[1])
            if k == 'Fraction':
                return fractions.Fraction(a[0], a[1])
            if k == 'Decimal':
                return decimal.Decimal(a)
            if k == 'UUID':
                return uuid.UUID(int=a)
            if k == 'datetime':
                return datetime.datetime(*a)
            if k == 'date':
                return datetime.date(*a)
            if k == 'timedelta':
                return datetime.timedelta(seconds=a)
            if k == 'Point':
                return Point(mat(a[0]), mat(a[1]))
            if k == 'Colour':
                return Colour(a)
            raise ValueError(v)
        return {kk: mat(x) for kk, x in v.items()}
    return v


def pk_of(c):
    return list(pickle.dumps((c['name'], mat(c['value'])), -1))


def as_obj(c):
    """True when the model represents the value by its pickle (CObj)"""
    return bool(c['secret']) or not isinstance(c['value'], str)


def find(l, x, start=0):
    try:
        return l.index(x, start)
    except ValueError:
        return -1


def pm_edit(modulus, p, q, k, l):
    if p == q:
        return l
    l = list(l)
    l[q] = (l[q] + modulus - k % modulus) % modulus
    l[p] = (l[p] + k) % modulus
    return l


def sig_edit(sub, a, repl, sig):
    n = len(sig)
    if n == 0:
        return sig
    r0 = repl[0] if len(repl) > 0 else 0
    k = repl[1] if len(repl) > 1 else 1
    p, q = a % n, r0 % n
    if sub == 0:
        if n < 2:
            return sig
        i = a % (n - 1)
        return sig[:i] + [sig[i + 1], sig[i]] + sig[i + 2:]
    if sub == 1:
        return pm_edit(128, p, q, k, sig)
    if sub == 2:
        return sig[p:] + sig[:p]
    if sub == 3:
        return sig[::-1]
    import binascii
    try:
        bs = list(base64.b64decode(bytes(sig)))
    except (binascii.Error, ValueError):
        return sig
    m = len(bs)
    if m == 0:
        return sig
    return list(base64.b64encode(bytes(pm_edit(256, a % m, r0 % m, k, bs))))


def tamper(t, wires, cookies=()):
    """the attacker's edit of the Cookie header; same definition as Cookie.v:tamper"""
    if t['kind'] == 4 and cookies and cookies[0]['secret']:
        # an "attacker" who knows the secret re-signs an arbitrary message M = t['repl']
        from http.cookies import _quote
        c = cookies[0]
        try:
            k = c['secret'].encode('utf8')
        except UnicodeEncodeError:
            k = None
        if k is not None:
            m = bytes(t['repl'])
            val = b'!' + base64.b64encode(hmac.new(k, m, digestmod=hashlib.md5).digest()) + b'?' + m
            return cps(c['name']) + [61] + cps(_quote(val.decode('latin1')))
    hdr = []
    for i, w in enumerate(wires):
        if i:
            hdr += [59, 32]
        hdr += w
    k = t['kind']
    if k == 6:
        # a foreign cookie pair (set by another application on the same host) travels in the same header
        pair = list(t['repl'])
        if t['b'] == 0:
            return pair + [59, 32] + hdr
        if t['b'] == 1:
            return hdr + [59, 32] + pair
        if not wires:
            return pair
        out = list(wires[0]) + [59, 32] + pair
        for w in wires[1:]:
            out += [59, 32] + list(w)
        return out
    if k == 8 and wires:
        # text appended to the cookie VALUE: inserted before the closing quote of the first cookie
        w1 = list(wires[0])
        return w1[:-1] + list(t['repl']) + w1[-1:] if w1 else w1
    if k == 7:
        # one character of the header written as its percent escape
        if not hdr:
            return hdr
        p = t['a'] % len(hdr)
        c = hdr[p]
        if c >= 256:
            return hdr
        return hdr[:p] + cps('%%%02X' % c) + hdr[p + 1:]
    if k == 5 and wires:
        # alterations of the signature that keep the multiset or the sum of its bytes (same as Cookie.v:sig_edit)
        w1 = wires[0]
        p1 = find(w1, 33)
        q1 = find(w1, 63, p1 + 1) if p1 >= 0 else -1
        if p1 < 0 or q1 < 0:
            return hdr
        return w1[:p1 + 1] + sig_edit(t['b'], t['a'], list(t['repl']), w1[p1 + 1:q1]) + w1[q1:]
    if k == 1:
        a = t['a'] % (len(hdr) + 1)
        return hdr[:a] + list(t['repl']) + hdr[a + t['b']:]
    if k in (2, 3) and len(wires) >= 2:
        w1, w2 = wires[0], wires[1]
        if k == 2:
            def region(w):
                p = find(w, 33)
                if p < 0:
                    return None
                q = find(w, 63, p + 1)
                if q < 0:
                    return None
                return p + 1, q
            r1, r2 = region(w1), region(w2)
            if r1 and r2:
                return w1[:r1[0]] + w2[r2[0]:r2[1]] + w1[r1[1]:]
            return hdr
        e1, e2 = find(w1, 61), find(w2, 61)
        if e1 >= 0 and e2 >= 0:
            return w1[:e1 + 1] + w2[e2 + 1:]
    return hdr


class PickleProxy:
    """stands in for the `pickle` name inside ombott.common_helpers: records what reaches the unpickler"""

    def __init__(self):
        self.calls = []

    def dumps(self, *a, **kw):
        return pickle.dumps(*a, **kw)

    def __getattr__(self, name):                 # everything else (Unpickler, UnpicklingError, ...) is the real module's
        return getattr(pickle, name)

    def loads(self, b, *a, **kw):
        self.calls.append(list(bytes(b)))
        return pickle.loads(b, *a, **kw)


def jeq(a, b):
    return type(a) is type(b) and a == b


# ----------------------------------------------------------------------------
# cases
# ----------------------------------------------------------------------------

NO_T = dict(kind=0, a=0, b=0, repl=[])


def scn(cookies, tamper_=None, rname=None, rsecret='__same__', reads=None):
    cookies = [dict(name=n, value=v, secret=s) for (n, v, s) in cookies]
    if rname is None:
        rname = cookies[0]['name']
    if rsecret == '__same__':
        rsecret = cookies[0]['secret']
    c = dict(mode='scn', cookies=cookies, tamper=dict(tamper_ or NO_T), rname=rname, rsecret=rsecret)
    if reads:
        c['reads'] = [list(r) for r in reads]
    return c


def corpus():
    S = 's3cr3t'
    obj = {'user': 'bob', 'roles': ['a', 'b'], 'n': 3, 'x': None}
    return [
        scn([('a', 'b', None)]),
        scn([('a', '', None)]),                              # F18b: empty value reads as absent
        scn([('a', '\u044f', None)]),                        # F18a: > U+00FF comes back as mojibake
        scn([('a', 'x\u20acy', None)]),
        scn([('$a', 'b', None)]),                            # F18c: $-names are dropped by the parser
        scn([('a', 'x y;z,=', None)]),
        scn([('a', 'q"\\z\\012', None)]),
        scn([('a', '\n\r\x00\x7f\x80\xff', None)]),
        scn([('a', '\xe9', None)]),
        scn([('a', '\xc2\xa35 off', None)]),                  # Latin-1 text that happens to be valid UTF-8: must
        scn([('a', 'r\xc3\xa9sum\xc3\xa9', None)]),           # come back verbatim (seeded change: re-decoding on read)
        scn([('a', '\xe2\x82\xac', None)]), scn([('a', '\xf0\x9f\x98\x80!', None)]),
        scn([('a', '"', None)]), scn([('a', '""', None)]), scn([('a', '\\', None)]),
        scn([('a', 'Wed, 01-Jan-2020 00:00:00 GMT', None)]),
        scn([('a', 'a' * 4096, None)]), scn([('a', 'a' * 4097, None)]),
        scn([('path', 'b', None)]), scn([('Max-Age', 'b', None)]), scn([('a=b', 'c', None)]),
        scn([('', 'c', None)]), scn([('a b', 'c', None)]), scn([('\xe9', 'c', None)]),
        scn([('a', '\ud800', None)]),                        # lone surrogate: headerlist raises
        scn([('a', 5, None)]),                               # TypeError: secret missing
        scn([('a', 'b', '')]),                               # empty secret = no secret
        scn([('a', obj, S)]),
        scn([('a', 'text', S)]), scn([('a', '', S)]), scn([('a', None, S)]), scn([('a', 0, S)]),
        # any picklable value: containers JSON cannot carry, library classes, a namedtuple, an enum member (nested too)
        *[scn([('a', v, S)]) for v in PY_VALUES],
        scn([('a', {'who': PY_VALUES[11], 'n': [PY_VALUES[5], PY_VALUES[12]]}, S)]),
        scn([('a', obj, '\u043a\u043b\u044e\u0447')]),
        scn([('a', obj, '\ud800')]),                         # secret cannot be encoded
        scn([('a', obj, S)], rsecret='other'),               # other secret
        scn([('a', obj, S)], rsecret=None),                  # signed cookie read without a secret: raw text
        scn([('a', 'plain', None)], rsecret=S),              # plain cookie read with a secret: absent
        scn([('a', obj, S)], dict(kind=1, a=10, b=1, repl=[65])),      # one signature byte replaced
        scn([('a', obj, S)], dict(kind=1, a=40, b=1, repl=[65])),      # one payload byte replaced
        scn([('a', obj, S)], dict(kind=1, a=30, b=1, repl=[])),        # deletion
        scn([('a', obj, S)], dict(kind=1, a=50, b=4000, repl=[34])),   # truncation, re-quoted
        scn([('a', obj, S)], dict(kind=1, a=28, b=0, repl=[61])),      # insertion
        scn([('a', obj, S), ('b', [1, 2], S)], dict(kind=2, a=0, b=0, repl=[])),    # signature swap
        scn([('a', obj, S), ('b', [1, 2], S)], dict(kind=3, a=0, b=0, repl=[])),    # replay b's value as a
        scn([('a', obj, S), ('a', [1, 2], S)]),                                     # same name twice
        # cookie names that look like cookie attributes but are not attributes of the running http.cookies
        scn([('priority', 'High', None)]), scn([('Partitioned', obj, S)]), scn([('PRIORITY', 'x', None), ('sid', obj, S)], rname='sid'),
        scn([('sid', obj, S)], dict(kind=6, a=0, b=0, repl=cps('priority=High'))),       # a foreign pair first in the header
        scn([('sid', obj, S)], dict(kind=6, a=0, b=1, repl=cps('partitioned=1'))),       # ... last
        scn([('sid', obj, S), ('b', 'two', None)], dict(kind=6, a=0, b=2, repl=cps('Priority=x'))),   # ... in the middle
        scn([('sid', obj, S)], dict(kind=6, a=0, b=0, repl=cps('path=/'))),              # a REAL attribute word: the parser gives up
        scn([('a', 'x\u0145y', None)]), scn([('a', '\u5145', None), ('b', 'two', None)], rname='b'),   # UTF-8 with byte 0x85
        scn([('a', 'v\x85w\x0b\x1c', None)]), scn([('a', '\u2005', None), ('b', obj, S)], rname='b', rsecret=S),
        # a genuine signed cookie with one character appended to its value (legally quoted)
        scn([('a', obj, S)], dict(kind=8, a=0, b=0, repl=cps('\\012'))), scn([('a', obj, S)], dict(kind=8, a=0, b=0, repl=cps('\\015'))),
        scn([('a', obj, S)], dict(kind=8, a=0, b=0, repl=cps('='))), scn([('a', obj, S)], dict(kind=8, a=0, b=0, repl=cps('\\000'))),
        # percent signs are ordinary characters in a cookie: nothing is percent-decoded
        scn([('a', '100%25 %41%zz%', None)]), scn([('a', '%C3%A9', None)]), scn([('a', '%', None)]),
        scn([('a', obj, S)], dict(kind=7, a=10, b=0, repl=[])),                         # a signature character as %XX
        scn([('a', obj, S)], dict(kind=7, a=40, b=0, repl=[])),                         # a payload character as %XX
        # signature alterations that keep the sum / the multiset of its bytes (a compare that adds up differences)
        scn([('a', obj, S)], dict(kind=5, a=3, b=1, repl=[9, 1])),      # +1 on one character, -1 on another
        scn([('a', obj, S)], dict(kind=5, a=0, b=0, repl=[])),          # two adjacent characters swapped
        scn([('a', obj, S)], dict(kind=5, a=5, b=2, repl=[])),          # rotated
        scn([('a', obj, S)], dict(kind=5, a=0, b=3, repl=[])),          # reversed
        scn([('a', obj, S)], dict(kind=5, a=2, b=4, repl=[11, 3])),     # +3 / -3 on two decoded MAC bytes
        scn([('a', 1, S)], dict(kind=4, a=0, b=0, repl=cps('gAWV?CQAAAAAAAACMAWGUSwGGlC4='))),   # re-signed, '?' in the message
        scn([('a', 1, S)], dict(kind=4, a=0, b=0, repl=cps('gAWVCQAAAAAAAACMAWGUSwGGlC4'))),     # re-signed, bad padding
        scn([('a', 1, S)], dict(kind=4, a=0, b=0, repl=cps('gAWVCQAAAAAAAACMAWGUSwGG'))),        # re-signed, truncated pickle
        scn([('a', 1, S)], dict(kind=4, a=0, b=0, repl=[])),
        scn([('a', 'one', None), ('b', 'two', None)], rname='b'),
        # several reads on one request: right secret then a foreign one; a new secret then the old one (key rotation)
        scn([('a', obj, S)], reads=[('a', 'other')]),
        scn([('a', obj, S)], rsecret='new-secret', reads=[('a', S)]),
        scn([('a', obj, S), ('b', 'plain', None)], reads=[('a', None), ('b', S), ('a', S), ('b', None)]),
        # the other read paths of request.cookies, and updates of the Cookie header between reads
        scn([('a', 'caf\xe9', None)], reads=[['@item', 'a'], ['@attr', 'a', 'utf8'], ['@attr', 'a', 'latin1'], ['@decode', None],
                                             ['@decode', 'latin1'], ['@hdr']]),                 # F18d: attribute read of Latin-1
        scn([('a', '\u044f', None)], reads=[['@item', 'a'], ['@attr', 'a', 'utf8'], ['@decode', None]]),   # attribute read undoes F18a
        scn([('a', '', None)], reads=[['@item', 'a'], ['@attr', 'a', 'utf8']]),
        scn([('a', 'one', None)], reads=[['@sethdr', 'a=two; b=3'], ('a', None), ['@item', 'b'], ['@sethdr', None], ('a', None),
                                         ['@hdr'], ['@reinit', 'a="thr\\145e"'], ['@attr', 'a', 'utf8'], ['@copyreq'], ('a', None),
                                         ['@sethdr', 'a=two; b=3'], ['@sethdr', 'a=two; b=3'], ['@decode', None]]),
        scn([('a', obj, S)], reads=[['@copyreq'], ('a', S), ['@sethdr', 'a=x@y'], ['@item', 'a'], ['@decode', None], ['@hdr']]),
        # one Request object, the next request's environ handed over by assignment (req.environ = env2)
        scn([('a', obj, S)], reads=[('a', S), ['@assign', 'a=!forged?gAWVCQAAAAAAAACMAWGUSwGGlC4='], ('a', S), ['@item', 'a'],
                                    ['@assign', 'b=2'], ('a', S), ['@item', 'b'], ['@hdr']]),
        scn([('a', 'one', None)], reads=[['@assign', 'a=two'], ('a', None), ['@attr', 'a', 'utf8'], ['@assign', ''], ('a', None)]),
        # a response and its copy (redirect() copies the response): later changes must not leak either way
        dict(mode='resp', ops=[['set', 'r', 'a', 'v1', None], ['copy'], ['set', 'c', 'a', 'v2', None]],
             reads=[['a', None]]),
        dict(mode='resp', ops=[['set', 'r', 'a', 'v1', None], ['copy'], ['del', 'c', 'a']], reads=[['a', None]]),
        dict(mode='resp', ops=[['set', 'r', 'a', {'u': 1}, S], ['set', 'r', 'b', 'x y', None], ['copy'],
                               ['set', 'r', 'a', [2], S], ['del', 'r', 'b'], ['set', 'c', 'z', 'new', None]],
             reads=[['a', S], ['b', None], ['z', None]]),
        dict(mode='resp', ops=[['del', 'r', 'b'], ['set', 'r', 'b', 'again', None], ['set', 'r', 'a', '\xe9;"', None],
                               ['copy'], ['set', 'c', 'x', 'y', None]], reads=[['a', None], ['b', None]]),
        dict(mode='resp', ops=[['set', 'c', 'a', 'early', None], ['copy'], ['set', 'c', 'a b', 'bad', None]],
             reads=[['a', None]]),
        # a hook re-issues "session" on the application's response, the handler raises a redirect with a NEW signed
        # "session": the client must get the raised one's (HTTPResponse.apply replaces the jar)
        dict(mode='resp', wsgi=True, ops=[['set', 'r', 'session', {'u': 'old'}, S], ['set', 'r', 'lang', 'en', None],
                                          ['apply', 'HTTPResponse', 'raise', [['session', {'u': 'new'}, S]]]],
             reads=[['session', S], ['lang', None]]),
        dict(mode='resp', wsgi=True, ops=[['set', 'r', 'a', 'hook', None], ['apply', 'HTTPError', 'return', [['a', 'err', None]]]],
             reads=[['a', None]]),
        dict(mode='resp', wsgi=True, ops=[['set', 'r', 'a', 'hook', None], ['apply', 'HTTPResponse', 'return', []]],
             reads=[['a', None]]),
        dict(mode='resp', ops=[['set', 'r', 'a', 'v1', None], ['apply', 'HTTPResponse', 'raise', [['a', 'v2', None], ['b', [1], S]]],
                               ['set', 'r', 'a', 'v3', None]], reads=[['a', None], ['b', S]]),
        dict(mode='resp', wsgi=True, ops=[['set', 'r', 'a', 'v', None]], reads=[['a', None]]),
        dict(mode='quote', s=''), dict(mode='quote', s='a"b\\c;\n\xff\u0100'), dict(mode='quote', s='"a\\"'),
        dict(mode='quote', s='"\\012\\0\\\n\\"'), dict(mode='quote', s='"'), dict(mode='quote', s='"\\'),
        dict(mode='quote', s='"\\400\\377\\38"'),
        dict(mode='parse', s='a=b; c=d'), dict(mode='parse', s='a=b;c="d e";f'),
        dict(mode='parse', s='$Version=1; a=b; $Path=/'), dict(mode='parse', s='a=b; $foo=1'),
        dict(mode='parse', s='a=b; path=/; secure; httponly=1'), dict(mode='parse', s='path=/; a=b'),
        dict(mode='parse', s='a=b; domain'), dict(mode='parse', s='a@b=c'), dict(mode='parse', s='a= "unterminated'),
        dict(mode='parse', s='a=  b   c=d'), dict(mode='parse', s='a==b'), dict(mode='parse', s='=b'),
        dict(mode='parse', s='a=Wed, 01-Jan-2020 00:00:00 GMT; b=c'), dict(mode='parse', s='a=Wed, 01 Jan 20 00:00:00 GMT'),
        dict(mode='parse', s='a=Wed, 01-Jan-2020  00:00:00 GMT x'),
        dict(mode='parse', s='a="x\\"y"; b="\\'), dict(mode='parse', s='a=b\n'), dict(mode='parse', s=' \t a = b \t;'),
        dict(mode='parse', s='a=b c'), dict(mode='parse', s='a=[1]; b={2}'), dict(mode='parse', s='a="b";;c=d'),
        dict(mode='parse', s='a=1; a=2; b=3; a=4'), dict(mode='parse', s='a'), dict(mode='parse', s='a;b=c'),
        dict(mode='parse', s='a="\\\n"'), dict(mode='parse', s='\xe9=1'), dict(mode='parse', s='a=\xe9'),
        dict(mode='b64', b=[]), dict(mode='b64', b=cps('QQ==')), dict(mode='b64', b=cps('Q=Q=')),
        dict(mode='b64', b=cps('QUJD=x')), dict(mode='b64', b=[0, 255, 128, 65]),
        dict(mode='hmac', k=[], m=[]), dict(mode='hmac', k=cps('key'), m=cps('The quick brown fox')),
        dict(mode='hmac', k=list(range(70)), m=list(range(200))),
    ]


LEGAL = "abcdefghijklmnopqrstuvwxyzABCDEFGHIJKLMNOPQRSTUVWXYZ0123456789!#$%&'*+-.^_`|~:"
SEPS = ' ()/<=>?@[]{}'
NASTY = '";,\\\n\r\t\x00\x7f\x80\xe9\xff'


def gen_name(rng):
    r = rng.random()
    if r < 0.7:
        return ''.join(rng.choice(LEGAL[:62] + '-_.') for _ in range(rng.randrange(1, 6)))
    if r < 0.8:
        return ''.join(rng.choice(LEGAL) for _ in range(rng.randrange(1, 5)))
    if r < 0.85:
        return '$' + ''.join(rng.choice(LEGAL[:52]) for _ in range(rng.randrange(0, 3)))
    if r < 0.9:
        return rng.choice(ATTR_WORDS)
    return rng.choice(['', 'a b', 'a=b', 'a;b', '\xe9', 'a"', 'a,b', 'a\u0100', '[a]', 'a@b', 'a/b', 'a?'])


def gen_text(rng, maxlen=12):
    r = rng.random()
    n = rng.randrange(0, maxlen + 1)
    if r < 0.25:
        al = LEGAL
    elif r < 0.5:
        al = LEGAL[:20] + SEPS + NASTY
    elif r < 0.6:
        al = 'ab' + NASTY + '"\\01234567'
    elif r < 0.7:                                # literal percent signs and things that look like escapes
        return ''.join(rng.choice(['%', '%25', '%41', '%C3%A9', '%zz', '%2', 'a', '1', '%3B', '%22', '%0A'])
                       for _ in range(rng.randrange(1, 5)))
    elif r < 0.85:
        # incl. code points whose UTF-8 form contains the byte 0x85 (NEL under Latin-1): U+0145, U+5145, U+2005, U+1F145
        al = 'ab' + ''.join(chr(c) for c in (0x80, 0xff, 0x100, 0x44f, 0x20ac, 0x1f600, 0x7ff, 0x800, 0xffff,
                                             0x145, 0x5145, 0x2005, 0x1f145, 0x85, 0x1c, 0x0b, 0x2028))
    else:
        return ''.join(chr(rng.choice([rng.randrange(0, 256), rng.randrange(0, 0x3000), rng.randrange(32, 127)]))
                       for _ in range(n)).replace('\ud800', 'x')
    return ''.join(rng.choice(al) for _ in range(n))


def gen_mojibake(rng):
    """text below U+0100 whose characters form valid UTF-8 when read as bytes: the UTF-8 encoding of random
    text (2-, 3- and 4-byte sequences) re-read as Latin-1, mixed with ASCII.  Inside the hypothesis of
    C15_plain_roundtrip; any "helpful" re-decoding on the request side corrupts exactly these values."""
    parts = []
    for _ in range(rng.randrange(1, 5)):
        r = rng.random()
        if r < 0.35:
            parts.append(''.join(rng.choice(LEGAL[:62] + ' -;,="') for _ in range(rng.randrange(0, 5))))
        else:
            cp = rng.choice([rng.randrange(0x80, 0x800), rng.randrange(0x80, 0x100), rng.randrange(0x800, 0xd800),
                             rng.randrange(0xe000, 0x10000), rng.randrange(0x10000, 0x110000)])
            parts.append(chr(cp).encode('utf8').decode('latin1'))
    s = ''.join(parts)
    return s if any(ord(ch) > 127 for ch in s) else s + '\xc2\xa3'


PY_VALUES = [
    {'$py': 'tuple', 'a': [1, 'x', None]}, {'$py': 'frozenset', 'a': [1, 2]}, {'$py': 'set', 'a': ['a']},
    {'$py': 'bytes', 'a': [0, 255, 10]}, {'$py': 'complex', 'a': [1.5, -2.0]},
    {'$py': 'Fraction', 'a': [1, 3]}, {'$py': 'Decimal', 'a': '1.10'}, {'$py': 'UUID', 'a': 2 ** 100 + 7},
    {'$py': 'datetime', 'a': [2030, 1, 2, 3, 4, 5]}, {'$py': 'date', 'a': [1999, 12, 31]}, {'$py': 'timedelta', 'a': 90},
    {'$py': 'Point', 'a': [1, 'y']}, {'$py': 'Colour', 'a': 2},
    {'$py': 'Point', 'a': [{'$py': 'Fraction', 'a': [2, 7]}, [{'$py': 'Colour', 'a': 1}]]},
]


def gen_obj(rng, depth=0):
    r = rng.random()
    if r < 0.12:                                # values JSON cannot carry: containers, library and user classes
        return rng.choice(PY_VALUES)
    if depth > 2 or r < 0.35:
        return rng.choice([None, True, False, 0, 1, -7, 2 ** 40, '', 'x', 'a?b!c', '\u044f', 'bob', 1.5])
    if r < 0.6:
        return [gen_obj(rng, depth + 1) for _ in range(rng.randrange(0, 4))]
    if r < 0.85:
        return {rng.choice(['a', 'b', 'user', 'id', 'k?']): gen_obj(rng, depth + 1) for _ in range(rng.randrange(0, 4))}
    return gen_text(rng, 20)


SECRETS = ['s3cr3t', 'k', 'another secret', '\u043a\u043b\u044e\u0447', 'x' * 70]
SUBST = [0, 33, 34, 59, 61, 63, 65, 255]          # the 8 substitution values of the quick tier


def mutate_msg(rng, c):
    """a message for the re-signing attacker: the genuine base64 text with junk the lenient decoder skips,
    or cut at the end (binascii.Error / truncated pickle)"""
    m = list(base64.b64encode(pickle.dumps((c[0], mat(c[1])), -1)))
    r = rng.random()
    if r < 0.5:
        for _ in range(rng.randrange(1, 4)):
            m.insert(rng.randrange(0, len(m) + 1), rng.choice([63, 63, 33, 32, 10, 45, 95, 46]))
    elif r < 0.8:
        m = m[:len(m) - rng.choice([1, 1, 2, 3, 4, 5, 8])]
    else:
        m = [rng.choice([63, 65, 66, 61, 33]) for _ in range(rng.randrange(0, 9))]
    return m


def gen_sig_edit(rng):
    """sum- or multiset-preserving alterations of the signature: on the base64 text and on the decoded bytes"""
    sub = rng.choice([0, 0, 1, 1, 1, 2, 3, 4, 4])
    return dict(kind=5, a=rng.randrange(0, 400), b=sub, repl=[rng.randrange(0, 64), rng.choice([1, 1, 2, 3, 7])])


ATTR_WORDS = ['path', 'domain', 'expires', 'max-age', 'secure', 'httponly', 'samesite', 'version', 'comment',
              'priority', 'partitioned', 'Priority', 'PARTITIONED', 'Path', 'SameSite', 'sameparty', 'Max-Age']
STOCK_RESERVED = {'expires', 'path', 'comment', 'domain', 'max-age', 'secure', 'httponly', 'version', 'samesite'}


def gen_foreign(rng):
    """a cookie pair of another application in the same header, named like a cookie attribute (or not)"""
    name = rng.choice(ATTR_WORDS + ['priority', 'partitioned', 'other', 'zz'])
    val = rng.choice(['High', '1', '/', 'x', '"q v"', 'Lax'])
    return dict(kind=6, a=0, b=rng.choice([0, 0, 1, 2]), repl=cps(name + '=' + val))


def gen_tamper(rng, two):
    r = rng.random()
    a = rng.randrange(0, 400)
    if r < 0.2:
        return gen_sig_edit(rng)
    if r < 0.32:
        return gen_foreign(rng)
    if r < 0.45:
        return dict(kind=7, a=a, b=0, repl=[])
    if r < 0.55:                                # genuine cookie + one appended character
        return dict(kind=8, a=0, b=0, repl=cps(rng.choice(['\\012', '\\012', '\\015', '\\000', ' ', '=', 'A', '\\012\\012', '\\"'])))
    if r < 0.45:
        return dict(kind=1, a=a, b=1, repl=[rng.choice(SUBST + [rng.randrange(256)])])
    if r < 0.55:
        return dict(kind=1, a=a, b=1, repl=[])
    if r < 0.65:
        return dict(kind=1, a=a, b=5000, repl=rng.choice([[], [34]]))
    if r < 0.75:
        return dict(kind=1, a=a, b=0, repl=[rng.choice(SUBST)])
    if r < 0.8:
        return dict(kind=1, a=a, b=rng.randrange(2, 6), repl=[rng.randrange(256) for _ in range(rng.randrange(0, 5))])
    if two:
        return dict(kind=rng.choice([2, 3]), a=0, b=0, repl=[])
    return dict(kind=1, a=a, b=1, repl=[rng.choice(SUBST)])


def gen_scn(rng):
    r = rng.random()
    if r < 0.45:                                   # plain round trip
        n = gen_name(rng)
        cookies = [(n, gen_mojibake(rng) if rng.random() < 0.2 else gen_text(rng), rng.choice([None, None, None, '']))]
        if rng.random() < 0.2:
            cookies.append((gen_name(rng) if rng.random() < 0.7 else n, gen_text(rng), None))
        c = scn(cookies, rname=rng.choice(cookies)[0])
        if rng.random() < 0.1:
            c['rsecret'] = 's3cr3t'
        if rng.random() < 0.25:
            c['tamper'] = gen_tamper(rng, len(cookies) > 1)
        if rng.random() < 0.03:
            c['cookies'][0]['value'] = rng.choice(['a' * 4096, 'a' * 4097, ';' * 4096, 7, None, ['x']])
        return c
    sec = rng.choice(SECRETS)
    name = gen_name(rng) if rng.random() < 0.3 else rng.choice(['a', 'sid', 'user-1'])
    cookies = [(name, gen_obj(rng), sec)]
    two = rng.random() < 0.4
    if two:
        cookies.append((rng.choice(['b', 'other', name]), gen_obj(rng), sec if rng.random() < 0.8 else 'k2'))
    r = rng.random()
    if r < 0.2:
        return scn(cookies)
    if r < 0.3:
        return scn(cookies, rsecret=rng.choice(['other', 'S3cr3t', sec + 'x', None, '']))
    if r < 0.35:
        return scn(cookies, rname=rng.choice(['b', 'zz', name]))
    if r < 0.45:
        return scn(cookies, dict(kind=4, a=0, b=0, repl=mutate_msg(rng, cookies[0])))
    return scn(cookies, gen_tamper(rng, two))


PARSE_AL = 'abAB01_=;;  "\\$,\t\n-:[]@/\xe9.path'


def gen_parse(rng):
    r = rng.random()
    if r < 0.35:
        return ''.join(rng.choice(PARSE_AL) for _ in range(rng.randrange(0, 16)))
    parts = []
    for _ in range(rng.randrange(1, 5)):
        k = rng.choice(['a', 'b', 'sid', '$Version', '$Path', '$x', 'path', 'Domain', 'secure', 'HttpOnly', 'expires',
                        'a@b', 'k=', 'x[1]', 'max-age', 'comment', '', 'priority', 'Partitioned', 'samesite', 'version'])
        q = rng.random()
        if q < 0.15:
            parts.append(k)
            continue
        v = rng.choice(['1', 'b c', '"q"', '"a\\"b"', '"un', 'Wed, 01-Jan-2020 00:00:00 GMT', 'Wed, 1-Jan-20 00:00:00 GMT',
                        'Mon, 01 Jan 2020 0:00:000 GMT', 'x,y', '[1]', '', '"\\012x"', 'a=b', '\xe9', '"a;b"', '"\\',
                        'Thu, 01-Jan-1970  00:00:00 GMT', '!sig?msg=='])
        eq = rng.choice(['=', '=', ' = ', '= ', ' ='])
        parts.append(k + eq + v)
    s = rng.choice(['; ', ';', ' ', ';;', ' ; ', ', ']).join(parts)
    if rng.random() < 0.3:                        # mutate
        i = rng.randrange(0, len(s) + 1)
        s = s[:i] + rng.choice(PARSE_AL) + s[i + rng.randrange(0, 2):]
    return rng.choice(['', ' ', '\t']) + s + rng.choice(['', '', ';', ' ', '\n'])


def add_reads(rng, c):
    """2-4 reads in all on ONE request: names from the cookies sent, secrets from {right, another, empty, None}"""
    names = [x['name'] for x in c['cookies']] + [c['rname']]
    secs = [x['secret'] for x in c['cookies'] if x['secret']] or ['s3cr3t']
    reads = []
    for _ in range(rng.randrange(1, 4)):
        reads.append([rng.choice(names) if rng.random() < 0.9 else 'zz',
                      rng.choice(secs + secs + ['other', 'k2', None, ''])])
    if rng.random() < 0.6:                 # the other read paths, and updates of the header between reads
        n = rng.choice(names)
        extra = [['@item', n], ['@attr', n, rng.choice(['utf8', 'utf8', 'latin1'])], ['@decode', rng.choice([None, None, 'latin1'])],
                 ['@hdr'], ['@copyreq'], ['@sethdr', rng.choice([None, '', n + '=replaced', 'zz=1; ' + n + '="q\\"x"', gen_parse(rng)])],
                 ['@reinit', rng.choice(['', n + '=fresh', gen_parse(rng)])],
                 ['@assign', rng.choice(['', n + '=assigned', 'other=1', gen_parse(rng)])],
                 ['@assign', n + '=!forged?gAWVCQAAAAAAAACMAWGUSwGGlC4=']]
        for _ in range(rng.randrange(1, 4)):
            reads.insert(rng.randrange(0, len(reads) + 1), rng.choice(extra))
    c['reads'] = reads
    return c


def gen_resp(rng):
    """set_cookie / delete_cookie on a response, copy(HTTPResponse), then set / delete on the copy or on the
    original; names and values inside the hypotheses of the round-trip theorems (no '$', non-empty, < U+0100)"""
    names = rng.sample(['a', 'b', 'sid', 'Zed', 'x-1', '#k', '0'], rng.randrange(1, 4))
    sec = rng.choice(SECRETS[:3])

    def val():
        if rng.random() < 0.5:
            v = ''
            while not v or any(ord(ch) > 255 for ch in v) or '\ud800' in v:
                v = gen_text(rng, 8) if rng.random() < 0.7 else gen_mojibake(rng)
            return v, None
        return gen_obj(rng), sec

    def op(who):
        n = rng.choice(names)
        if rng.random() < 0.25:
            return ['del', who, n]
        v, s = val()
        return ['set', who, n, v, s]
    ops = [op('r') for _ in range(rng.randrange(0, 4))]
    reads = [[n, s] for n in names for s in (None, sec)]
    if rng.random() < 0.35:
        # the application's response has cookies (a hook), and a raised / returned HTTPResponse / HTTPError carries
        # cookies too — same names among them; directly through apply() and through the WSGI application
        cookies = []
        for _ in range(rng.choice([0, 1, 1, 2])):
            v, s = val()
            cookies.append([rng.choice(names), v, s])
        ops.append(['apply', rng.choice(['HTTPResponse', 'HTTPResponse', 'HTTPError']), rng.choice(['raise', 'return']), cookies])
        return dict(mode='resp', ops=ops, reads=reads, wsgi=rng.random() < 0.6)
    if rng.random() < 0.9:
        ops.append(['copy'])
        ops += [op(rng.choice(['r', 'c', 'c'])) for _ in range(rng.randrange(1, 5))]
        if rng.random() < 0.15:
            ops.append(['copy'])
            ops += [op(rng.choice(['r', 'c'])) for _ in range(rng.randrange(0, 3))]
    reads = []
    for n in names:
        for s in (None, sec):
            reads.append([n, s])
    return dict(mode='resp', ops=ops, reads=reads)


def gen(rng, n):
    for _ in range(n):
        r = rng.random()
        if r < 0.08:
            yield gen_resp(rng)
        elif r < 0.55:
            c = gen_scn(rng)
            if rng.random() < 0.15:
                c['bytes_secret'] = True
            yield add_reads(rng, c) if rng.random() < 0.3 else c
        elif r < 0.8:
            yield dict(mode='parse', s=gen_parse(rng))
        elif r < 0.92:
            s = gen_text(rng, 10)
            if rng.random() < 0.5:
                s = '"' + ''.join(rng.choice('ab"\\01234789\n\xff') for _ in range(rng.randrange(0, 10))) + \
                    rng.choice(['"', '"', ''])
            yield dict(mode='quote', s=s)
        elif r < 0.98:
            if rng.random() < 0.5:
                yield dict(mode='b64', b=[rng.randrange(256) for _ in range(rng.randrange(0, 12))])
            else:
                yield dict(mode='b64', b=cps(''.join(rng.choice('QUJDab09+/= !\n?-') for _ in range(rng.randrange(0, 14)))))
        else:
            yield dict(mode='hmac', k=[rng.randrange(256) for _ in range(rng.choice([0, 1, 6, 16, 64, 65, 90]))],
                       m=[rng.randrange(256) for _ in range(rng.choice([0, 3, 55, 56, 64, 100, 180]))])


def thorough():
    S = 's3cr3t'
    for name, val in (('a', 1), ('sid', {'u': 'bob'}), ('x', 'text')):
        base = scn([(name, val, S)])
        ln = 4 + len(name) + 26 + 4 * ((len(pickle.dumps((name, val), -1)) + 2) // 3)
        for pos in range(ln + 1):
            for b in SUBST:
                yield dict(base, tamper=dict(kind=1, a=pos, b=1, repl=[b]))
            yield dict(base, tamper=dict(kind=1, a=pos, b=1, repl=[]))
            yield dict(base, tamper=dict(kind=1, a=pos, b=5000, repl=[]))
            yield dict(base, tamper=dict(kind=1, a=pos, b=5000, repl=[34]))


# ----------------------------------------------------------------------------
# implementation
# ----------------------------------------------------------------------------

def run_impl(case):
    m = case['mode']
    if m == 'quote':
        from http import cookies as hc
        return dict(q=cps(hc._quote(case['s'])), u=cps(hc._unquote(case['s'])))
    if m == 'parse':
        from http.cookies import CookieError
        from ombott import Request
        rq = Request(environ(HTTP_COOKIE=case['s']))
        try:
            return dict(cookies=[[cps(k), cps(v)] for k, v in rq.cookies.items()])
        except CookieError:
            return dict(cookies='CookieError')
    if m == 'b64':
        import binascii
        b = bytes(case['b'])
        try:
            d = list(base64.b64decode(b))
        except binascii.Error:
            d = None
        return dict(e=list(base64.b64encode(b)), d=d)
    if m == 'hmac':
        return dict(d=list(hmac.new(bytes(case['k']), bytes(case['m']), digestmod=hashlib.md5).digest()))
    if m == 'resp':
        return run_resp(case)
    return run_scn(case)


def read_once(rq, proxy, case, name, secret):
    """one Request.get_cookie call: (canonical result, argument of pickle.loads or None)"""
    from http.cookies import CookieError
    proxy.calls.clear()
    try:
        got = rq.get_cookie(name, default=SENTINEL, secret=as_secret(case, secret))
    except CookieError:
        g = ['cookie_error']
    except Exception:
        g = ['raise']
    else:
        if got is SENTINEL:
            g = ['default']
        elif not proxy.calls and not secret:
            g = ['str', cps(got)] if isinstance(got, str) else ['other', repr(got)[:60]]
        elif not proxy.calls and isinstance(got, str) and not any(
                as_obj(c) and jeq(got, mat(c['value'])) for c in case['cookies']):
            g = ['str', cps(got)]
        else:
            # an unpickled object; when nothing was unpickled for THIS read (a memo) it is identified by value
            g = ['other', repr(got)[:60]]
            for i, c in enumerate(case['cookies']):
                if as_obj(c) and (not proxy.calls or proxy.calls[-1] == pk_of(c)) and jeq(got, mat(c['value'])):
                    g = ['val', i]
                    break
    if len(proxy.calls) > 1:
        return g, ['many'] + [list(x) for x in proxy.calls]
    return g, (list(proxy.calls[0]) if proxy.calls else None)


def read_kind(rd):
    """typed reads carry a leading '@kind'; a bare [name, secret] is a get_cookie read"""
    return rd[0][1:] if isinstance(rd[0], str) and rd[0].startswith('@') else 'get'


def do_read(rq, proxy, case, rd):
    """one typed read on a request: canonical result"""
    from http.cookies import CookieError
    kind = read_kind(rd)
    if kind == 'get':
        return list(read_once(rq, proxy, case, rd[0], rd[1]))
    try:
        if kind == 'hdr':
            h = rq.headers
            try:
                v = h['Cookie']
            except KeyError:
                v = None
            probs = []
            if h.get('cookie') != v or h.raw('COOKIE') != v or (('Cookie' in h) != (v is not None)):
                probs.append('get/raw/in')
            if ('Cookie' in h.keys()) != (v is not None) or len(h) != len(list(h)) \
                    or ('Content-Type' in h) != ('Content-Type' in h.keys()):
                probs.append('keys/len')
            for f in (lambda: h.__setitem__('Cookie', 'x'), lambda: h.__delitem__('Cookie')):
                try:
                    f()
                    probs.append('writable')
                except TypeError:
                    pass
            if probs:
                return ['inconsistent WSGIHeaderDict: %s' % probs]
            return ['s', None if v is None else cps(v)]
        c = rq.cookies
        if kind == 'item':
            v = c.get(rd[1])
            if (rd[1] in c) != (v is not None):
                return ['inconsistent CookieDict: in/get']
            return ['s', None if v is None else cps(v)]
        if kind == 'attr':
            if rd[2] == 'latin1':
                v = c.getunicode(rd[1], encoding='latin1')
            else:
                v = c.getunicode(rd[1])
                if c.__getattr__(rd[1]) != v or c.getunicode(rd[1], 'dflt') != ('dflt' if v is None else v):
                    return ['inconsistent CookieDict: getunicode/__getattr__/default']
                try:
                    c.__getattr__('__no_such_dunder__')
                    return ['inconsistent CookieDict: dunder attribute answered']
                except AttributeError:
                    pass
            return ['s', None if v is None else cps(v)]
        if kind == 'decode':
            try:
                d = c.decode(rd[1]) if rd[1] else c.decode()
            except UnicodeError:
                return ['d', 'UnicodeError']
            probs = []
            if dict(d.decode()) != dict(d) or d.input_encoding != (rd[1] or 'utf8'):
                probs.append('second decode')
            try:
                d.decode('utf8' if rd[1] == 'latin1' else 'latin1')
                probs.append('re-decode with another encoding accepted')
            except TypeError:
                pass
            if probs:
                return ['inconsistent CookieDict.decode: %s' % probs]
            return ['d', [[cps(k), cps(v)] for k, v in d.items()]]
    except CookieError:
        return 'CookieError'
    raise AssertionError(rd)


def enc_read(rd):
    kind = read_kind(rd)
    if kind == 'get':
        return [0] + enc_str(cps(rd[0])) + opt_str(rd[1])
    if kind == 'item':
        return [1] + enc_str(cps(rd[1]))
    if kind == 'attr':
        return [2, 0 if rd[2] == 'latin1' else 1] + enc_str(cps(rd[1]))
    if kind == 'decode':
        return [3, 0 if rd[1] == 'latin1' else 1]
    if kind == 'hdr':
        return [4]
    if kind in ('sethdr', 'reinit', 'assign'):
        return [5] + opt_str(rd[1])
    return None                                    # copyreq: no effect on what is read


def enc_reads(reads):
    chunks = [c for c in (enc_read(r) for r in reads) if c is not None]
    return [len(chunks)] + [x for c in chunks for x in c]


def dec_qres(q, case):
    tag = q.int()
    if tag == 0:
        return [dec_gres(q, case), q.str() if q.int() else None]
    if tag == 1:
        return ['s', q.str() if q.int() else None]
    if tag == 2:
        if not q.int():
            return ['d', 'UnicodeError']
        return ['d', q.list(lambda z: [z.str(), z.str()])]
    if tag == 3:
        return 'CookieError'
    return 'model_tag_%d' % tag


def project(obs, case):
    """the fresh-request references are for the oracle only"""
    if isinstance(obs, dict) and 'fresh' in obs:
        obs = dict(obs)
        del obs['fresh']
    return obs


def rcase_cookies(case):
    """the cookies set by a resp case (set ops, and the cookies of an applied HTTPResponse) in the shape
    read_once / pk_of expect; same order as Cookie.v:rop_table"""
    out = []
    for o in case['ops']:
        if o[0] == 'set':
            out.append(dict(name=o[2], value=o[3], secret=o[4]))
        elif o[0] == 'apply':
            out += [dict(name=n, value=v, secret=s) for n, v, s in o[3]]
    return out


def strip_attrs(w):
    i = find(w, 59)
    return w if i < 0 else w[:i]


def run_resp(case):
    """operations on a Response and on its copy (BaseResponse.copy(HTTPResponse), as redirect() makes it);
    then BOTH header lists are emitted and each is read back through a new Request"""
    from http.cookies import CookieError
    import ombott.common_helpers as ch
    from ombott import Request
    from ombott.response import Response, HTTPResponse
    proxy = PickleProxy()
    saved = ch.pickle
    ch.pickle = proxy
    fake = dict(cookies=rcase_cookies(case))
    try:
        from ombott.response import HTTPError
        from ombott import Ombott
        codes = []

        def classify(f):
            try:
                f()
                return 0
            except UnicodeEncodeError:
                return 4
            except TypeError:
                return 1
            except ValueError:
                return 2
            except CookieError:
                return 3

        def build(o):
            """the HTTPResponse / HTTPError of an apply op with its cookies set; None + code when set_cookie raised"""
            h = HTTPError(404, 'gone') if o[1] == 'HTTPError' else HTTPResponse('', 303)
            for n, v, s in o[3]:
                code = classify(lambda: h.set_cookie(n, mat(v), secret=s))
                if code:
                    return None, code
            return h, 0

        def simple(x, o):
            if o[0] == 'set':
                return classify(lambda: x.set_cookie(o[2], mat(o[3]), secret=o[4]))
            return classify(lambda: x.delete_cookie(o[2]))

        wsgi_wires = None
        if case.get('wsgi'):
            # through the application: the plain ops run in a before_request hook on app.response, the apply op
            # is a handler that raises or returns the HTTPResponse / HTTPError
            app = Ombott()
            apply_ops = [o for o in case['ops'] if o[0] == 'apply']

            def hook():
                for o in case['ops']:
                    if o[0] in ('set', 'del') and o[1] == 'r':
                        codes.append(simple(app.response, o))

            def handler():
                for o in apply_ops[:1]:
                    h, code = build(o)
                    codes.append(code)
                    if h is not None:
                        if o[2] == 'raise':
                            raise h
                        return h
                return ''
            app.add_hook('before_request', hook)
            app.route('/', 'GET', handler)
            got = []
            list(app(environ('GET', '/'), lambda st, hd, exc=None: got.append(hd)))
            wsgi_wires = [cps(v) for k, v in got[0] if k == 'Set-Cookie'] if len(got) == 1 else 'start_response x%d' % len(got)
            resp = {'r': app.response, 'c': None}
        else:
            resp = {'r': Response(), 'c': None}
            for o in case['ops']:
                if o[0] == 'copy':
                    codes.append(classify(lambda: resp.__setitem__('c', resp['r'].copy(HTTPResponse))))
                elif o[0] == 'apply':
                    h, code = build(o)
                    codes.append(code)
                    if h is not None:
                        h.apply(resp['r'])
                elif resp[o[1]] is None:
                    codes.append(7)
                else:
                    codes.append(simple(resp[o[1]], o))
        out = dict(codes=codes)
        for who in ('r', 'c'):
            x = resp[who]
            if x is None:
                out[who] = None
                continue
            if wsgi_wires is not None:
                wires = wsgi_wires                   # what start_response received
                if isinstance(wires, str):
                    out[who] = wires
                    continue
            else:
                try:
                    hl = x.headerlist
                except UnicodeEncodeError:
                    out[who] = 'emit_error'
                    continue
                wires = [cps(v) for k, v in hl if k == 'Set-Cookie']
            hdr = []
            for i, w in enumerate(wires):
                hdr += ([59, 32] if i else []) + strip_attrs(w)
            rq = Request(environ(HTTP_COOKIE=uncps(hdr)))
            try:
                cookies = [[cps(k), cps(v)] for k, v in rq.cookies.items()]
            except CookieError:
                cookies = 'CookieError'
            reads = [list(read_once(rq, proxy, fake, n, s)) for n, s in case['reads']]
            out[who] = dict(wires=wires, cookies=cookies, reads=reads)
        return out
    finally:
        ch.pickle = saved


def as_secret(case, s):
    """the secret as the application passes it: the str, or (case['bytes_secret']) its UTF-8 bytes — tob() leaves
    bytes alone, so both must behave alike"""
    if case.get('bytes_secret') and isinstance(s, str) and s:
        try:
            return s.encode('utf8')
        except UnicodeEncodeError:
            return s
    return s


def run_scn(case):
    from http.cookies import CookieError
    import ombott.common_helpers as ch
    from ombott import Request
    from ombott.response import Response
    proxy = PickleProxy()
    saved = ch.pickle
    ch.pickle = proxy
    try:
        resp = Response()
        for i, c in enumerate(case['cookies']):
            try:
                resp.set_cookie(c['name'], mat(c['value']), secret=as_secret(case, c['secret']))
            except UnicodeEncodeError:
                return dict(st='set_error', i=i, e=4)
            except TypeError:
                return dict(st='set_error', i=i, e=1)
            except ValueError:
                return dict(st='set_error', i=i, e=2)
            except CookieError:
                return dict(st='set_error', i=i, e=3)
        try:
            hl = resp.headerlist
        except UnicodeEncodeError:
            return dict(st='emit_error')
        wires = [cps(v) for k, v in hl if k == 'Set-Cookie']
        hdr = tamper(case['tamper'], wires, case['cookies'])
        rq = Request(environ(HTTP_COOKIE=uncps(hdr), CONTENT_TYPE='text/plain'))
        try:
            cookies = [[cps(k), cps(v)] for k, v in rq.cookies.items()]
        except CookieError:
            cookies = 'CookieError'
        g, loads = read_once(rq, proxy, case, case['rname'], case['rsecret'])
        obs = dict(st='ok', wires=wires, hdr=hdr, cookies=cookies, got=g, loads=loads)
        more, fresh = [], []
        cur = uncps(hdr)                      # the Cookie header in force (None = no HTTP_COOKIE in the environ)
        for rd in case.get('reads', []):
            kind = read_kind(rd)
            if kind == 'sethdr':
                if rd[1] is None:
                    del rq['HTTP_COOKIE']
                else:
                    rq['HTTP_COOKIE'] = rd[1]
                cur = rd[1]
                continue
            if kind == 'reinit':
                rq.__init__(environ(HTTP_COOKIE=rd[1]))
                cur = rd[1]
                continue
            if kind == 'assign':                   # the documented way to hand a Request object the next environ
                rq.environ = environ(HTTP_COOKIE=rd[1])
                cur = rd[1]
                continue
            if kind == 'copyreq':
                rq = rq.copy()
                continue
            more.append(do_read(rq, proxy, case, rd))                              # the SAME request object
            env2 = environ() if cur is None else environ(HTTP_COOKIE=cur)
            fresh.append(do_read(Request(env2), proxy, case, rd))                   # reference: a fresh request
        obs['more'] = more
        obs['fresh'] = fresh
        return obs
    finally:
        ch.pickle = saved


# ----------------------------------------------------------------------------
# model codec
# ----------------------------------------------------------------------------

def encode(case):
    m = case['mode']
    if m == 'quote':
        return [1] + enc_str(cps(case['s']))
    if m == 'parse':
        return [2] + enc_str(cps(case['s']))
    if m == 'b64':
        return [3] + enc_str(case['b'])
    if m == 'hmac':
        return [4] + enc_str(case['k']) + enc_str(case['m'])

    def spec(c):
        if as_obj(c):
            return enc_str(cps(c['name'])) + [1] + enc_str(pk_of(c)) + opt_str(c['secret'])
        return enc_str(cps(c['name'])) + [0] + enc_str(cps(c['value'])) + opt_str(c['secret'])
    if m == 'resp':
        def eop(o):
            oc = 1 if len(o) > 1 and o[1] == 'c' else 0
            if o[0] == 'set':
                return [0, oc] + spec(dict(name=o[2], value=o[3], secret=o[4]))
            if o[0] == 'del':
                return [1, oc] + enc_str(cps(o[2]))
            if o[0] == 'apply':
                return [3] + enc_list([dict(name=n, value=v, secret=s) for n, v, s in o[3]], spec)
            return [2]
        return [5] + enc_list(case['ops'], eop) + enc_list(case['reads'], lambda r: enc_str(cps(r[0])) + opt_str(r[1]))

    t = case['tamper']
    return ([0] + enc_list(case['cookies'], spec) + [t['kind'], t['a'], t['b']] + enc_str(t['repl'])
            + enc_str(cps(case['rname'])) + opt_str(case['rsecret'])
            + enc_reads(case.get('reads', [])))


def dec_pres(r):
    tag = r.int()
    if tag == 0:
        return r.list(lambda q: [q.str(), q.str()])
    return 'CookieError' if tag == 1 else 'model_tag_%d' % tag


def dec_gres(r, case):
    g = r.int()
    if g == 0:
        return ['default']
    if g == 1:
        return ['str', r.str()]
    if g == 2:
        p = r.str()
        for i, c in enumerate(case['cookies']):
            if as_obj(c) and pk_of(c) == p:
                return ['val', i]
        return ['other', 'unknown pickle']
    if g == 4:
        return ['cookie_error']
    if g == 5:
        return ['raise']
    return ['model_tag_%d' % g]


def decode(out, case):
    r = Reader(out)
    m = case['mode']
    if m == 'quote':
        return dict(q=r.str(), u=r.str())
    if m == 'parse':
        return dict(cookies=dec_pres(r))
    if m == 'b64':
        e = r.str()
        return dict(e=e, d=r.str() if r.int() else None)
    if m == 'hmac':
        return dict(d=r.str())
    if m == 'resp':
        fake = dict(cookies=rcase_cookies(case))

        def dresp(q):
            tag = q.int()
            if tag == 2:
                return 'emit_error'
            wires = q.list(lambda z: z.str())
            cookies = dec_pres(q)
            reads = q.list(lambda z: [dec_gres(z, fake), z.str() if z.int() else None])
            return dict(wires=wires, cookies=cookies, reads=reads)
        out = dict(codes=r.list(lambda q: q.int()))
        out['r'] = dresp(r)
        out['c'] = dresp(r) if r.int() else None
        return out
    tag = r.int()
    if tag == 1:
        return dict(st='set_error', i=r.int(), e=r.int())
    if tag == 2:
        return dict(st='emit_error')
    if tag != 0:
        return dict(st='model_tag_%d' % tag)
    wires = r.list(lambda q: q.str())
    hdr = r.str()
    cookies = dec_pres(r)
    got = dec_gres(r, case)
    loads = r.str() if r.int() else None
    more = r.list(lambda q: dec_qres(q, case))
    return dict(st='ok', wires=wires, hdr=hdr, cookies=cookies, got=got, loads=loads, more=more)


# ----------------------------------------------------------------------------
# the property, stated on the implementation's observable behaviour
# ----------------------------------------------------------------------------

def authentic(c):
    """reference signed-cookie text for cookie c, from the stdlib only"""
    msg = base64.b64encode(pickle.dumps((c['name'], mat(c['value'])), -1))
    sig = base64.b64encode(hmac.new(c['secret'].encode('utf8'), msg, digestmod=hashlib.md5).digest())
    return cps((b'!' + sig + b'?' + msg).decode('ascii'))


def has_cookie_value(hdr, val):
    """the header carries exactly this (quoted) cookie value, nothing added inside the quotes"""
    return contains(hdr, [61, 34] + val + [34])


def contains(hay, needle):
    n = len(needle)
    return any(hay[i:i + n] == needle for i in range(len(hay) - n + 1))


DELETED = object()


def oracle_resp(case, obs):
    """each response's cookies are the last values set ON THAT response (the copy starts from the original's
    cookies at the moment of the copy); a deleted cookie reads as absent"""
    if obs.get('hang') or obs.get('escaped'):
        return 'harness: %s' % obs
    exp = {'r': {}, 'c': None}
    for o, code in zip(case['ops'], obs['codes']):
        if code != 0:
            continue
        if o[0] == 'copy':
            exp['c'] = dict(exp['r'])
        elif o[0] == 'apply':
            # the raised / returned response's cookies are the ones to be emitted for their names; whether cookies
            # that only the application's response had are still sent is not part of the property (today they
            # are dropped: HTTPResponse.apply replaces the jar; the model pins that)
            if o[3]:
                exp['r'] = {n: ('optional', v) for n, v in exp['r'].items()}
                for n, v, s in o[3]:
                    exp['r'][n] = (v, s)
        elif o[0] == 'set':
            exp[o[1]][o[2]] = (o[3], o[4])
        else:
            exp[o[1]][o[2]] = DELETED
    for who, label in (('r', 'the original response'), ('c', 'the copy')):
        e, ob = exp[who], obs.get(who)
        if e is None:
            continue
        if not isinstance(ob, dict):
            return '%s: %s' % (label, ob)
        if ob['cookies'] == 'CookieError':
            return '%s: its Set-Cookie headers cannot be read back (CookieError)' % label
        seen = {uncps(k): uncps(v) for k, v in ob['cookies']}
        for name in seen:
            if name not in e:
                return '%s emits cookie %r that was never set on it' % (label, name)
        for name, ev in e.items():
            if isinstance(ev, tuple) and ev[0] == 'optional':
                if name not in seen:
                    continue
                ev = ev[1]
            if ev is DELETED:
                if seen.get(name, '') != '':
                    return '%s: cookie %r was deleted on it but is emitted with value %r' % (label, name, seen[name][:30])
                continue
            value, secret = ev
            idx = [i for i, r in enumerate(case['reads']) if r[0] == name and (r[1] or None) == (secret or None)]
            if not idx:
                continue
            g = ob['reads'][idx[0]][0]
            if secret:
                cs = rcase_cookies(case)
                if g[0] != 'val' or not jeq(cs[g[1]]['value'], value) :
                    return ('%s: signed cookie %r reads back as %s, not as the value last set on this response'
                            % (label, name, describe(g)))
            elif g != ['str', cps(value)]:
                return ('%s: cookie %r reads back as %s, not as %r, the value last set on this response'
                        % (label, name, describe(g), value[:30]))
    return None


def oracle(case, obs):
    if case['mode'] == 'resp':
        return oracle_resp(case, obs)
    if case['mode'] != 'scn':
        return None
    if obs.get('hang') or obs.get('escaped'):
        return 'harness: %s' % obs
    if obs['st'] == 'set_error' and obs.get('e') == 3:
        c = case['cookies'][obs['i']]
        n = c['name']
        if n and all(ch in LEGAL for ch in n) and n.lower() not in STOCK_RESERVED:
            return ('set_cookie refused the name %r (CookieError): a legal cookie token that is not an attribute of '
                    'http.cookies' % n)
    if obs['st'] != 'ok':
        return None                                # the cookie was refused when it was set: nothing to read back
    f = check_read(case, obs['hdr'], case['rname'], case['rsecret'], obs['got'], obs['loads'])
    if f:
        return f
    # further reads on the SAME request: each must be what a fresh request returns for that (name, secret),
    # i.e. independent of the reads made before, and must satisfy the property on its own
    j = 0
    replaced = False                       # the Cookie header was replaced: only independence is checked afterwards
    for i, rd in enumerate(case.get('reads', [])):
        kind = read_kind(rd)
        if kind in ('sethdr', 'reinit', 'assign'):
            replaced = True
            continue
        if kind == 'copyreq':
            continue
        got, ref = obs['more'][j], obs['fresh'][j]
        j += 1
        label = 'read %d' % (i + 2)
        if isinstance(got, list) and got and isinstance(got[0], str) and got[0].startswith('inconsistent'):
            return '%s: %s' % (label, got[0])
        if kind == 'get':
            g, l = got
            if g != ref[0]:
                return ('%s on the same request, get_cookie(%r, secret=%r), returned %s but a fresh request with the '
                        'same Cookie header returns %s: a read depends on the reads before it'
                        % (label, rd[0], rd[1], describe(g), describe(ref[0])))
            if not replaced:
                f = check_read(case, obs['hdr'], rd[0], rd[1], g, l)
                if f:
                    return '%s: %s' % (label, f)
            continue
        if got != ref:
            return ('%s on the same request (%s) returned %s but a fresh request with the header in force returns %s: '
                    'a read depends on the reads before it' % (label, rd, str(got)[:60], str(ref)[:60]))
        if replaced or not untouched(case) or kind not in ('item', 'attr'):
            continue
        # the untouched plain cookie through the other read paths of request.cookies
        mine = [c for c in case['cookies'] if c['name'] == rd[1]]
        if mine and not mine[-1]['secret'] and isinstance(mine[-1]['value'], str) and got != 'CookieError':
            want = ['s', cps(mine[-1]['value'])]
            if kind == 'item' and got != want:
                return ('%s: plain cookie does not round-trip through request.cookies[name]: set %r, read %s'
                        % (label, mine[-1]['value'][:20], describe_s(got)))
            if kind == 'attr' and rd[2] != 'latin1' and got != want:
                return ('%s: plain cookie does not round-trip through request.cookies attribute access / getunicode: '
                        'set %r, read %s' % (label, mine[-1]['value'][:20], describe_s(got)))
    return None


def describe_s(got):
    if got == 'CookieError':
        return got
    return 'default' if got[1] is None else repr(uncps(got[1])[:20])


def untouched(case):
    """the cookies travel as they were emitted: no tampering, or only a foreign cookie pair next to them whose
    name is a legal token, not an attribute word of the stock http.cookies, not $-prefixed and not a name of ours"""
    t = case['tamper']
    if t['kind'] == 0:
        return True
    if t['kind'] != 6:
        return False
    pair = uncps(t['repl'])
    name = pair.split('=', 1)[0]
    return (bool(name) and all(ch in LEGAL for ch in name) and name.lower() not in STOCK_RESERVED
            and not name.startswith('$') and name not in [c['name'] for c in case['cookies']])


def check_read(case, hdr, rname, rsec, got, loads):
    cookies = case['cookies']
    signed = [c for c in cookies if c['secret']]
    if case['tamper']['kind'] == 4:
        return None                                # the "attacker" holds the secret: outside the property
    # 1. nothing but an authentic payload reaches the unpickler
    if loads is not None:
        if isinstance(loads, list) and loads[:1] == ['many']:
            return 'unpickler called more than once'
        ok = [c for c in signed if c['secret'] == rsec and pk_of(c) == loads and has_cookie_value(hdr, authentic(c))]
        if not ok:
            return 'unpickler reached with bytes that are not an untouched cookie signed with this secret (%d bytes)' % len(loads)
    if got[0] in ('other', 'raise', 'cookie_error') and untouched(case):
        return 'reading an untouched cookie failed: %s' % got
    # 2. a value is only ever read from an untouched cookie of that name and secret
    if rsec and got[0] == 'val':
        c = cookies[got[1]]
        if not (c['name'] == rname and c['secret'] == rsec and has_cookie_value(hdr, authentic(c))):
            return 'signed cookie accepted although it was altered / belongs to another name or secret'
    if rsec and got[0] in ('str', 'other'):
        return 'signed read returned something that did not pass verification: %s' % got[:1]
    # 3. round trip of the untouched cookie
    if untouched(case):
        mine = [c for c in cookies if c['name'] == rname]
        if mine:
            c = mine[-1]
            if bool(c['secret']) and c['secret'] == rsec:
                if got[0] != 'val' or not jeq(cookies[got[1]]['value'], c['value']):
                    return 'signed cookie does not round-trip: got %s' % got[:2]
            elif not c['secret'] and not rsec:
                if got != ['str', cps(c['value'])]:
                    try:
                        garbled = got == ['str', cps(''.join(ch if ord(ch) < 256 else ch.encode('utf8').decode('latin1')
                                                             for ch in c['value']))]
                    except UnicodeError:
                        garbled = False
                    return 'plain cookie does not round-trip%s: set %r, read %s' % (
                        ' (its UTF-8 bytes read as Latin-1)' if garbled else '', c['value'][:20], describe(got))
    return None


def describe(got):
    if got[0] == 'str':
        return repr(uncps(got[1])[:20])
    return got[0]


def _plain_rt(case, what):
    return (case.get('mode') == 'scn' and untouched(case)
            and 'plain cookie does not round-trip' in str(what)
            and 'depends on the reads before it' not in str(what))


def _read_cookies(case, what):
    """the cookie(s) the failing read was about: the read named in the oracle message ('read N: ...'), or, for a
    model/implementation disagreement, every read of the scenario"""
    import re
    names = [case['rname']] + [(r[0] if read_kind(r) == 'get' else (r[1] if len(r) > 1 and isinstance(r[1], str) else None))
                               for r in case.get('reads', [])]
    m = re.match(r'read (\d+):', str(what))
    if m:
        names = [names[int(m.group(1)) - 1]]
    elif what != 'disagreement':
        names = names[:1]
    out = []
    for n in names:
        mine = [c for c in case['cookies'] if c['name'] == n]
        if mine:
            out.append(mine[-1])
    return out


def pred_attr_latin1(case, what, m):
    """request.cookies.<name> / getunicode re-reads the value as UTF-8: values with a code point in 128..255 come
    back as the default (or as other text when they happen to be valid UTF-8)"""
    if case.get('mode') != 'scn' or not untouched(case) or 'attribute access' not in str(what):
        return False
    return any(isinstance(c['value'], str) and any(127 < ord(ch) < 256 for ch in c['value'])
               for c in _read_cookies(case, what))


def pred_above_255(case, what, m):
    if not _plain_rt(case, what) or 'attribute access' in str(what):
        return False
    if 'request.cookies[name]' not in str(what) and 'UTF-8 bytes read as Latin-1' not in str(what):
        return False                            # another failure than the known garbling
    return any(isinstance(c['value'], str) and any(ord(ch) > 255 for ch in c['value'])
               and not c['name'].startswith('$') for c in _read_cookies(case, what))


def pred_empty(case, what, m):
    return bool(_plain_rt(case, what)) and 'request.cookies' not in str(what) \
        and any(c['value'] == '' for c in _read_cookies(case, what))


def pred_dollar(case, what, m):
    """some cookie of the response has a name starting with '$': read back it is an RFC 2965 attribute, which
    drops it (first position) or makes SimpleCookie raise CookieError for the whole header (later position)"""
    if case.get('mode') != 'scn' or not untouched(case):
        return False
    return any(c['name'].startswith('$') for c in case['cookies']) and (
        'does not round-trip' in str(what)
        or 'reading an untouched cookie failed: [\'cookie_error\']' in str(what)) \
        and 'depends on the reads before it' not in str(what)


PREDICATES = {
    'cookie_value_has_codepoint_above_255': pred_above_255,
    'cookie_value_empty': pred_empty,
    'cookie_attribute_read_of_latin1_value': pred_attr_latin1,
    'cookie_name_starts_with_dollar': pred_dollar,
}


def nontrivial(case, obs):
    if case['mode'] == 'resp':
        return any(o[0] in ('copy', 'apply') for o in case['ops']) and len(case['ops']) > 1
    if case['mode'] == 'scn':
        if obs.get('st') != 'ok':
            return False
        return case['tamper']['kind'] != 0 or any(w and w[-1] == 34 for w in obs['wires'])
    if case['mode'] in ('quote', 'parse'):
        return any(ch in case['s'] for ch in '"\\;, ') or any(ord(ch) > 127 for ch in case['s'])
    return len(case.get('b', case.get('m', []))) > 2


def key(case):
    import json
    return json.dumps(case, sort_keys=True, default=repr)


def classify(case, obs):
    if case['mode'] != 'scn':
        return case['mode']
    k = case['tamper']['kind']
    t = ['untouched', 'splice', 'sigswap', 'replay', 'resigned', 'sigedit', 'foreign', 'percent', 'appended'][k]
    kind = 'signed' if case['cookies'][0]['secret'] else 'plain'
    st = obs.get('st')
    return 'scn/%s/%s/%s/%s' % (kind, t, st, (obs.get('got') or ['-'])[0])


def shrink(case):
    if case['mode'] == 'resp':
        ops = case['ops']
        for i in range(len(ops)):
            yield dict(case, ops=ops[:i] + ops[i + 1:])
        rd = case['reads']
        for i in range(len(rd)):
            yield dict(case, reads=rd[:i] + rd[i + 1:])
        return
    if case['mode'] != 'scn':
        s = case.get('s')
        if s is not None:
            for i in range(len(s)):
                yield dict(case, s=s[:i] + s[i + 1:])
        return
    rd = case.get('reads', [])
    for i in range(len(rd)):
        yield dict(case, reads=rd[:i] + rd[i + 1:])
    cs = case['cookies']
    if len(cs) > 1 and case['tamper']['kind'] < 2:
        for i in range(len(cs)):
            yield dict(case, cookies=cs[:i] + cs[i + 1:])
    for i, c in enumerate(cs):
        v = c['value']
        if isinstance(v, str):
            for j in range(len(v)):
                yield dict(case, cookies=cs[:i] + [dict(c, value=v[:j] + v[j + 1:])] + cs[i + 1:])
        elif v not in (1, None):
            yield dict(case, cookies=cs[:i] + [dict(c, value=1)] + cs[i + 1:])
    if case['tamper']['kind'] == 1 and case['tamper']['b'] > 1:
        yield dict(case, tamper=dict(case['tamper'], b=1))


MANIFEST = dict(
    text=('Proof: coq/props/C15.v. For EVERY mac, dumps, loads: cookie_decode calls the unpickler only on the '
          'base64-decoding of a message whose transmitted signature equals base64(mac(key, message)) '
          '(C15_loader_guarded, and C15_request_loader_guarded for Request.get_cookie on ANY Cookie header); any change of the signature part of a valid cookie is rejected without unpickling '
          '(C15_signature_tamper); acceptance of a changed payload or of another key yields an explicit MAC '
          'collision (C15_payload_tamper, C15_other_secret: reduction to unforgeability of HMAC-MD5); signed and '
          'plain cookies round-trip through Set-Cookie -> Cookie -> get_cookie under the guards the code really has; reads on one request are independent (C15_reads_independent); a response and its copy do not share cookies (C15_copy_independent) '
          '(legal token name that is not reserved and does not start with $, value at most 4096 long; plain: '
          'non-empty, code points < 256). The model (coq/model/Cookie.v, including http.cookies quoting and parsing, '
          'base64 and HMAC-MD5) is tied to /repo and CPython on every run by a differential correspondence with an '
          'attacker that edits the Cookie header, and pickle.loads is observed through a recording proxy.'),
    note=('Known findings: plain text above U+00FF, the empty value and names starting with $ do not round-trip '
          '(refuted theorems + KNOWN_FINDINGS). Trusted: unforgeability of HMAC-MD5, pickle, CPython http.cookies '
          '(modelled, correspondence only), extraction, harness.'),
    technique='Coq proof (parametric in MAC/pickle; base64 injectivity; scanner lemmas) + correspondence + oracle',
    design_ref='DESIGN.md section 4, C15',
)


# dev-only: VERIF_COVERAGE=1 ./check C15 --no-coq  (AUDIT_BRIEF.md item 1)
COVERAGE_TARGETS = {
    'ombott/common_helpers.py': ['cookie_encode', 'cookie_decode', 'tob', 'touni'],
    'ombott/response.py': ['BaseResponse.set_cookie', 'BaseResponse.delete_cookie', 'BaseResponse.copy',
                           'BaseResponse.headerlist'],
    'ombott/request_pkg/props_mixin.py': ['PropsMixin.cookies', 'PropsMixin.get_cookie', 'PropsMixin.headers'],
    'ombott/request_pkg/helpers.py': ['CookieDict.', 'WSGIHeaderDict.'],
}
from props import hdrF_cov  # noqa: E402
run_impl = hdrF_cov.wrap(ID, run_impl, COVERAGE_TARGETS)
