"""C08 — concurrent requests on one application never see each other."""
import json
import os

from props import sched

sched.cov_register(__name__.split('.')[-1])      # dev-only: VERIF_COVERAGE=1

ID = 'C08'
COQ_MODEL = 'model.TsProps'
COQ_CORR = 'corr_C08'
N_QUICK = 800
N_THOROUGH = 4000
THOROUGH_EXHAUSTIVE = True
VM_CASES = 30
RULE = ('two kinds of cases on ONE application. (ops) the application\'s Request and Response objects are built on '
        'thread 0; 2..3 real threads then run request-shaped command sequences (request.__init__(environ), '
        'response.__init__(), header / status / cookie / body / environ reads and writes, headers.dict, '
        'Request.copy()) interleaved command by command under a baton; every outcome is compared with the model and '
        'every thread\'s outcomes with the same thread running alone. (arr) 2..3 real WSGI requests '
        '(GET/POST with form data, cookies, query) through Ombott.__call__ on real threads under the controlled '
        'scheduler of sched.py: pre-emption at sys.settrace line steps inside ombott/* and the handler, 0..4 '
        'pre-emptions placed from the seed; handlers read request path/query/cookies/forms/body, set status, '
        'headers, cookies, copy the request, abort, raise, return generators; each thread\'s records (everything its '
        'handler saw, and its status line, header list and body) must equal the records of the same request served '
        'alone and must not contain text of another request. thorough adds (batch) EVERY schedule with 1 or 2 '
        'pre-emptions of two 2-thread scenarios (exhaustive, sharded over processes). non-trivial = at least two '
        'threads ran and at least one pre-emption (arr) / one interleaving point (ops) fell inside a request. '
        'distinct by the full case')
TRUSTED = ['NOT in the model (oracle-level only): process-wide state of ombott outside the ts_props stores (class-level '
           'errors_map responses, module-level tables); every arrangement and every solo baseline runs in its own '
           'forked child of a process that has only imported ombott',
           'modelled, not verified: CPython threading.local, slot/property/__getattr__ resolution, dict order — tied by '
           'the correspondence only',
           'NOT covered by the theorem (runtime remainder, C08 is claimed partial): the interpreter executes each op of '
           'the vocabulary as one indivisible step — the GIL, bytecode-level atomicity of getattr/setattr on '
           'threading.local, C-level dict thread-safety; handlers sharing mutable state outside the vocabulary '
           '(module globals, closures)',
           'the lifecycle program of the model (TsProps.lifecycle) is a hand transcription of what '
           'Ombott.wsgi/_handle/_cast do to the shared objects; the scheduler-driven runs are its only tie to the code',
           'tools/props/sched.py: baton hand-over between real threads; sys.settrace line events as pre-emption points '
           '(pre-emption inside one line — between two bytecodes — is not explored)']
ASSUMPTIONS = ['one application; its Request/Response objects were constructed before the serving threads start',
               'each op of the vocabulary is atomic (GIL)',
               'handlers do not share mutable state outside app.request / app.response']


# ---------------------------------------------------------------------------
# cases
# ---------------------------------------------------------------------------

SETUP = [[0, 'init_req0', 0], [0, 'new_resp', 0]]


# tools/check.py: a case cut off by its wall-clock limit is judged by oracle() here (sched.judge re-runs it with
# generous limits and reports a hang only when that is inconclusive again), not by the generic rule
JUDGES_HANG = True

def _ops(threads, order):
    """threads: list of command lists (without the thread number); order: list of thread indices"""
    return dict(kind='ops', threads=threads, order=order)


def _cmds(case):
    """the global command list: set-up on thread 0, then the interleaving (serving threads are 1, 2, 3)"""
    pos = [0] * len(case['threads'])
    out = list(SETUP)
    for i in case['order']:
        i = i % len(case['threads'])
        if pos[i] < len(case['threads'][i]):
            c = case['threads'][i][pos[i]]
            out.append([i + 1] + c)
            pos[i] += 1
    for i, th in enumerate(case['threads']):
        for c in th[pos[i]:]:
            out.append([i + 1] + c)
    return out


def _call(tok, script, **kw):
    d = dict(app=0, tok=tok, qs='q=%sq' % tok, script=script)
    d.update(kw)
    return d


def _arr(calls, start=0, switches=(), **kw):
    d = dict(kind='arr', napps=1, default=False, calls=calls, start=start, switches=[list(s) for s in switches])
    d.update(kw)
    return d


def _req_cmds(path, hdr, status):
    S = lambda s: ['s', s]   # noqa
    return [['init_req', 0, S(path)], ['init_resp', 0], ['env_get', 0, 0], ['hdr_set', 0, 4, S(hdr)],
            ['set', 1, 0, 1, ['i', status]], ['req_get', 0, 0], ['hdr_items', 0], ['attr_items', 1, 0, 2],
            ['get', 1, 0, 1], ['get', 1, 0, 0]]


SCENARIOS = [
    [_call('tA', [['see'], ['hdr', 'X-A', 'tAh'], ['cookie', 'k', 'tAk'], ['see']], cookie='c=tAc'),
     _call('tC', [['form_see'], ['status', 201], ['see']], method='POST', form='f=tCf')],
    [_call('tA', [['see'], ['hdr', 'X-A', 'tAh'], ['abort', 404]]),
     _call('tC', [['see'], ['hdr', 'X-B', 'tCh'], ['gen', 2]])],
]


# two requests whose error answers come from the SAME pre-built errors_map entry with different causes, and two
# legal chunked uploads with two-digit size lines: every single pre-emption is tried on every run (quick tier)
RACE_SCENARIOS = [
    [_call('tA', [['body_read']], method='POST', form='{"tA": bad', json_bad=True, accept='application/json'),
     _call('tC', [['body_read']], method='POST', form='["tC", 2, 3]', json_nonobj=True, accept='application/json')],
    [_call('tA', [['body_read']], method='POST', form='f=tAf' + 'a' * 40, chunked_ok=True),
     _call('tC', [['see'], ['body_read']], method='POST', form='g=tCg' + 'c' * 33, chunked_ok=True, pad='zz')],
    # two requests through the same rule with a rex wildcard (one cached filter object per process)
    [_call('tA', [['see']], route='rex'), _call('tC', [['see']], route='rex', pad='zz')],
    # debug pages of two requests answered from the same pre-built 400 with different causes (HTML pages)
    dict(cfg=['debug', 'max30'],
         calls=[_call('tA', [['body_read']], method='POST', form='{"tA": bad', json_bad=True),
                _call('tC', [['see'], ['body_read']], method='POST', form='{"tCtCtC": [1, 2, bad', json_bad=True, pad='zz')]),
]


def corpus():
    out = [
        # two requests, strictly alternating
        _ops([_req_cmds('/a', 'one', 201), _req_cmds('/b', 'two', 202)], [0, 1] * 10),
        # one request completely inside the other
        _ops([_req_cmds('/a', 'one', 201), _req_cmds('/b', 'two', 202)], [0, 0, 0] + [1] * 10 + [0] * 7),
        # a thread that never initialised the response for itself sees no header dict
        _ops([[['init_req', 0, ['s', '/a']], ['init_resp', 0], ['hdr_set', 0, 4, ['s', 'v']]],
              [['hget', 0], ['get', 1, 0, 1], ['get', 0, 0, 0], ['hdr_items', 0]]], [0, 0, 0, 1, 1, 1, 1]),
        # three threads
        _ops([_req_cmds('/a', 'one', 201), _req_cmds('/b', 'two', 202), _req_cmds('/c', 'three', 203)],
             [0, 1, 2, 2, 1, 0] * 6),
        _arr(SCENARIOS[0], 0, [[500, 1]]),
        _arr(SCENARIOS[0], 1, [[300, 0], [500, 1]]),
        _arr(SCENARIOS[1], 0, [[400, 1], [400, 0]]),
        # two requests that both fail in the body reader and are answered from the SAME pre-built error object of
        # errors_map (400 malformed chunked / 413 too large), one asking for JSON, with different URL lengths
        _arr([_call('tA', [['body_read']], method='POST', form='f=tAf', chunked_bad=True, accept='application/json'),
              _call('tC', [['see'], ['body_read']], method='POST', form='f=tCf', chunked_bad=True, pad='zzzzzzzzzzz')],
             0, [[990, 1]], max_body=30),
        _arr([_call('tA', [['body_read']], method='POST', form='f=tAf' + 'y' * 40, too_big=True),
              _call('tC', [['body_read']], method='POST', form='f=tCf' + 'y' * 40, too_big=True,
                    accept='application/json', pad='zzz')], 1, [[990, 0]], max_body=30),
        # the mapping interface of the shared HeaderDict, used by two requests at once
        _arr([_call('tA', [['hdr_append', 'X-A', 'tAa1'], ['hdr_append', 'X-A', 'tAa2'], ['see'], ['hdr_copy'], ['see'],
                           ['hdr_update', [['X-B', 'tAu'], ['X-U', 'tAu2']]], ['hdr_del', 'X-B'], ['see']]),
              _call('tC', [['hdr', 'X-A', 'tCh'], ['hdr_setdefault', 'X-A', 'tCd'], ['hdr_setdefault', 'X-B', 'tCd'],
                           ['see'], ['hdr_clear', ['X-A', 'X-Never']], ['see'], ['hdr_clear'], ['see']])],
             0, [[300, 1], [300, 0], [300, 1]]),
        # the request's mapping interface, env-changed caches, ext attributes and listeners
        _arr([_call('tA', [['see'], ['req_set', 'QUERY_STRING', 'n=tAn'], ['see'], ['ext'], ['see'], ['listen'], ['see']],
                    cookie='c=tAc'),
              _call('tC', [['ext'], ['req_set', 'HTTP_COOKIE', 'c2=tCc2'], ['see'], ['req_del'], ['listen', 'off'],
                           ['req_set', 'CONTENT_TYPE', 'text/x-tc'], ['see']])], 1, [[400, 0], [400, 1]]),
        # everything a handler may hand back, and the requests the framework answers by itself
        _arr([_call('tA', [['hdr', 'X-A', 'tAh'], ['ret', 'resp_obj']]), _call('tC', [['cookie', 'k', 'tCk'], ['ret', 'gen_raises_resp']]),
              _call('tE', [['ret', 'file']], file_wrapper=True)], 0, [[500, 1], [500, 2]]),
        _arr([_call('tA', [['ret', 'gen_blank_first']]), _call('tC', [['ret', 'gen_bytes']]), _call('tE', [['ret', 'gen_int']])],
             2, [[300, 0], [300, 1]]),
        _arr([_call('tA', [['ret', 'gen_raises_exc']]), _call('tC', [['ret', 'bad_charset']]), _call('tE', [['ret', 'none']])],
             0, [[600, 1]], cfg=['debug']),
        _arr([_call('tA', [['ret', 'bad_charset']]), _call('tC', [['ret', 'gen_empty']])], 0, [[600, 1]], cfg=['nocatch']),
        _arr([_call('tA', [['ret', 'raise_mem']]), _call('tC', [['ret', 'gen_raises_mem']]),
              _call('tE', [['ret', 'bad_charset']], method='HEAD')], 0, [[500, 1], [500, 2]]),
        _arr([_call('tA', [['ret', 'file']]), _call('tC', [['form_see'], ['see']], method='POST', form='f=tCf', hook_input=True),
              _call('tE', [['req_set', 'QUERY_STRING', 'q=tEq'], ['req_set', 'QUERY_STRING', 'x=1'], ['see']], readonly=True)],
             0, [[400, 1], [400, 2]]),
        # workers that run inside a copy of the constructing context (asyncio.to_thread, ASGI->WSGI bridges)
        _arr([_call('tA', [['see'], ['hdr', 'X-A', 'tAh'], ['cookie', 'k', 'tAk'], ['see']], cookie='c=tAc'),
              _call('tC', [['see'], ['status', 201], ['ext'], ['see']], xt='tCxt0')], 0, [[500, 1], [500, 0]], ctx_copy=True),
        # per-request attributes under public and private names, and the cached header view
        _arr([_call('tA', [['ext'], ['see'], ['see']], xt='tAxt0'), _call('tC', [['see'], ['ext'], ['see']])], 0, [[600, 1]]),
        # the same signed cookie with a mutable payload in two requests: each handler changes ITS decoded value in place
        _arr([_call('tA', [['sess_mutate'], ['see']], signed=True, cookie='c=tAc'),
              _call('tC', [['see'], ['sess_mutate'], ['see']], signed=True)], 0, [[900, 1]]),
        _arr([_call('tA', [['copy_off'], ['req_set', 'QUERY_STRING', 'o=tAo'], ['see']]),
              _call('tC', [['req_set', 'QUERY_STRING', 'o=tCo'], ['see']])], 0, [[500, 1]]),
        # witness of the listed finding C08-listeners-shared (printed as KNOWN-FINDING on every run): tA keeps a listener
        # registered while tC, served by another thread on the same application, changes ITS environ
        _arr([_call('tA', [['listen_around', [['yield_to', 1], ['see']]]]), _call('tC', [['req_set', 'HTTP_X_T', 'tCxt'], ['req_del']])],
             0, []),
        # a handler changes the hook lists (public API) while another request is suspended inside emit(), in a hook:
        # that request still runs every hook that was registered when its emit() began, once
        _arr([_call('tA', [['hook_change', 'remove_first'], ['yield_to', 1], ['hook_change', 'readd_first'], ['see']]),
              _call('tC', [['see']], hook_yield=0)], 1, []),
        _arr([_call('tA', [['hook_change', 'add_after'], ['yield_to', 1], ['hook_change', 'remove_after'], ['see']]),
              _call('tC', [['see'], ['hdr', 'X-A', 'tCh']], after_yield=0)], 1, []),
        # headers set before a mapped body error (the 400 object is shared by all requests): nobody else gets them
        _arr([_call('tA', [['hdr', 'Access-Control-Allow-Origin', 'tAorigin'], ['hdr', 'Vary', 'tAvary'], ['body_read']],
                    method='POST', form='{"tA": bad', json_bad=True),
              _call('tC', [['see'], ['body_read']], method='POST', form='{"tC": bad', json_bad=True, accept='application/json')],
             0, [], cfg=['max30']),
        # an environ assignment with a non-str key by one request; cache-invalidating assignments by another afterwards
        _arr([_call('tA', [['req_set_odd_key'], ['see']]),
              _call('tC', [['see'], ['req_set', 'QUERY_STRING', 'n=tCn'], ['see'], ['req_set', 'HTTP_COOKIE', 'c2=tCc2'], ['see']])],
             0, []),
        # answers without a body whose iterable has to be closed
        _arr([_call('tA', [['see'], ['gen', 2]], method='HEAD'), _call('tC', [['status', 204], ['ret', 'file']]),
              _call('tE', [['status', 304], ['gen', 1]])], 0, [[500, 1], [500, 2]]),
        _arr([_call('tA', [['ret', 'loop418']]), _call('tC', [['bad_status', 'nospace']]), _call('tE', [['ret', 'resp_raise']])],
             1, [[200, 0]]),
        _arr([_call('tA', [], route='g405', method='POST'), _call('tC', [], route='nope404'),
              _call('tE', [], route='h404hook')], 0, [[500, 1], [500, 2]]),
        _arr([_call('tA', [], route='badpath'), _call('tC', [['see'], ['status', 204], ['see']]),
              _call('tE', [['hdr', 'X-A', 'tEh'], ['see']], method='HEAD')], 0, [[500, 1], [500, 2]]),
        _arr([_call('tA', [['see'], ['hdr', 'X-A', 'tAh']], domain=True), _call('tC', [['see']])], 0, [[500, 1]],
             cfg=['domain']),
        dict(kind='batch', race=0, preempt=1),
        dict(kind='batch', race=1, preempt=1),
        dict(kind='batch', race=2, preempt=1),
        dict(kind='batch', race=3, preempt=1),
        # every kind of filtered wildcard, and the rule without wildcards whose url_args a route hook / handler extends
        _arr([_call('tA', [['see']], route='rex'), _call('tC', [['see']], route='re'), _call('tE', [['see']], route='path')],
             0, [[500, 1], [500, 2]]),
        _arr([_call('tA', [['see']], route='int'), _call('tC', [['see']], route='float', inject=True)], 1, [[500, 0]]),
        _arr([_call('tA', [['see'], ['args_write'], ['see']], route='static', inject=True),
              _call('tC', [['see'], ['see']], route='static'), _call('tE', [['args_write'], ['see']], route='static')],
             0, [[600, 1], [600, 2]]),
        _arr(RACE_SCENARIOS[0], 0, [[700, 1]]),
        _arr(RACE_SCENARIOS[1], 1, [[300, 0]]),
        _arr(RACE_SCENARIOS[3]['calls'], 0, [[800, 1]], cfg=RACE_SCENARIOS[3]['cfg']),
        _arr([_call('tA', [['see'], ['boom']]), _call('tC', [['see'], ['copy'], ['see']]),
              _call('tE', [['hdr', 'X-C', 'tEh'], ['status', 418], ['see']])], 0, [[300, 1], [300, 2], [300, 0]]),
    ]
    return out


_VALS = [['n'], ['i', 0], ['i', 7], ['i', 404], ['s', ''], ['s', '/x'], ['s', 'text'], ['f']]


def _gen_thread_cmds(rng, i):
    cmds = []
    if rng.random() < 0.9:
        cmds.append(['init_req', 0, ['s', '/p%d' % i]])
    if rng.random() < 0.9:
        cmds.append(['init_resp', 0])
    for _ in range(rng.randrange(2, 14)):
        r = rng.random()
        v = rng.choice(_VALS)
        if r < 0.12:
            cmds.append(['env_get', 0, rng.choice([0, 0, 1, 7])])
        elif r < 0.2:
            cmds.append(['req_get', 0, rng.choice([0, 0, 1, 7])])
        elif r < 0.35:
            cmds.append(['hdr_set', 0, rng.randrange(3, 7), ['s', 'h%d-%d' % (i, rng.randrange(4))]])
        elif r < 0.45:
            cmds.append(['set', 1, 0, rng.randrange(5), v])
        elif r < 0.55:
            cmds.append(['get', 1, 0, rng.randrange(5)])
        elif r < 0.6:
            cmds.append(['get', 0, 0, rng.randrange(2)])
        elif r < 0.68:
            cmds.append(['hdr_items', 0])
        elif r < 0.75:
            cmds.append(['attr_items', 1, 0, 2])
        elif r < 0.8:
            cmds.append(['env_set', 0, rng.choice([1, 7]), v])
        elif r < 0.84:
            cmds.append(['hget', 0])
        elif r < 0.87:
            cmds.append([rng.choice(['hset_fresh', 'hset_headers']), 0])
        elif r < 0.9:
            cmds.append(['copy', 0, 1 + i])
        elif r < 0.93:
            cmds.append(['del', 1, 0, rng.randrange(5)])
        elif r < 0.96:
            cmds.append(['init_resp', 0])
        else:
            cmds.append(['init_req', 0, ['s', '/again%d' % i]])
    cmds.append(['attr_items', 1, 0, 2])
    cmds.append(['get', 1, 0, 1])
    return cmds


def _gen_ops(rng):
    n = rng.choice([2, 2, 3])
    threads = [_gen_thread_cmds(rng, i) for i in range(n)]
    total = sum(len(t) for t in threads)
    order = [rng.randrange(n) for _ in range(total * 2)]
    return _ops(threads, order)


def _gen_script(rng, tok, has_form=False):
    script = []
    for _ in range(rng.randrange(1, 6)):
        r = rng.random()
        if r < 0.25:
            script.append(['see'])
        elif r < 0.40:
            script.append(['hdr', rng.choice(['X-A', 'X-B', 'X-C']), tok + 'h%d' % rng.randrange(3)])
        elif r < 0.48:
            code = rng.choice([201, 202, 404, 418, 204, 304, 797])
            script.append(['status', code if rng.random() < 0.7 else '%d %s phrase' % (code, tok)])
        elif r < 0.56:
            script.append(['cookie', rng.choice(['k', 'm']), tok + 'k'])
        elif r < 0.64:
            script.append(['form_see'])
        elif r < 0.72:
            script.append(['copy'])
            script.append(['see'])
        else:
            # the mapping interfaces of response.headers / request, listeners, ext attributes
            script.extend(sched.gen_api_actions(rng, tok, has_form))
    r = rng.random()
    if r < 0.10:
        script.append(['abort', rng.choice([400, 403, 404, 500])])
    elif r < 0.16:
        script.append(['boom'])
    elif r < 0.28:
        script.append(['gen', rng.randrange(1, 4)])
    elif r < 0.50:
        script.append(sched.gen_terminal(rng, tok))       # every other thing a handler may hand back
    else:
        script.append(['see'])
    return script


def _gen_arr(rng):
    n = rng.choice([2, 2, 2, 3])
    calls = []
    bodyerr = rng.random() < 0.3      # requests whose body cannot be read: the pre-built 400 / 413 of errors_map
    cfg = sorted(set((['max30'] if bodyerr else []) + [c for c in ('debug', 'nocatch', 'domain') if rng.random() < 0.12]
                     + (['debug'] if bodyerr and rng.random() < 0.5 else [])))
    for i in range(n):
        tok = 't%s' % 'ACE'[i]
        kw = dict(pad='z' * rng.choice([0, 0, 3, 11]))
        if bodyerr and rng.random() < 0.85:
            kind = rng.choice(['chunked_bad', 'too_big', 'json_bad', 'json_nonobj'])
            form = {'json_bad': '{"%s": bad' % tok, 'json_nonobj': '["%s", 1]' % tok}.get(kind, 'f=%sf' % tok + 'y' * 40)
            kw.update(method='POST', form=form)
            kw[kind] = True
            if rng.random() < 0.6:
                kw['accept'] = 'application/json'
            # headers (CORS / Vary among them) set before the body error: the error answer carries none of them
            pre = [['hdr', rng.choice(['X-A', 'Access-Control-Allow-Origin', 'Vary', 'Access-Control-Max-Age']), tok + 'h']
                   for _ in range(rng.randrange(0, 3))]
            script = [['see']] * rng.randrange(0, 2) + pre + [['body_read']]
            calls.append(_call(tok, script, **kw))
            continue
        if rng.random() < 0.25:
            # rules with filtered wildcards (process-wide filter cache) / without wildcards, route hook injecting a kwarg
            kw.update(sched.gen_wild_kind(rng))
        elif rng.random() < 0.18:
            # requests the framework answers by itself (404 / 405 / 404-hook / undecodable path), HEAD, domain_map
            kw.update(sched.gen_call_kind(rng, cfg, False))
        elif rng.random() < 0.4:
            kw.update(method='POST', form='f=%sf&g=%sg' % (tok, tok) + tok[-1].lower() * rng.choice([0, 20, 45]))
            if not bodyerr and rng.random() < 0.5:
                kw['chunked_ok'] = True        # a legal chunked upload (two-digit hex size lines)
        if rng.random() < 0.4:
            kw['cookie'] = 'c=%sc' % tok
        if rng.random() < 0.3:
            kw['xt'] = tok + 'xt0'
        if rng.random() < 0.2:
            kw['accept'] = 'application/json'
        if rng.random() < 0.1:
            kw['file_wrapper'] = True
        if rng.random() < 0.3 and 'route' not in kw:
            kw['signed'] = True            # the same signed cookie (mutable payload) in every request that has one
        if rng.random() < 0.15 and 'route' not in kw:
            kw['readonly'] = True
        elif kw.get('form') and not kw.get('chunked_ok') and rng.random() < 0.3:
            kw['hook_input'] = True            # a before_request hook replaces wsgi.input / CONTENT_LENGTH of this request
        script = _gen_script(rng, tok, 'form' in kw)
        if rng.random() < 0.06:
            # one more after_request hook for the time of this handler (other requests are inside emit() meanwhile)
            script = [['hook_change', 'add_after']] + script[:-1] + [['hook_change', 'remove_after'], script[-1]]
        if kw.get('route') in ('static', 'rex', 'int') and rng.random() < 0.5:
            script.insert(rng.randrange(len(script)), ['args_write'])
            script.insert(rng.randrange(len(script)), ['see'])
        if kw.get('signed'):
            script.insert(rng.randrange(len(script)), ['sess_mutate'])
        calls.append(_call(tok, script, **kw))
    switches = [[rng.randrange(1, 1000), rng.randrange(n)] for _ in range(rng.randrange(1, 5))]
    # a third of the scenarios run on workers of a task-based server: each thread inside a copy of the context in which
    # the application was built
    return _arr(calls, rng.randrange(n), switches, cfg=cfg, ctx_copy=rng.random() < 0.33)


def gen(rng, n):
    # a few scenarios, many schedules each: the solo runs are cached per call
    scen = [_gen_arr(rng) for _ in range(max(4, n // 60))]
    for i in range(n):
        if rng.random() < 0.3:
            yield _gen_ops(rng)
        else:
            base = rng.choice(scen)
            nth = len(base['calls'])
            switches = [[rng.randrange(1, 1000), rng.randrange(nth)] for _ in range(rng.randrange(1, 5))]
            yield dict(base, start=rng.randrange(nth), switches=switches)


BATCH = 20000


def thorough():
    """every schedule with 1 or 2 pre-emptions of the two corpus scenarios, in batches run on a process pool"""
    for si, calls in enumerate(SCENARIOS):
        base = _arr(calls, abs=True, reuse=True)
        steps = sched.run_arrangement(dict(base, reuse=False))['steps']
        total = len(sched.enumerate_schedules(steps, 2))
        for lo in range(0, total, BATCH):
            yield dict(kind='batch', scenario=si, steps=steps, lo=lo, hi=min(total, lo + BATCH), preempt=2)


# ---------------------------------------------------------------------------
# implementation, model, comparison
# ---------------------------------------------------------------------------

def _static_tie():
    from ombott import Request, Response
    got = [sorted(sched.ts_props_of(Request)), sorted(sched.ts_props_of(Response))]
    return got == [sorted(sched.REQ_ATTRS), sorted(sched.RESP_ATTRS)], got


def _solo_ops(case):
    """each serving thread alone (after the same set-up), on fresh objects"""
    out = []
    for i, th in enumerate(case['threads']):
        cmds = list(SETUP) + [[i + 1] + c for c in th]
        out.append(sched.run_ops(cmds)[len(SETUP):])
    return out




def _run_batch(case):
    sc = RACE_SCENARIOS[case['race']] if 'race' in case else SCENARIOS[case['scenario']]
    if isinstance(sc, dict):
        return sched.run_batch(case, _arr(sc['calls'], cfg=sc['cfg']))
    return sched.run_batch(case, _arr(sc))


def _run_impl(case):
    ok, got = _static_tie()
    if not ok:
        return dict(kind=case['kind'], tie='ts_props names differ from the model: %s' % got)
    if case['kind'] == 'ops':
        cmds = _cmds(case)
        return dict(kind='ops', outs=sched.run_ops(cmds), solo=_solo_ops(case))
    if case['kind'] == 'batch':
        return _run_batch(case)
    obs = sched.run_arrangement(case)
    obs['kind'] = 'arr'
    return obs


def run_impl(case):
    obs = _run_impl(case)
    first = sched.COMPLAINTS.get(json.dumps(case, sort_keys=True))
    if first and isinstance(obs, dict):
        obs['first_complaint'] = first       # (a replay file is written from a re-run: keep what was said first)
    return obs


def oracle(case, obs):
    # wall-clock limits are not verdicts: see sched.judge
    return sched.judge(case, obs, _run_impl, _oracle)


def encode(case):
    if case['kind'] == 'ops':
        return sched.encode_ops(_cmds(case))
    # the traffic recorded on the thread-local stores while the requests ran (run_impl ran before)
    return sched.encode_ops(sched.trace_cmds(case) or [])


def decode(out, case):
    if case['kind'] == 'ops':
        return dict(kind='ops', outs=sched.decode_ops(out, _cmds(case)))
    return dict(kind=case['kind'], outs=sched.decode_ops(out, sched.trace_cmds(case) or []))


def project(obs, case):
    if case['kind'] == 'ops':
        return dict(kind='ops', outs=obs.get('outs'))
    # what every access to the thread-local stores returned while the real requests were served, to be
    # predicted by the model from the recorded sequence of accesses (batches are not recorded)
    return dict(kind=case['kind'], outs=obs.get('trace_outs', []))


def _oracle(case, obs):
    if obs.get('tie'):
        return obs['tie']
    if 'escaped' in obs:
        return 'harness escape: %s %s' % (obs['escaped'], obs.get('msg'))
    if obs.get('hang') is True and 'threads' not in obs:
        return 'hang'
    if case['kind'] == 'ops':
        # each thread's outcomes under the interleaving = its outcomes alone
        cmds = _cmds(case)
        per = [[] for _ in case['threads']]
        for c, o in zip(cmds[len(SETUP):], obs['outs'][len(SETUP):]):
            per[c[0] - 1].append(o)
        for i, (a, b) in enumerate(zip(per, obs['solo'])):
            if a != b:
                j = next((k for k in range(min(len(a), len(b))) if a[k] != b[k]), min(len(a), len(b)))
                return ('thread %d, command %d %s: outcome %s under the interleaving, %s when the thread runs alone'
                        % (i + 1, j, case['threads'][i][j] if j < len(case['threads'][i]) else '?',
                           a[j] if j < len(a) else None, b[j] if j < len(b) else None))
        return None
    if case['kind'] == 'batch':
        if obs.get('failures'):
            st, sw, f = obs['failures'][0]
            return 'schedule start=%s switches=%s: %s' % (st, sw, f)
        if 'hi' in case and obs.get('ran') != case['hi'] - case['lo'] and obs.get('steps') == case['steps']:
            return 'batch ran %s of %s schedules' % (obs.get('ran'), case['hi'] - case['lo'])
        if not obs.get('ran'):
            return 'batch ran no schedule'
        return None
    return sched.arrangement_failure(case, obs)


def nontrivial(case, obs):
    if case['kind'] == 'ops':
        # some thread's commands are interrupted by another thread's
        seq = [c[0] for c in _cmds(case)[len(SETUP):]]
        changes = sum(1 for a, b in zip(seq, seq[1:]) if a != b)
        return len(case['threads']) >= 2 and changes >= 2
    if case['kind'] == 'batch':
        return obs.get('ran', 0) > 0
    return len(case['calls']) >= 2 and len(obs.get('switches') or []) >= 1


def key(case):
    return json.dumps(case, sort_keys=True)


def classify(case, obs):
    if case['kind'] == 'ops':
        errs = sum(1 for o in obs.get('outs', []) if o and o[0] in ('attr', 'key', 'bad'))
        return 'ops/threads=%d/%s' % (len(case['threads']), 'with-errors' if errs else 'no-errors')
    if case['kind'] == 'batch':
        return 'batch/%s/preempt=%d/schedules=%s' % ('race%d' % case['race'] if 'race' in case else 'scenario%d' % case['scenario'],
                                                   case['preempt'], obs.get('ran'))
    kinds = set()
    for c in case['calls']:
        for a in c['script']:
            if a[0] in ('copy', 'abort', 'boom', 'gen', 'cookie', 'form_see', 'status', 'body_read', 'ret', 'ext', 'listen',
                        'req_set', 'bad_status') or a[0].startswith('hdr_'):
                kinds.add(a[0] if a[0] != 'ret' else 'ret:' + a[1])
        if c.get('route'):
            kinds.add(c['route'])
        for k in ('chunked_ok', 'chunked_bad', 'json_bad', 'json_nonobj', 'too_big', 'domain', 'file_wrapper', 'inject', 'signed'):
            if c.get(k):
                kinds.add(k)
    return 'arr/threads=%d/preempt=%d/%s' % (len(case['calls']), len(obs.get('switches') or []),
                                           '+'.join(sorted(kinds)) or 'plain')


def shrink(case):
    if case['kind'] == 'batch':
        c = sched.BATCH_FAIL.get(json.dumps(case, sort_keys=True))
        if c:
            yield c
        return
    if case['kind'] == 'ops':
        ths = case['threads']
        for i in range(len(ths)):
            for j in range(len(ths[i])):
                yield dict(case, threads=ths[:i] + [ths[i][:j] + ths[i][j + 1:]] + ths[i + 1:])
        if len(case['order']) > 1:
            yield dict(case, order=case['order'][:len(case['order']) // 2])
        return
    calls = case['calls']
    if case.get('switches'):
        yield dict(case, switches=case['switches'][:-1])
    if len(calls) > 2:
        for i in range(len(calls)):
            yield dict(case, calls=calls[:i] + calls[i + 1:], start=0,
                       switches=[[k, 0] for k, _ in case['switches']], abs=False)
    for i, c in enumerate(calls):
        s = c['script']
        for j in range(len(s)):
            yield dict(case, calls=calls[:i] + [dict(c, script=s[:j] + s[j + 1:])] + calls[i + 1:], abs=False)


def _call_index(case):
    """token -> (thread index, application index, nesting depth) for every call of an arrangement"""
    out = {}

    def walk(c, ti, depth):
        if c.get('construct'):
            return
        out.setdefault(c['tok'], []).append((ti, c['app'], depth))
        for a in c['script']:
            if a[0] == 'call':
                walk(a[1], ti, depth + 1)
            elif a[0] == 'call_copy':
                out.setdefault(c['tok'] + 'cc', []).append((ti, a[1], depth + 1))
            elif a[0] == 'listen_around':
                for b in a[1]:
                    if b[0] == 'call':
                        walk(b[1], ti, depth + 1)
    for ti, c in enumerate(case.get('calls', [])):
        walk(c, ti, 0)
    return out


def _listener_in_handler(case, what, m):
    """exactly the listed finding: a listener registered inside a handler heard environ changes made by requests that
    OTHER THREADS serve on the SAME application object (the listeners of one request object are shared by its threads).
    Anything a listener hears from another application, from a copy, or from a nested call is a different failure."""
    import re
    what = str(what)
    if case.get('kind') != 'arr' or '(listen)' not in what or 'foreign tokens:' not in what:
        return False
    mm = re.search(r'call (\S+) \(listen\).*foreign tokens: ([^;]*);', what)
    if not mm:
        return False
    idx = _call_index(case)
    mine = idx.get(mm.group(1))
    foreign = mm.group(2).split()
    if not mine or not foreign:
        return False
    # (a token may name several calls: two copies forwarded by one handler)
    for tok in foreign:
        if not any(o[0] != me[0] and o[1] == me[1] for me in mine for o in idx.get(tok, [])):
            return False
    return True


PREDICATES = {'listener_registered_in_handler': _listener_in_handler}

# the audit tables are shared with C10 (same anchored code, same arrangement machinery)
from props.C10 import API_SURFACE, SHARED_STATE  # noqa: E402,F401

MANIFEST = dict(
    text=('Proof (partial — the logic of the isolation, not the interpreter): theorems C08_noninterference, C08_frame and '
          'C08_request_lifecycle (Coq, closed under the global context) state for ALL schedules (any number of threads, '
          'any interleaving at op granularity, unbounded length), ALL thread programs (resumptions) and all initial '
          'worlds that the ops a thread issues and the results it gets are exactly those of the thread running alone, '
          'because a step of another thread changes only cells keyed by that thread; the request lifecycle '
          '(request.__init__(environ), response.__init__(), any handler activity within the op vocabulary, the reads '
          'of status and header list) is shown to stay inside that vocabulary. C08_headerdict_constructor_refuted '
          'shows the hypothesis is needed. The model (coq/model/TsProps.v) is tied to /repo on every run by a '
          'differential correspondence on real objects driven on real threads, and the controlled scheduler runs real '
          'WSGI requests under thousands of pre-emption schedules (thorough: every schedule with <= 2 pre-emptions of '
          'two scenarios), each response compared with its solo response. NOT proved: atomicity of each op (GIL, '
          'bytecode-level getattr/setattr on threading.local, C-level dict safety).'),
    note=('Trusted: Coq kernel + vm_compute; extraction (ExtrOcamlBasic only); the Python harness and scheduler. '
          'Runtime remainder named in trusted_base. Scheduler exploration supports the model; it is not an obligation.'),
    technique='Coq proof (frame invariant + simulation against the solo run over an interleaving semantics) + model/implementation correspondence + controlled thread scheduler',
    design_ref='DESIGN.md section 4, C08; Appendix A.8',
)
