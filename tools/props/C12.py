"""C12 — malformed request bodies yield client errors, never server faults."""
import io
import json
import re
import signal

from props.common import FragStream, enc_str, enc_list, Reader, environ
from props import C07 as F

ID = 'C12'
COQ_MODEL = 'model.BodyPipeline'
COQ_CORR = 'corr_C12'
N_QUICK = 2500
N_THOROUGH = 12000
RULE = ('cases = corpus (every exception site of finding F16, one input each) + three generated streams through '
        'Ombott.__call__: (i) grammar mutations of well-formed multipart bodies (drop/duplicate/corrupt delimiters, the '
        'six header breakages, garbage/preamble, truncation at every offset class, non-UTF-8 bytes), (ii) JSON (valid, '
        'invalid, non-object, deeply nested, non-UTF-8, empty) and urlencoded junk, (iii) random bytes; x content types '
        '(boundary present/missing/with CR/quoted, upper case, json with parameters, look-alikes) x Content-Length '
        '(exact, short, long, absent) with short-read schedules or chunked framing (valid and corrupted encodings, full '
        'reads) x max_memfile_size 1..body+2 and 100 KiB x optional max_body_size x access forms/files/POST/json/body. '
        'Observed: status, traceback on wsgi.errors, and for 200 the delivered dictionaries / json kind / body bytes. '
        'non-trivial = the body is not a well-formed request of its content type (outcome 4xx) or it is well-formed '
        'multipart with >= 1 part; distinct by (content type class, framing, outcome, access, first 24 body bytes)')
TRUSTED = ['modelled, not verified: json.loads (the model gets, per case, whether it raises and the kind of value it returns '
           'from the real json.loads; assumed to raise only ValueError or RecursionError); parse_qsl is total (C18) and its '
           'result is not represented; the three regular expressions as hand-derived scanners (texts pinned against Gen.v); '
           'wsgi.input as coq/model/Stream.v; CONTENT_TYPE is a str without lone surrogates (PEP 3333: latin-1)',
           'int(CONTENT_LENGTH) as lib/PyIntParse.v py_int_dec (exact on latin-1 strings; non-ASCII decimal digits are not '
           'modelled); Transfer-Encoding through Chunked.te_chunked']
ASSUMPTIONS = ['CONTENT_LENGTH, when present and non-empty, is accepted by int() (otherwise 500: finding C12-content-length-not-int)', 'max_memfile_size >= 1', 'wsgi.input.read(n) returns at most n bytes and b"" only at EOF',
               'chunked framing is exercised with full reads only (short reads: C05/F5)',
               'DefaultConfig.errors_map as generated into coq/gen/Gen.v (RequestError, BodySizeError, BodyParsingError)']

ACCESS = ['forms', 'files', 'POST', 'json', 'body']
CT_MP = 'multipart/form-data; boundary=XyZ'


def cps(s):
    return [ord(c) for c in s]


def case(ctype, data, cl='len', chunked=False, sched=None, mem=102400, maxb=None, access='forms', cl_raw=None,
         te=None, pre='none', no_ctype=False, app='own', cfg_via='ctor', lazy='no'):
    """cl: 'len' | int (-1 = header absent) ; cl_raw: the CONTENT_LENGTH header text verbatim (overrides cl) ;
    te: the Transfer-Encoding header text (default: 'chunked' when chunked);
    pre: a property the handler reads BEFORE the observed one ('none' | forms | files | POST | json | body: a partial
    body.read(3)); no_ctype: the CONTENT_TYPE key is absent from environ (ctype must be '');
    app: 'own' | 'shared' (one module-level application for many cases); cfg_via: 'ctor' | 'setup';
    lazy: how the handler consumes the request data: 'no' (inside the handler) | 'gen_all' (the handler returns a generator
    and everything, parsing included, happens when its first chunk is pulled — after Ombott._handle returned) |
    'gen_after' (parsed in the handler, but forms/uploads/body are READ by the generator after the response has started:
    the server pulls the second chunk) | 'file' (the handler returns the first upload's file object as the response)"""
    data = list(data)
    if cl_raw is None:
        n = len(data) if cl == 'len' else cl
        cl_raw = None if n == -1 else str(n)
    if te is None:
        te = 'chunked' if chunked else ''
    return dict(ctype=cps(ctype), data=data, cl_raw=None if cl_raw is None else cps(cl_raw), te=cps(te),
                chunked='chunked' in te.lower(), sched=sched or [], mem=mem, maxb=maxb, access=access, pre=pre,
                no_ctype=bool(no_ctype and not ctype), app=app, cfg_via=cfg_via, lazy=lazy)


def cl_text(case):
    return None if case['cl_raw'] is None else ''.join(chr(c) for c in case['cl_raw'])


def cl_int(case):
    """int(environ.get('CONTENT_LENGTH') or -1); None when int() raises"""
    t = cl_text(case)
    try:
        return int(t or -1)
    except ValueError:
        return None


def part(disp, data, extra=b''):
    return b'--XyZ\r\n' + disp + extra + b'\r\n\r\n' + data + b'\r\n'


END = b'--XyZ--\r\n'
CD = b'Content-Disposition: form-data; '


def corpus():
    ok1 = part(CD + b'name="a"', b'v')
    okf = part(CD + b'name="f"; filename="x.txt"', b'DATA\r\n--Xy', b'\r\nContent-Type: text/plain')
    out = [
        # ---- the exception sites of F16, one witness each (all were 500 before the fix)
        case(CT_MP, part(CD + b'name="\xff"', b'v') + END),                       # UnicodeDecodeError in headers
        case(CT_MP, part(b'Content-Disposition form-data', b'v') + END),          # header line without colon
        case(CT_MP, part(b'Content-Disposition:', b'v') + END),                   # nothing after the colon
        case(CT_MP, part(CD[:-2], b'v') + END),                                   # KeyError name
        case(CT_MP, part(CD + b'name', b'v') + END),                              # name without value
        case(CT_MP, part(b'Content-Type: text/plain', b'v') + END),               # no Content-Disposition
        case(CT_MP, part(CD + b'name="a"', b'\xff') + END),                       # UnicodeDecodeError in a value
        case(CT_MP, b'garbage' + ok1 + END),                                      # InvalidBoundaryError
        case(CT_MP, b'\r\npre\r\n' + ok1 + END),                                  # data before the first boundary
        case(CT_MP, b'--XyZ\r\n' + ok1 + END),                                    # duplicated delimiter
        case(CT_MP, b'--XyZ\r\n\r\n\r\nv\r\n' + END),                             # empty header block (UnboundLocalError)
        case(CT_MP, (ok1 + END)[:-6]),                                            # truncated: no data for field
        case(CT_MP, ok1 + b'--XyZ-x'),                                            # UnexpectedBodyEndError
        case(CT_MP, b'--XyZ\rX' + ok1 + END),                                     # MalformedHeadersError
        case(CT_MP, part(CD + b'name="a"', b'v' * 50) + END, mem=60),             # in-memory budget -> 413
        case('multipart/form-data; boundary=a\rb', b'x'),                         # CR in the boundary
        case('multipart/form-data; boundary=a\rb', b'x', access='body'),
        case('multipart/form-data', ok1 + END),                                   # no boundary: markup is None
        case('Multipart/form-data; boundary=XyZ', ok1 + END),                     # upper case: regex does not match
        case('application/json', b'{', access='json'),                            # JSONDecodeError
        case('application/json', b'\xff', access='json'),                         # UnicodeDecodeError
        case('application/json', b'[' * 3000, access='json'),                     # RecursionError
        case('application/json', b'[1]'),                                         # non-dict JSON with forms
        case('application/json', b'1.5', access='POST'),
        case('application/json', b'null', access='files'),
        case('application/json', b''),                                            # empty body: update(None)
        case('application/json', b'{"a": 1}'),
        case('application/json; charset=utf-8', b'{"a": [1, {"b": 2}]}', access='json'),
        case('application/jsonx', b'{'),                                          # POST takes the json branch, json does not
        case('APPLICATION/JSON', b'{', access='json'),
        # ---- the good paths
        case(CT_MP, ok1 + okf + END, access='files'),
        case(CT_MP + '; charset=utf-8', ok1 + END),
        case(CT_MP, ok1 + okf + END, mem=7, access='body'),
        case(CT_MP, okf + END, mem=9, access='files', sched=[0, 3, 1, 0, 0, 5]),
        case('application/x-www-form-urlencoded', b'a=1&b=%zz&&=&%ff'),
        case('', b'a=1'),
        case('text/plain', b'\xff\xfe', access='body'),
        # ---- framing
        case(CT_MP, ok1 + END, cl=-1),                                            # no Content-Length: empty body
        case(CT_MP, ok1 + END, cl=5),
        case(CT_MP, ok1 + END, cl=500),
        case(CT_MP, ok1 + END, maxb=10),                                          # max_body_size -> 413
        case('application/json', b'{"a": 1}', mem=4, access='json'),              # larger than the threshold -> 413
        case('application/json', b'{"a": 1}', cl=-1, access='json'),
    ]
    wire = F.chunked(ok1 + okf + END, [5, 9])
    out += [
        case(CT_MP, wire, cl=-1, chunked=True, mem=64),
        case(CT_MP, wire[:-3], cl=-1, chunked=True, mem=64),                      # truncated chunked encoding
        case(CT_MP, b'zz\r\n' + wire, cl=-1, chunked=True, mem=64),               # bad size line
        case(CT_MP, wire, cl=-1, chunked=True, mem=2),                            # size line longer than the buffer
        case('application/json', F.chunked(b'{"a": 1}', [3]), cl=-1, chunked=True, mem=64, access='json'),
        case(CT_MP, wire, cl=7, te='gzip, Chunked', mem=64, access='files'),      # chunked wins over Content-Length
        case(CT_MP, wire, cl=-1, te='identity', mem=64),                          # not chunked, no length: empty body
    ]
    # ---- CONTENT_LENGTH spellings int() accepts ...
    body = ok1 + END
    for raw in (' %d ' % len(body), '+%d' % len(body), '0%d' % len(body), '%d_0' % (len(body) // 10) if len(body) % 10 == 0
                else '%d' % len(body), '\xa0%d' % len(body), '', '-5'):
        out.append(case(CT_MP, body, cl_raw=raw))
    # ---- ... and rejects: finding C12-content-length-not-int (500)
    for raw in ('abc', '1e3', '12abc', '1.0', '0x10', '1__0', '\xb2', '--1', ' '):
        out.append(case(CT_MP, body, cl_raw=raw))
        out.append(case('application/json', b'{}', cl_raw=raw, access='json'))
    out.append(case('text/plain', b'x', cl_raw='abc', access='body'))
    out.append(case(CT_MP, wire, cl_raw='abc', te='chunked', mem=64))            # parsed even when chunked
    out.append(case('text/plain', b'{}', cl_raw='abc', access='json'))             # body never read: 200
    # ---- audit round: two properties read in a row, missing CONTENT_TYPE key, one application for many requests,
    # configuration through setup(), short reads under chunked framing
    out.append(case(CT_MP, ok1 + okf + END, pre='body', access='files'))
    out.append(case(CT_MP, ok1 + okf + END, pre='forms', access='body', mem=9))
    out.append(case('application/json', b'{"a": 1}', pre='json', access='forms'))
    out.append(case('application/json', b'{', pre='json', access='body'))                 # the first access ends the request
    out.append(case('application/json', b'[1]', pre='body', access='POST'))
    out.append(case(CT_MP, b'garbage', pre='body', access='forms'))
    out.append(case('', b'a=1&b=2', no_ctype=True))
    out.append(case('', b'a=1', no_ctype=True, access='json'))
    out.append(case(CT_MP, ok1 + END, app='shared', cfg_via='setup', mem=64))
    out.append(case(CT_MP, part(CD + b'name="a"', b'v' * 50) + END, app='shared', cfg_via='setup', mem=60))   # 413 ...
    out.append(case(CT_MP, ok1 + END, app='shared', cfg_via='setup', mem=64))                                  # ... then 200 again
    out.append(case('application/json', b'{', app='shared', cfg_via='setup', access='json'))
    out.append(case(CT_MP, ok1 + END, cfg_via='setup', maxb=10))
    out.append(case(CT_MP, F.chunked(ok1 + okf + END, [5, 9]), cl=-1, chunked=True, mem=16, access='files',
                    sched=[0, 1, 0, 0, 2, 0, 5, 0, 0, 3] * 30))
    out.append(case(CT_MP, F.chunked(ok1 + okf + END, [5, 9])[:-9], cl=-1, chunked=True, mem=16, sched=[0, 2] * 90))
    # ---- json.loads raising a PLAIN ValueError (CPython >= 3.11: integer literal of more than 4300 digits): seed C12-9
    out.append(case('application/json', b'9' * 5000, access='json'))
    out.append(case('application/json', b'{"a": ' + b'1' * 4400 + b'}', access='forms'))
    out.append(case('application/json', F.chunked(b'[' + b'9' * 4301 + b']', [4000, 500]), cl=-1, chunked=True, mem=8192,
                    access='json'))
    out.append(case('application/json', b'9' * 4300, access='json'))                              # still legal
    out.append(case('application/json', b'"\\ud83d"', access='json'))                             # lone surrogate: legal
    out.append(case('application/json', b'{"a":1,"a":2}', access='forms'))
    # ---- control bytes that survive str.splitlines inside the part headers of an UPLOAD (seed C12-10)
    for hv in (b'X-Custom: a\x00b', b'Content-Type: text/\x00plain', b'Content-Type: text/plain\x00; charset=utf-8',
               b'X-A: \x01\x02\x7f', b'X-B: \x1f', b'Content-Transfer-Encoding: \x00', b'X\x00Name: v'):
        out.append(case(CT_MP, part(CD + b'name="f"; filename="x.bin"', b'DATA', b'\r\n' + hv) + END, access='files'))
    out.append(case(CT_MP, part(CD + b'name="f\x00"; filename="x\x00.bin"', b'DATA', b'\r\nContent-Type: a/b') + END,
                    access='POST'))
    out.append(case(CT_MP, part(CD + b'name="t"', b'v', b'\r\nX-Custom: a\x00b') + END))
    # ---- extended parameters filename*= / name*= (RFC 5987), well-formed and malformed, on uploads and text parts
    for sp in STAR_PARAMS:
        out.append(case(CT_MP, part(CD + b'name="f"; filename="x.bin"; ' + sp, b'DATA', b'\r\nContent-Type: a/b') + END,
                        access='files'))
    for sp in STAR_PARAMS[3:9]:
        out.append(case(CT_MP, part(CD + b'name="f"; ' + sp, b'DATA') + END, access='POST'))
        out.append(case(CT_MP, part(CD + sp + b'; name="f"', b'DATA') + END, access='forms'))
    # ---- the delimiter search across scan blocks and received chunks: value lengths 0..3*len(token) (one alignment in
    # len(token) puts the CR of the next delimiter at the end of a block), and a buffer boundary at every offset of a
    # small two-part body (max_memfile_size IS the chunking) — seed C12-17
    for ln in range(0, 22):
        out.append(case(CT_MP, part(CD + b'name="a"', b'x' * ln) + part(CD + b'name="b"', b'v') + END, access='POST'))
    small = part(CD + b'name="a"', b'12345') + part(CD + b'name="b"', b'v') + END
    for cut in range(1, len(small) + 1):
        out.append(case(CT_MP, small, mem=max(cut, 45), sched=[cut - 1] + [999] * 3, access='forms'))
    for piece in range(1, 40):
        out.append(case(CT_MP, F.chunked(small, [piece]), cl=-1, chunked=True, mem=64, access='forms'))
    # ---- data consumed LAZILY, after the handler (and Ombott._handle) returned, with bodies above max_memfile_size
    # (buffered in a temporary file): generator handlers, an upload's file object returned as the response
    bigf = part(CD + b'name="f"; filename="x.bin"', bytes(range(256)) * 3, b'\r\nContent-Type: a/b')
    for lz in ('gen_all', 'gen_after', 'file'):
        out.append(case(CT_MP, ok1 + bigf + END, mem=200, access='files', lazy=lz))
        out.append(case(CT_MP, ok1 + bigf + END, mem=102400, access='POST', lazy=lz))
        out.append(case(CT_MP, F.chunked(ok1 + bigf + END, [300, 90], 1), cl=-1, chunked=True, mem=128, access='forms', lazy=lz))
    out.append(case('text/plain', bytes(range(200)) * 4, mem=64, access='body', lazy='gen_after'))
    out.append(case('text/plain', bytes(range(200)) * 4, mem=64, access='body', lazy='gen_all'))
    out.append(case('application/x-www-form-urlencoded', b'a=1&b=2', mem=4, access='forms', lazy='gen_all'))      # 413 from a generator
    out.append(case(CT_MP, b'garbage', access='forms', lazy='gen_all'))                                            # 400 from a generator
    out.append(case('application/json', b'{', access='json', lazy='gen_all'))
    out.append(case('application/json', b'{"a": 1}' + b' ' * 300, mem=400, access='json', lazy='gen_after'))
    # ---- "count" thresholds a hardening might add: very many tiny fields / bare separators / keys / parts (seed C12-13).
    # (kept after the first 40 corpus cases: those are also evaluated inside Coq)
    many = [b'&' * 2000, b'&'.join(b'k%d=%d' % (i, i) for i in range(1001)), b'a=1&' * 1500, b'a&' * 3000, b';' * 2500,
            b'=&' * 1200, b'&'.join(b'a' for _ in range(1000))]
    for i, b in enumerate(many):
        out.append(case('application/x-www-form-urlencoded', b, access=['forms', 'POST', 'files'][i % 3]))
    out.append(case('application/x-www-form-urlencoded', F.chunked(many[1], [4096]), cl=-1, chunked=True, mem=8192))
    out.append(case('', F.chunked(many[0], [700, 900]), cl=-1, chunked=True, mem=4096, sched=[50, 3, 700] * 40))
    out.append(case('application/json', b'{' + b','.join(b'"k%d":%d' % (i, i) for i in range(2000)) + b'}', access='forms'))
    out.append(case('application/json', b'[' + b','.join(b'0' for _ in range(5000)) + b']', access='json'))
    tiny = b''.join(part(CD + b'name="a"', b'v') for _ in range(1001))
    out.append(case(CT_MP, F.chunked(tiny + END, [6000]), cl=-1, chunked=True, mem=65536))   # 1001 text parts, 6 kB pieces
    out.append(case(CT_MP, F.chunked(b''.join(part(CD + b'name="f%d"; filename="x"' % i, b'', b'\r\nContent-Type: a/b')
                                              for i in range(1001)) + END, [8000]), cl=-1, chunked=True, mem=16384,
                    access='files'))
    # ---- F37: forms/json of a chunked request ignore a Content-Length sent next to it (too small / too large / 0)
    jw = F.chunked(b'{"a": 1}', [3])
    out.append(case('application/json', jw, cl=3, chunked=True, mem=64, access='json'))
    out.append(case('application/json', jw, cl=0, chunked=True, mem=64, access='forms'))
    out.append(case('application/json', jw, cl=5000, chunked=True, mem=64, access='json'))        # was 413
    out.append(case('application/x-www-form-urlencoded', F.chunked(b'a=1&b=2', [2, 9]), cl=2, chunked=True, mem=64))
    # ---- per-part headers beyond Content-Disposition: the part's own Content-Type (with a charset Python knows, does
    # not know, or that is not a text codec), Content-Transfer-Encoding, duplicates, on TEXT parts and on uploads
    for cs in (b'utf-8', b'latin-1', b'klingon', b'x-user-defined', b'hex', b'base64', b'', b'"utf-8"', b'"klingon"',
               b'utf-16', b'undefined', b'unicode_escape'):
        out.append(case(CT_MP, part(CD + b'name="a"', b'\xc3\xa9v', b'\r\nContent-Type: text/plain; charset=' + cs) + END))
    out.append(case(CT_MP, b'--XyZ\r\nContent-Type: text/plain; charset=klingon\r\n' + CD + b'name="a"\r\n\r\nv\r\n' + END))
    out.append(case(CT_MP, part(CD + b'name="a"', b'aGk=', b'\r\nContent-Transfer-Encoding: base64\r\nContent-Type: text/plain; charset=hex')
                    + END, access='POST'))
    out.append(case(CT_MP, part(CD + b'name="a"', b'v', b'\r\nContent-Type: text/plain; charset=utf-8\r\nContent-Type: x/y; charset=klingon')
                    + END))
    out.append(case(CT_MP, part(CD + b'name="f"; filename="x"', b'\xff', b'\r\nContent-Type: text/plain; charset=klingon') + END,
                    access='files'))
    out.append(case(CT_MP, part(CD + b'name="a"', b'v' * 30, b'\r\nContent-Type: text/plain; charset=klingon') + END, mem=17,
                    cl='len', chunked=False))
    wire2 = F.chunked(part(CD + b'name="a"', b'v', b'\r\nContent-Type: text/plain; charset=x-user-defined') + END, [9, 4])
    out.append(case(CT_MP, wire2, cl=-1, chunked=True, mem=64))
    # ---- header lines that make a backtracking option regex explode (the "never hangs" clause): long runs of
    # backslashes / quotes / semicolons inside a quoted parameter that is not properly closed
    out.append(case(CT_MP, part(CD + b'name="' + b'\\' * 40, b'v') + END))                 # no closing quote
    out.append(case(CT_MP, part(CD + b'name="' + b'\\' * 64 + b'"x', b'v') + END))           # closing quote, then junk
    out.append(case(CT_MP, part(CD + b'name="a"; filename="' + b'\\"' * 30 + b'\\', b'v') + END, access='files'))
    out.append(case(CT_MP, part(CD + b'name=' + b'"' * 90 + b';' * 60 + b'=' * 50, b'v') + END))
    return out


# ---------------------------------------------------------------- generators
FRAG = [b'--XyZ', b'\r\n', b'--', b'\r', b'\n', b'Content-Disposition', b': ', b':', b'form-data', b'; ', b'name=', b'"a"',
        b'filename=', b'"f"', b'""', b'Content-Type: text/plain', b'\xff', b'\xc3\xa9', b'x', b'=', b';', b'"', b' ', b'-',
        b'--XyZ--', b'\r\n\r\n', b'\xc2\x85', b'\x0b', b'\xe2\x80\xa8', b'\r\n--XyZ', b'\r\n--XyZ\r\n', b'\n\r\n']


CHARSETS = [b'utf-8', b'UTF-8', b'latin-1', b'iso-8859-1', b'ascii', b'utf-16', b'cp1252', b'x-user-defined', b'klingon',
            b'hex', b'base64', b'rot13', b'zlib', b'idna', b'punycode', b'unicode_escape', b'undefined', b'', b'"utf-8"',
            b'"klingon"', b'utf-8; x=y', b'\xc3\xa9', b'utf 8', b'mbcs', b'utf-8\x00']
EXTRA_HEADERS = [b'Content-Transfer-Encoding: binary', b'Content-Transfer-Encoding: base64', b'Content-Transfer-Encoding: 8bit',
                 b'Content-Length: 3', b'Content-Length: abc', b'X-Custom: a; b=c; d="e;f"', b'Content-Type: text/html',
                 b'content-type: text/plain; charset=klingon', b'Content-ID: <x@y>', b'Content-Disposition: attachment',
                 b'Content-Type: multipart/mixed; boundary=inner', b'Content-Type:', b'Content-Type: ;charset=utf-8',
                 b'Content-Type: text/plain; CHARSET=KLINGON', b'Content-Type: text/plain; charset',
                 # control bytes that survive str.splitlines (NUL, SOH, US, DEL ...) in header names and values
                 b'X-Custom: a\x00b', b'Content-Type: text/\x00plain', b'Content-Type: \x00', b'X-Ctl: \x01\x02\x08\x0e\x1b\x1f\x7f',
                 b'Content-Transfer-Encoding: bin\x00ary', b'X\x00Y: v', b'Content-Type: text/plain\x00; charset=utf-8',
                 b'X-Tab:\ta\tb', b'Content-Length: 4\x00']
# RFC 5987 / 6266 extended parameters in Content-Disposition, well-formed and malformed
STAR_PARAMS = [b"filename*=UTF-8''%e2%82%ac.txt", b"filename*=utf-8'en'a%20b.txt", b"filename*=iso-8859-1''%e9.txt",
               b'filename*=%e2%82%ac.txt', b"filename*=klingon''a%ff.txt", b"filename*=UTF-8'%e2", b"filename*=''", b'filename*=',
               b"filename*=UTF-8''%ff%fe", b"filename*=UTF-8''%zz", b"filename*=hex''61", b"filename*='", b"filename*=a'b",
               b"filename*=\"UTF-8''x\"", b"name*=UTF-8''n%c3%a9", b"name*=x", b"FILENAME*=utf-8''A", b"filename*0=a; filename*1=b",
               b"filename*=UTF-8''" + b'%41' * 60, b"filename*=utf-16''%ff%fe%41%00"]


def part_headers(rng):
    """per-part headers beyond Content-Disposition: a Content-Type with parameters (charset known / unknown / not a
    text codec / empty / quoted), Content-Transfer-Encoding, duplicates; returns (before, after) Content-Disposition"""
    hs = []
    if rng.random() < 0.6:
        ct = rng.choice([b'text/plain', b'text/plain', b'application/octet-stream', b'text/x; format=flowed'])
        hs.append(b'Content-Type: ' + ct + b'; charset=' + rng.choice(CHARSETS))
    for _ in range(rng.choice([0, 0, 1, 1, 2])):
        hs.append(rng.choice(EXTRA_HEADERS))
    if hs and rng.random() < 0.15:
        hs.append(hs[0])                                           # a duplicated header
    rng.shuffle(hs)
    k = rng.randrange(0, len(hs) + 1) if rng.random() < 0.3 else 0
    before = b''.join(h + b'\r\n' for h in hs[:k])
    after = b''.join(b'\r\n' + h for h in hs[k:])
    return before, after


def good_multipart(rng):
    parts = []
    for _ in range(rng.randrange(0, 4)):
        nm = rng.choice([b'a', b'b', b'a;b', b'\xc3\xa9', b''])
        if rng.random() < 0.45:
            before, after = part_headers(rng)
            val = rng.choice([b'v', b'v' * 25, b'\xc3\xa9', b'\xff\xfe', b'aGk=', b'', b'\r\n-'])
            kind = rng.random()
            star = b''
            if rng.random() < 0.2:
                star = b'; ' + rng.choice(STAR_PARAMS)
                if rng.random() < 0.3:
                    star = star + b'; ' + rng.choice(STAR_PARAMS)
            after = star + after if rng.random() < 0.0 else after
            if kind < 0.5:
                disp = CD + b'name="' + nm + b'"' + star
            elif star and rng.random() < 0.5:
                disp = CD + b'name="' + nm + b'"; filename="f.txt"' + star
            elif star:
                disp = CD + star[2:] + b'; name="' + nm + b'"'
            else:
                disp = CD + b'name="' + nm + b'"; filename="' + rng.choice([b'f.txt', b'f.txt', b'a\x00b', b'']) + b'"'
            parts.append(b'--XyZ\r\n' + before + disp + after + b'\r\n\r\n' + val + b'\r\n')
            continue
        if rng.random() < 0.4:
            fn = rng.choice([b'f.txt', b'', b'x;y'])
            data = bytes(rng.choice([13, 10, 45, 88, 255, 0]) for _ in range(rng.randrange(0, 14)))
            if b'\r\n--XyZ' in data + b'\r\n--XyZ'[:-1]:
                data = b'zz'
            parts.append(part(CD + b'name="' + nm + b'"; filename="' + fn + b'"', data, b'\r\nContent-Type: text/plain'))
        else:
            parts.append(part(CD + b'name="' + nm + b'"', rng.choice([b'', b'v', b'v' * 25, b'\xc3\xa9', b'\r\n-'])))
    return b''.join(parts) + END


def mutate(rng, b):
    b = bytearray(b)
    for _ in range(rng.randrange(1, 4)):
        r = rng.random()
        i = rng.randrange(0, len(b) + 1)
        if r < 0.3:
            b[i:i] = rng.choice(FRAG)
        elif r < 0.5:
            j = min(len(b), i + rng.randrange(1, 8))
            del b[i:j]
        elif r < 0.6:
            b = b[:i]
        elif r < 0.8 and len(b):
            b[i % len(b)] = rng.choice([13, 10, 45, 58, 59, 61, 34, 255, 0x85, 0])
        else:
            j = rng.randrange(0, len(b) + 1)
            b[i:i] = b[j:j + rng.randrange(1, 10)]
    return bytes(b)


# every exception json.loads can raise: JSONDecodeError, UnicodeDecodeError, RecursionError and the PLAIN ValueError of
# CPython >= 3.11 for an integer literal of more than 4300 digits; plus legal oddities (NaN/Infinity, huge floats and
# exponents, duplicate keys, lone surrogates, BOMs, UTF-16/32 bodies)
JSONS_HEAVY = [b'9' * 5000, b'[' + b'9' * 4301 + b']', b'{"a": ' + b'1' * 4400 + b'}', b'-' + b'9' * 4301, b'1' + b'0' * 4300,
               b'9' * 4300, b'{"n": [1, 2, {"x": -' + b'7' * 4500 + b'}]}', b'0.' + b'1' * 5000, b'1E+' + b'9' * 5000,
               b'1e-' + b'9' * 4400, b'{"a":' * 1500 + b'1' + b'}' * 1500, b'"' + b'x' * 6000 + b'"']
JSONS_ODD = [b'Infinity', b'-Infinity', b'[NaN, Infinity]', b'{"a":1,"a":2}', b'"\\ud83d"', b'{"\\ud83d": "\\udc00"}',
             b'"\\ud83d\\ude00"', b'\xff\xfe[\x001\x00]\x00', b'\x00\x00\x00[\x00\x00\x001\x00\x00\x00]', b'\xfe\xff\x00[\x00]',
             b'\xef\xbb\xbf[1]', b'"\\x"', b'"\t"', b'[1,]', b'{"a":1,}', b'01', b'1.', b'.5', b'-', b'+1', b'1e', b'"\\u12"',
             b"{'a': 1}", b'[1] [2]', b'\x00', b'tru', b'nul', b'{"a": {"b": {"c": [[[[]]]]}}}', b'-0', b'1e400', b'-1e400',
             b'\xc3\x28', b'"\xed\xa0\x80"', b'"\xf4\x90\x80\x80"']
JSONS = JSONS_HEAVY + JSONS_ODD + [b'', b'{', b'[1]', b'{"a":1}', b'null', b'1.5', b'"s"', b'\xff', b'[' * 1200, b'{"a":[1,{"b":2}]}', b'true', b'0',
         b'{}', b' {"a": "\\u00e9"} ', b'{"a":1}x', b'\xef\xbb\xbf{}', b'{"a":NaN}', b'[' * 40 + b']' * 40, b'{"a" 1}',
         b'\xff\xfe{\x00}\x00']
CT_JSON = ['application/json', 'application/json; charset=utf8', 'application/jsonx', ' application/json', 'Application/JSON',
           'application/json ;x', 'application/json\x85; x']
CT_MPS = [CT_MP] * 10 + ['multipart/form-data', 'multipart/form-data; boundary=X\ryZ', CT_MP + '; charset=x',
                         'multipart/x; boundary=', 'Multipart/form-data; boundary=XyZ', 'multipart/form-data; boundary="XyZ"',
                         'multipart/; boundary=XyZ', 'multipart/xboundary=XyZ', 'multipart/form-data; boundary=XyZ\n',
                         'multipart/form-data;boundary=XyZ;', 'multipart/form-data; boundary=é']
CT_OTHER = ['application/x-www-form-urlencoded', '', 'text/plain', 'multipart', 'multipart/', 'application/jso']


RUN_ATOMS = [b'\\', b'\\', b'\\"', b'"', b';', b'=', b'\\\\', b'a', b' ', b'";', b'\\;']


def nasty_header(rng):
    """a Content-Disposition line whose quoted parameter holds a long run (30..200) of backslashes / quotes /
    semicolons and is not properly closed: no closing quote, or a closing quote followed by something else"""
    ln = rng.choice([30, 40, 64, 70, 100, 200])
    kind = rng.random()
    if kind < 0.5:
        run = rng.choice([b'\\', b'\\', b'\\"', b'\\\\']) * ln
    else:
        run = b''.join(rng.choice(RUN_ATOMS) for _ in range(ln))
    tail = rng.choice([b'', b'"x', b'" x', b'"=', b'\\', b'"', b'";'])
    param = rng.choice([b'name="', b'name="a"; filename="', b'filename="'])
    return CD + param + run + tail


def extra(rng, ctype):
    """the audit dimensions: a property read before the observed one, absent CONTENT_TYPE, shared application,
    configuration path"""
    return dict(lazy=rng.choice(['no', 'no', 'no', 'gen_all', 'gen_after', 'file']),
                pre=rng.choice(['none', 'none', 'none', 'body', 'json', 'forms', 'files', 'POST']),
                no_ctype=(ctype == '' and rng.random() < 0.5),
                app=rng.choice(['own', 'own', 'shared']), cfg_via=rng.choice(['ctor', 'setup']))


def gen(rng, n):
    for _ in range(n):
        r = rng.random()
        chunked_ok = True
        if r < 0.006:
            body = part(nasty_header(rng), b'v') + (END if rng.random() < 0.8 else b'')
            c = case(CT_MP, body, mem=rng.choice([102400, 64, 17]), access=rng.choice(['forms', 'files', 'POST']))
            c['hang_family'] = True
            yield c
            continue
        if r < 0.55:
            body = good_multipart(rng)
            if rng.random() < 0.85:
                body = mutate(rng, body)
            ctype = rng.choice(CT_MPS)
            access = rng.choice(['forms', 'files', 'POST', 'forms', 'files', 'POST', 'json', 'body'])
        elif r < 0.8:
            body = rng.choice(JSONS)
            ctype = rng.choice(CT_JSON)
            access = rng.choice(['json', 'json', 'forms', 'POST', 'files', 'body'])
        elif r < 0.805:
            n = rng.choice([999, 1000, 1001, 1500, 3000])
            body = rng.choice([b'&' * n, b'a=1&' * n, b'&'.join(b'k%d=v' % i for i in range(n)), b'a;' * n, b'=&' * n])
            ctype = rng.choice(['application/x-www-form-urlencoded', '', 'text/plain'])
            access = rng.choice(['forms', 'POST', 'files'])
        elif r < 0.9:
            body = bytes(rng.choice(b'a=&%+;\xff\xe9 19g') for _ in range(rng.randrange(0, 30)))
            ctype = rng.choice(CT_OTHER)
            access = rng.choice(ACCESS)
        else:
            body = bytes(rng.choice([13, 10, 45, 88, 121, 90, rng.randrange(256)]) for _ in range(rng.randrange(0, 60)))
            ctype = rng.choice(CT_MPS + CT_JSON + CT_OTHER)
            access = rng.choice(ACCESS)
        ln = len(body)
        mem = rng.choice([1, 2, 3, 5, 8, 17, 40, 64, 102400, 102400, max(1, ln), max(1, ln - 1), ln + 1, max(1, ln - 2), ln + 2,
                          max(1, ln // 2)])
        if ln > 2000:
            mem = max(mem, 256)          # multi-kB bodies are not read byte by byte (cost only, nothing new is reached)
        maxb = None
        if rng.random() < 0.1:
            maxb = rng.choice([0, ln, max(0, ln - 1), ln + 1, ln // 2])
        fr = rng.random()
        if rng.random() < 0.04:
            raw = rng.choice(['abc', '1e3', '%dx' % ln, '1.5', '', ' %d' % ln, '+%d' % ln, '-1', '0x1', '%d\n' % ln, '\xa0',
                              '1_0', '_1', '\xb9'])
            yield case(ctype, body, cl_raw=raw, mem=mem, maxb=maxb, access=access,
                       te=rng.choice(['', '', 'chunked']))
            continue
        if fr < 0.25:
            # chunked framing, full reads; corrupt the encoding sometimes (never for json: the json oracle needs the payload)
            wire = F.chunked(body, [rng.randrange(1, 40) for _ in range(rng.randrange(1, 4))], rng.randrange(F.CHUNK_STYLES))
            is_json = ctype.lower().lstrip().startswith('application/json')
            if rng.random() < 0.3 and not is_json:
                wire = mutate(rng, wire)
            cl = -1 if rng.random() < 0.8 else rng.choice([0, ln, len(wire), 3])
            csched = [] if rng.random() < 0.5 else [rng.choice([0, 0, 1, 2, 3, 7, 20]) for _ in range(rng.randrange(1, 60))]
            yield case(ctype, wire, cl=cl, mem=mem, maxb=maxb, access=access, sched=csched, **extra(rng, ctype),
                       te=rng.choice(['chunked', 'chunked', 'Chunked', 'gzip, chunked', 'CHUNKED ']))
            continue
        q = rng.random()
        cl = ln if q < 0.7 else max(0, ln - rng.randrange(1, 6)) if q < 0.8 else ln + rng.randrange(1, 9) if q < 0.9 \
            else -1 if q < 0.95 else 0
        sched = [] if rng.random() < 0.6 else [rng.choice([0, 0, 1, 2, 3, 7, 20]) for _ in range(rng.randrange(1, 30))]
        yield case(ctype, body, cl=cl, sched=sched, mem=mem, maxb=maxb, access=access, **extra(rng, ctype))


def thorough():
    """every truncation offset of a three-part body, through forms and files, three buffer sizes"""
    full = (part(CD + b'name="a"', b'v1') + part(CD + b'name="f"; filename="x"', b'D\r\n-', b'\r\nContent-Type: a/b')
            + part(CD + b'name="a"', b'\xc3\xa9') + END)
    for cut in range(len(full) + 1):
        for mem in (1, 7, 102400):
            for access in ('forms', 'files'):
                yield case(CT_MP, full[:cut], mem=mem, access=access)


# ---------------------------------------------------------------- implementation
def jkind(v):
    return 1 if isinstance(v, dict) else 0 if v is None else 2


def payload_of(case):
    """the bytes the framework will buffer when the framing is intact (used for the json oracle only)"""
    data = bytes(case['data'])
    if not case['chunked']:
        return data[:max(cl_int(case) or 0, 0)]
    out, i = b'', 0
    try:
        while True:
            j = data.index(b'\r\n', i)
            n = int(data[i:j].split(b';')[0].strip(), 16)
            if n == 0:
                return out
            out += data[j + 2:j + 2 + n]
            i = j + 2 + n + 2
    except ValueError:
        return out


COV_TARGETS = {
    'ombott/request_pkg/multipart.py': ['FieldStorage', 'MultipartMarkup', 'BodyMarkuper.__init__'],
    'ombott/request_pkg/body_mixin.py': ['BodyMixin.json', 'BodyMixin.POST', 'BodyMixin.forms', 'BodyMixin.files',
                                         'BodyMixin._body', 'BodyMixin._get_body_string', 'BodyMixin.content_length',
                                         'BodyMixin.content_type', 'BodyMixin.ctype', 'BodyMixin.chunked', 'BodyMixin.body',
                                         '_body_read'],
    'ombott/request_pkg/request.py': ['BaseRequest._raise'],
}


def _in_child(case):
    """a hang inside C code (a regular expression that backtracks for ever) holds the interpreter lock: off the main
    thread no alarm can fire.  Cases of the hang-searching family that check.py serves on a worker thread are
    therefore run in a child process, where the 1.5 s alarm works (and a timeout here is the backstop)."""
    import os
    import subprocess
    import sys
    tools = os.path.normpath(os.path.join(os.path.dirname(os.path.abspath(__file__)), '..'))
    code = ('import sys, json; sys.path.insert(0, %r); sys.path.insert(0, %r); from props import C12; '
            'print(json.dumps(C12._run_impl(json.loads(sys.stdin.read()))))' % (tools, os.environ.get('VERIF_REPO', '/repo')))
    try:
        r = subprocess.run([sys.executable, '-c', code], input=json.dumps(case), capture_output=True, text=True,
                           timeout=F.HANG_LIMIT + 4)
        return json.loads(r.stdout.strip().split('\n')[-1])
    except subprocess.TimeoutExpired:
        return {'hang': True}


def run_impl(case):
    import threading
    if (case.get('hang_family') or b'\\\\\\\\' in bytes(case['data'][:400])) \
            and threading.current_thread() is not threading.main_thread():
        return _in_child(case)
    return F.covered(ID, COV_TARGETS, _run_impl, case)


_CUR = {}
_SHARED = []


def _read(rq, access, seen, key):
    if access == 'body':
        seen[key] = ['body', list(rq.body.read())]
    elif access == 'json':
        seen[key] = ['json', jkind(rq.json)]
    else:
        getattr(rq, access)
        ct = rq.content_type
        if ct.startswith('multipart/'):
            seen[key] = ['mp', F.snap(rq.POST, 0), F.snap(rq.forms, 0), F.snap(rq.files, 0)]
            seen['buffered'] = list(rq.body.read())
        elif ct.startswith('application/json'):
            seen[key] = ['jsonforms', jkind(rq.json)]
        else:
            seen[key] = ['url']


def _handler():
    app, case, seen = _CUR['app'], _CUR['case'], _CUR['seen']
    rq = app.request
    pre = case.get('pre', 'none')
    if pre == 'body':
        rq.body.read(3)                   # a partial read: the next property must rewind the buffered body itself
    elif pre != 'none':
        _read(rq, pre, {}, 'x')
    access = case['access']
    lazy = case.get('lazy', 'no')
    if lazy == 'gen_all':
        def g_all():
            _read(rq, access, seen, 'value')
            yield b'ok'
        return g_all()
    if lazy == 'gen_after':
        if access == 'body':                  # parse / buffer now ...
            rq.body
        else:
            getattr(rq, access)

        def g_after():
            yield b'o'                        # ... the response starts ...
            _read(rq, access, seen, 'value')  # ... and the data is consumed while the server iterates the response
            yield b'k'
        return g_after()
    _read(rq, access, seen, 'value')
    if lazy == 'file' and seen['value'][0] == 'mp':
        ups = [x for v in rq.files.values() for x in (v if isinstance(v, list) else [v])]
        if ups:
            ups[0].file.seek(0)
            seen['file_content'] = [it for _, _, items in seen['value'][3] for it in items][0]
            return ups[0].file                # streamed by the server after the handler (and _handle) returned
    return 'ok'


def _run_impl(case):
    from ombott import Ombott
    cfg = dict(max_memfile_size=case['mem'], max_body_size=case['maxb'])
    if case.get('app') == 'shared':
        if not _SHARED:
            shared = Ombott()
            shared.post('/')(_handler)
            _SHARED.append(shared)
        app = _SHARED[0]
        app.setup(cfg)
    else:
        if case.get('cfg_via') == 'setup':
            app = Ombott()
            app.setup(cfg)
        else:
            app = Ombott(cfg)
        app.post('/')(_handler)
    seen = {}
    _CUR.update(app=app, case=case, seen=seen)

    st = F.QuietStream(case['data'], case['sched'])
    env = environ('POST', '/', **{'wsgi.input': st, 'CONTENT_TYPE': ''.join(chr(c) for c in case['ctype'])})
    if case.get('no_ctype'):
        del env['CONTENT_TYPE']
    if case['cl_raw'] is not None:
        env['CONTENT_LENGTH'] = cl_text(case)
    if case['te']:
        env['HTTP_TRANSFER_ENCODING'] = ''.join(chr(c) for c in case['te'])
    status = []
    # per-request alarm (F.call_guarded: a BaseException nothing in the framework swallows; 1.5 s, 0.1 s after 3 hangs)
    done, resp = F.call_guarded(lambda: b''.join(app(env, lambda s, h, e=None: status.append(s))))
    if not done:
        return {'hang': True}
    code = int(status[0].split()[0])
    errs = env['wsgi.errors'].getvalue()
    obs = dict(status=code, traceback=bool(errs.strip()))
    if errs.strip():
        obs['error'] = errs.strip().split('\n')[-1][:160]
    if code == 200:
        obs['value'] = seen.get('value')
        if 'buffered' in seen:
            obs['buffered'] = seen['buffered']
        if 'file_content' in seen:
            it = seen['file_content']
            obs['streamed'] = [list(resp), it[3] + it[4]]          # response body, content of the returned upload
    return obs


def project(obs, case):
    out = dict(status=obs.get('status'))
    if obs.get('status') == 200:
        out['value'] = obs.get('value')
    return out


# ---------------------------------------------------------------- model side
def encode(case):
    tab = []
    ct = ''.join(chr(c) for c in case['ctype']).lower()
    if ((case['access'] != 'body' or case.get('pre', 'none') not in ('none', 'body'))
            and ct.split(';')[0].strip() == 'application/json' and cl_int(case) is not None):
        p = payload_of(case)
        # _get_body_string reads min(len, cl) bytes (cl < 0 or chunked: min(len, limit + 1)): only those lengths matter
        n = cl_int(case)
        lens = {len(p), min(len(p), case['mem'] + 1)}
        if n is not None and n >= 0:
            lens.add(min(len(p), n))
        tab = [0] * (len(p) + 1)
        for i in lens:
            b = p[:i]
            try:
                tab[i] = {1: 1, 0: 2, 2: 3}[jkind(json.loads(b))] if b else 0
            except (ValueError, RecursionError):       # JSONDecodeError, UnicodeDecodeError, plain ValueError (huge int)
                tab[i] = 0
    pre = case.get('pre', 'none')
    acc = 8 * (5 if pre == 'none' else ACCESS.index(pre)) + ACCESS.index(case['access'])
    return ([case['mem'], 0 if case['maxb'] is None else 1, case['maxb'] or 0, 0 if case['cl_raw'] is None else 1, acc]
            + enc_str(case['cl_raw'] or []) + enc_str(case['te']) + enc_str(case['ctype']) + enc_str(case['data']) + enc_list(case['sched'], lambda k: [k])
            + enc_list(tab, lambda k: [k]))


def decode(out, case):
    r = Reader(out)
    tag = r.int()
    if tag == 0:
        vt = r.int()
        if vt == 0:
            return dict(status=200, value=['body', r.str()])
        if vt == 1:
            return dict(status=200, value=['json', r.int()])
        if vt == 2:
            return dict(status=200, value=['url'])
        if vt == 3:
            return dict(status=200, value=['jsonforms', r.int()])
        post = F._fdict(r)
        forms = F._fdict(r)
        files = F._fdict(r)
        return dict(status=200, value=['mp', post, forms, files])
    if tag == 1:
        return dict(status=r.int())
    return dict(status=500)          # ServerFault (the fault kind is not observable from outside)


# ---------------------------------------------------------------- the property, stated on the implementation
BPAT = re.compile(r'^multipart/.+?boundary=(.+?)(;|$)')


def oracle(case, obs):
    if obs.get('hang'):
        return 'request did not terminate within %.2g s' % F.hang_limit()
    if 'escaped' in obs:
        return 'exception escaped the framework: %s %s' % (obs['escaped'], obs.get('msg'))
    st = obs.get('status')
    if obs.get('traceback'):
        return 'server fault: traceback on wsgi.errors (%s), status %s' % (obs.get('error'), st)
    if st is None or st >= 500:
        return 'server fault: status %s' % st
    if not (st == 200 or 400 <= st < 500):
        return 'unexpected status %s' % st
    if st == 200 and obs.get('value') is None:
        return 'the handler\'s lazy response was not produced (lazy=%s)' % case.get('lazy')
    if 'streamed' in obs and obs['streamed'][0] != obs['streamed'][1]:
        return 'an upload returned as the response body was streamed as %d bytes, its content is %d bytes' % (
            len(obs['streamed'][0]), len(obs['streamed'][1]))
    if st == 200 and obs.get('value') and obs['value'][0] == 'mp':
        # a delivered field holds the complete data of a part terminated by a delimiter
        m = BPAT.match(''.join(chr(c) for c in case['ctype']))
        tok = b'\r\n--' + m.group(1).encode()
        body = bytes(obs.get('buffered') or [])
        ends = set()
        i = body.find(tok)
        while i >= 0:
            ends.add(i)
            i = body.find(tok, i + 1)
        for key, is_list, items in obs['value'][1]:
            for it in items:
                if it[0] == 't':
                    if it[1] is None:
                        continue                     # F10: empty file name, no value delivered
                    d = ''.join(chr(c) for c in it[1]).encode('utf-8')
                else:
                    d = bytes(it[3]) + bytes(it[4])
                ok = False
                j = body.find(b'\r\n\r\n' + d + tok)
                while j >= 0 and not ok:
                    ok = (j + 4 + len(d)) in ends
                    j = body.find(b'\r\n\r\n' + d + tok, j + 1)
                if (d + tok).find(tok) != len(d):
                    ok = False                       # it runs on through a delimiter: the FIRST one after its start ends a part
                if not ok:
                    return 'delivered field %r = %r is not the complete data of a delimiter-terminated part' % (
                        bytes(key), d[:60])
    return None


def content_length_not_int(case, what, m):
    """CONTENT_LENGTH present, non-empty and rejected by int()"""
    return bool(case.get('cl_raw')) and cl_int(case) is None


PREDICATES = {'content_length_not_int': content_length_not_int}


# AUDIT_BRIEF step 2: what of the anchored API can influence the observation, and which case kind exercises it
API_SURFACE = [
    ('Request.forms / files / POST / json / body', 'covered by access; two of them in a row by pre (model: process_seq)'),
    ('request data consumed after the handler returned (generator handlers, upload.file as the response), bodies in memory '
     'and spooled to a temporary file', 'covered by lazy gen_all | gen_after | file'),
    ('chunk-size spellings', 'covered: F.chunked(..., style 0..7) on every unmutated chunked wire'),
    ('Request.body after a partial read', 'covered by pre="body" (read(3) first)'),
    ('BodyMixin._body: MULTIPART_BOUNDARY_PATT on the raw CONTENT_TYPE', 'covered by CT_MPS (missing/empty/quoted/CR/LF/upper-case/trailing-; boundaries)'),
    ('CONTENT_TYPE absent from environ', 'covered by no_ctype'),
    ('BodyMixin.content_type / ctype (lower, split, strip)', 'covered by CT_JSON / CT_OTHER incl. leading space, NEL, parameters, upper case'),
    ('BodyMixin.content_length: CONTENT_LENGTH absent, empty, every int() spelling, rejected spellings', 'covered by cl / cl_raw (finding C12-content-length-not-int)'),
    ('BodyMixin.chunked: Transfer-Encoding values', 'covered by te (chunked, Chunked, "gzip, chunked", identity, absent) also together with Content-Length'),
    ('_body_read: max_body_size, spill to a temporary file', 'covered by maxb and mem below the body size'),
    ('_iter_body / _iter_chunked with short reads and early EOF', 'covered by sched under both framings, truncated and corrupted encodings'),
    ('BodyMixin._get_body_string: cl > limit, cl < 0, data > limit', 'covered by json/urlencoded cases with mem around the body size and cl -1 / short / long'),
    ('BodyMixin.json: ctype[0] test, empty body, invalid / non-UTF-8 / deeply nested JSON', 'covered by JSONS x CT_JSON'),
    ('BodyMixin.POST: json branch (None, dict, non-dict), urlencoded branch, multipart branch (markup None, markup.error, iter_items errors)', 'covered (all lines reached)'),
    ('MultipartMarkup.__init__/parse, BodyMarkuper.__init__ (CR in boundary)', 'covered by CT_MPS and the mutated multipart stream'),
    ('FieldStorage.read/parse_header/iter_items incl. every raise', 'covered by the corpus witnesses of F16 and the mutated stream; per-part headers by part_headers'),
    ('FieldStorage._patt on hostile header lines', 'covered by nasty_header (hang detection) + text pinned in C12_pins'),
    ('BaseRequest._raise: exact class, except class, neither', 'covered for the default errors_map; a user-supplied errors_map is excluded: configuration outside the property (model: raise_in is generic, theorem uses Gen.errors_map)'),
    ('config: Ombott(dict) / Ombott.setup(dict); max_memfile_size, max_body_size', 'covered by cfg_via and mem / maxb'),
    ('config catchall / debug', 'excluded: they change what a 500 looks like, not whether one happens'),
    ('one Ombott serving many requests (shared errors_map HTTPError instances)', 'covered by app="shared" (C09 owns the retention aspect)'),
    ('Request.copy(), replacing wsgi.input', 'excluded here: covered in C07 on well-formed bodies'),
    ('wsgi.input missing / not a stream', 'excluded: a WSGI server always supplies it'),
    ('CONTENT_TYPE above U+00FF / lone surrogates', 'excluded: PEP 3333 makes environ strings latin-1 (guard of C12_no_server_fault)'),
]


def ctclass(case):
    ct = ''.join(chr(c) for c in case['ctype']).lower()
    return 'multipart' if ct.startswith('multipart/') else 'json' if ct.startswith('application/json') else 'other'


def nontrivial(case, obs):
    st = obs.get('status')
    if st is not None and 400 <= st < 500:
        return True
    return st == 200 and bool(obs.get('value')) and obs['value'][0] == 'mp' and len(obs['value'][1]) >= 1


def key(case):
    return (ctclass(case), case['chunked'], case['access'], tuple(case['data'][:24]), len(case['data']),
            min(case['mem'], 100))


def classify(case, obs):
    return '%s/%s/%s/%s' % (ctclass(case), 'chunked' if case['chunked'] else 'cl', case['access'], obs.get('status'))


def shrink(case):
    d = case['data']
    n = len(d)
    step = max(1, n // 8)
    for i in range(0, n, step):
        c = dict(case, data=d[:i] + d[i + step:])
        if not case['chunked'] and cl_int(case) == n:
            c['cl_raw'] = cps(str(len(c['data'])))
        yield c
    if F._HANGS['n'] > F.HANG_K:
        return                      # a tree that hangs on many inputs: coarse shrinking only (every candidate costs an alarm)
    for i in range(n):
        c = dict(case, data=d[:i] + d[i + 1:])
        if not case['chunked'] and cl_int(case) == n:
            c['cl_raw'] = cps(str(len(c['data'])))
        yield c
    if case['sched']:
        yield dict(case, sched=[])
    if case['maxb'] is not None:
        yield dict(case, maxb=None)
    if case['mem'] != 102400:
        yield dict(case, mem=102400)


MANIFEST = dict(
    text=('Proof (Coq, 12 theorems, all closed under the global context): the whole request-body pipeline (BodyMixin._body, '
          '_get_body_string, json, POST/forms/files, BaseRequest._raise with DefaultConfig.errors_map, the streaming multipart '
          'parser, FieldStorage) is one total function coq/model/BodyPipeline.v:process in which every raising Python '
          'operation is a ServerFault constructor unless the code routes it through _raise. C12_no_server_fault: for ALL json '
          'oracles, configurations, CONTENT_TYPE strings (latin-1), framings, byte streams, fragmentation schedules and accessed '
          'properties no ServerFault is produced; every Client response is a 4xx (C12_client_codes_4xx); the read loops '
          'terminate (C12_terminates); the streaming parser\'s section list alternates and has non-negative offsets for ANY '
          'input (C12_markup_shape); every delivered field is the complete content of a data section the parser reported '
          '(C12_delivered_fields_complete), which on every prefix of a well-formed body ends at a delimiter '
          '(C12_truncated_never_delivered, via C06) and, on ARBITRARY input, at the first delimiter after its start '
          '(C12_delivered_fields_complete_any_input, via C06_data_sections_closed_any_input); the pipeline\'s readers are the '
          'C04/C05 models for all inputs (C12_readers_are_C04_C05); guards: CONTENT_TYPE latin-1 and CONTENT_LENGTH accepted '
          'by int() (C12_content_length_not_int_refuted: otherwise 500, a recorded finding). The model is tied to /repo on every run by a differential correspondence '
          'through Ombott.__call__ on a malformed-body stream and an independent oracle (no 5xx, no traceback on wsgi.errors, '
          'no hang, delivered fields are delimiter-terminated parts).'),
    note=('Trusted: Coq kernel + vm_compute; extraction; the Python harness; json.loads (raises only ValueError/RecursionError); '
          'parse_qsl total (C18); the three regex scanners (texts pinned in C12_pins: an edited regex, e.g. one that backtracks '
          'exponentially, breaks an obligation; hangs are also searched by a generator family with a per-request alarm); stream '
          'model; int() as lib/PyIntParse.v (latin-1 exact).'),
    technique='Coq proof over an executable model of the pipeline + model/implementation correspondence on malformed inputs',
    design_ref='DESIGN.md section 4, C12',
)
