"""sched.py — running real threads under control (used by C08 and C10).

Two tools, both hand a *baton* between real `threading.Thread`s so that exactly
one of them runs at any time and the order is chosen by the harness:

1. `OpRunner` — executes a list of (thread, command) on real `Request`,
   `Response` and `HeaderDict` objects, one command per baton hand-over; the
   command language is the one of coq/model/TsProps.v (`cmd`), and `run_ops`
   returns the outcomes in the canonical shape that `decode_ops` produces from
   the model's output.

2. `Scheduler` — the controlled scheduler of DESIGN A.8: thread bodies (whole
   WSGI calls) are pre-empted at `sys.settrace` line events inside the
   framework's files and the registered handler functions; a schedule says
   after how many line steps of the running thread the baton moves and to whom.

Nothing here knows the property; oracles live in C08.py / C10.py.
"""
import json
import os
import queue
import sys
import threading

# ---------------------------------------------------------------------------
# dev-only: line coverage of the anchored code  (VERIF_COVERAGE=1 ./check C08|C10 --no-coq)
# ---------------------------------------------------------------------------
# Lines are collected in this process (threads of OpRunner, set-up code) and in every forked child that serves an
# arrangement or a baseline (they hand their lines back with their answer).  The report is written to
# evidence/dev/<ID>.coverage.json when the checking process exits.

COV = os.environ.get('VERIF_COVERAGE') == '1'
COV_LINES = set()          # (file relative to the ombott package, line)
_COV_DIR = [None]

# anchored code of C08 / C10: file -> qualified-name prefixes
ANCHORS = {
    'common_helpers.py': ['ts_props', 'proxy', 'cached_property', 'HeaderDict'],
    'response.py': ['BaseResponse.__new__', 'BaseResponse.__init__', 'BaseResponse.copy', 'BaseResponse.status',
                    'BaseResponse.status_line', 'BaseResponse.status_code', 'Response', 'HTTPResponse.apply',
                    'HTTPResponse.__init__', 'HTTPError.__init__'],
    'request_pkg/request.py': ['BaseRequest', 'Request'],
    'ombott.py': ['Ombott.__init__', 'Ombott.setup', 'Ombott._hooks', 'Ombott.add_hook', 'Ombott.on',
                  'Ombott.remove_hook', 'Ombott.emit', 'Ombott.on_route', 'Ombott.remove_route_hook', 'Ombott.error',
                  'Ombott.default_error_handler', 'Ombott.handler', 'Ombott._handle', 'Ombott._cast', 'Ombott.wsgi',
                  'Ombott.__call__', 'Globals', 'default_app', 'redirect', 'abort'],
}


def _cov_local(frame, event, arg):
    if event == 'line':
        COV_LINES.add((frame.f_code.co_filename, frame.f_lineno))
    return _cov_local


def _cov_global(frame, event, arg):
    if event == 'call' and _COV_DIR[0] and frame.f_code.co_filename.startswith(_COV_DIR[0]):
        return _cov_local
    return None


def cov_begin():
    """start collecting (idempotent); the package directory is found without importing ombott"""
    if not COV or _COV_DIR[0]:
        return
    import importlib.util
    spec = importlib.util.find_spec('ombott')
    _COV_DIR[0] = os.path.dirname(os.path.abspath(spec.origin)) + os.sep
    sys.settrace(_cov_global)
    threading.settrace(_cov_global)


def cov_take():
    """lines collected so far in this process, as [[relative file, line], ...]"""
    d = _COV_DIR[0] or ''
    return sorted([f[len(d):], ln] for f, ln in COV_LINES if f.startswith(d))


def cov_merge(lines):
    d = _COV_DIR[0] or ''
    for f, ln in lines or []:
        COV_LINES.add((d + f, ln))


def cov_anchor_lines():
    """{file: {line: qualified name}} — the executable lines of the anchored functions (without their def lines)"""
    out = {}
    for rel, prefixes in ANCHORS.items():
        path = os.path.join(_COV_DIR[0], rel)
        with open(path) as f:
            top = compile(f.read(), path, 'exec')
        lines = {}

        def walk(code):
            for c in code.co_consts:
                if hasattr(c, 'co_code'):
                    q = c.co_qualname
                    if any(q == p or q.startswith(p + '.') for p in prefixes):
                        for _, _, ln in c.co_lines():
                            if ln is not None and ln != c.co_firstlineno:
                                lines.setdefault(ln, q)
                    walk(c)
        walk(top)
        out[rel] = lines
    return out


def cov_report(pid):
    if not COV or not _COV_DIR[0]:
        return
    anchors = cov_anchor_lines()
    hit = {}
    for f, ln in cov_take():
        hit.setdefault(f, set()).add(ln)
    total = reached = 0
    missing = {}
    for rel, lines in anchors.items():
        src = open(os.path.join(_COV_DIR[0], rel)).read().split('\n')
        for ln, q in sorted(lines.items()):
            total += 1
            if ln in hit.get(rel, ()):
                reached += 1
            else:
                missing.setdefault(rel, []).append([ln, q, src[ln - 1].strip()[:100]])
    root = os.path.dirname(os.path.dirname(os.path.dirname(os.path.abspath(__file__))))
    os.makedirs(os.path.join(root, 'evidence', 'dev'), exist_ok=True)
    path = os.path.join(root, 'evidence', 'dev', '%s.coverage.json' % pid)
    with open(path, 'w') as f:
        json.dump(dict(property=pid, anchored_lines=total, reached=reached, missing=missing), f, indent=1)
    sys.stderr.write('coverage %s: %d of %d executable lines of the anchored functions reached -> %s\n'
                     % (pid, reached, total, path))


def cov_register(pid):
    if COV and pid in sys.argv:
        import atexit
        cov_begin()
        atexit.register(cov_report, pid)


# ---------------------------------------------------------------------------
# command language shared with coq/model/TsProps.v
# ---------------------------------------------------------------------------

KEYS = ['PATH_INFO', 'QUERY_STRING', 'ombott.request', 'Content-Length', 'X-A', 'X-B', 'HTTP_X_T', 'x.note']
REQ_ATTRS = ['environ', '_env_get']
RESP_ATTRS = ['_status_line', '_status_code', '_headers', '_cookies', 'body']
ATTRS = [REQ_ATTRS, RESP_ATTRS]

TAGS = {'init_req': 0, 'init_req0': 1, 'new_resp': 2, 'init_resp': 3, 'get': 4, 'set': 5, 'del': 6,
        'hget': 7, 'hset_fresh': 8, 'hset_headers': 9, 'hdr_set': 10, 'hdr_items': 11, 'attr_items': 12,
        'env_get': 13, 'req_get': 14, 'env_set': 15, 'copy': 16, 'raw_set': 17, 'raw_hset': 18}
# argument shapes: 'n' = object number, 'c' = class (0 Request / 1 Response), 'a' attr, 'k' key, 'v' value
SHAPES = {'init_req': 'nv', 'init_req0': 'n', 'new_resp': 'n', 'init_resp': 'n', 'get': 'cna', 'set': 'cnav',
          'del': 'cna', 'hget': 'n', 'hset_fresh': 'n', 'hset_headers': 'n', 'hdr_set': 'nkv', 'hdr_items': 'n',
          'attr_items': 'cna', 'env_get': 'nk', 'req_get': 'nk', 'env_set': 'nkv', 'copy': 'nn',
          'raw_set': 'cnav', 'raw_hset': 'nv'}


def enc_cval(v):
    if v[0] == 'n':
        return [0]
    if v[0] == 'i':
        return [1, v[1]]
    if v[0] == 's':
        cps = [ord(ch) for ch in v[1]]
        return [2, len(cps)] + cps
    if v[0] == 'f':
        return [3]
    raise ValueError(v)


def encode_ops(cmds):
    """cmds: list of [t, name, *args] -> integer input of corr_ts"""
    out = [len(cmds)]
    for c in cmds:
        t, name, args = c[0], c[1], c[2:]
        out += [t, TAGS[name]]
        for kind, a in zip(SHAPES[name], args):
            out += enc_cval(a) if kind == 'v' else [a]
    return out


class _Renamer:
    """dict references are compared up to renaming: the k-th dict a thread gets
    to see is ('r', t, k).  The model's references are private to the executing
    thread by construction; on the implementation side a dict is named after
    the thread that saw it first, so a dict that shows up on a second thread
    keeps the first thread's name and the comparison fails."""

    def __init__(self):
        self.names = {}
        self.count = {}

    def name(self, ident, t):
        if ident not in self.names:
            k = self.count.get(t, 0)
            self.count[t] = k + 1
            self.names[ident] = [t, k]
        return self.names[ident]


def decode_ops(ints, cmds):
    """model output -> list of outcomes, same shape as run_ops"""
    pos = [0]

    def nxt():
        v = ints[pos[0]]
        pos[0] += 1
        return v
    ren = _Renamer()

    def val(t):
        tag = nxt()
        if tag == 0:
            return ['n']
        if tag == 1:
            return ['i', nxt()]
        if tag == 2:
            n = nxt()
            return ['s', ''.join(chr(nxt()) for _ in range(n))]
        if tag in (3, 4):
            d = nxt()
            return ['r' if tag == 3 else 'm'] + ren.name((t, d), t)
        if tag == 5:
            c = nxt()
            return ['o', c, nxt()]
        raise ValueError('val tag %s' % tag)
    n = nxt()
    out = []
    for i in range(n):
        t = cmds[i][0] if i < len(cmds) else -1
        tag = nxt()
        if tag == 0:
            out.append(['unit'])
        elif tag == 1:
            out.append(['val', val(t)])
        elif tag == 2:
            out.append(['attr'])
        elif tag == 3:
            out.append(['key'])
        elif tag == 4:
            out.append(['bad'])
        elif tag == 5:
            m = nxt()
            items = []
            for _ in range(m):
                k = nxt()
                items.append([k, val(t)])
            out.append(['items', items])
        else:
            out.append(['model_out_of_fuel'])
    return out


class _Worker(threading.Thread):
    def __init__(self):
        super().__init__(daemon=True)
        self.inq = queue.Queue()
        self.outq = queue.Queue()

    def run(self):
        while True:
            fn = self.inq.get()
            if fn is None:
                return
            try:
                self.outq.put(('ok', fn()))
            except BaseException as e:  # noqa
                self.outq.put(('exc', e))

    def call(self, fn):
        self.inq.put(fn)
        kind, v = self.outq.get(timeout=15 * TIMEOUT_SCALE[0])
        if kind == 'exc':
            raise v
        return v


class OpRunner:
    def __init__(self):
        from ombott import Request, Response
        from ombott.common_helpers import HeaderDict
        self.Request, self.Response, self.HeaderDict = Request, Response, HeaderDict
        self.objs = {}
        self.keep = []          # keeps every dict we named alive (ids are not reused)
        self.ren = _Renamer()
        self.workers = {}

    # -- values
    def pyval(self, v):
        if v[0] == 'n':
            return None
        if v[0] == 'i':
            return v[1]
        if v[0] == 's':
            return v[1]
        return {}

    def canon(self, x, t):
        if x is None:
            return ['n']
        if isinstance(x, bool):
            return ['?', 'bool']
        if isinstance(x, int):
            return ['i', x]
        if isinstance(x, str):
            return ['s', x]
        if isinstance(x, dict):
            self.keep.append(x)
            return ['r'] + self.ren.name(id(x), t)
        if isinstance(x, (self.Request, self.Response)):
            for (c, n), o in self.objs.items():
                if o is x:
                    return ['o', c, n]
            return ['o', 0 if isinstance(x, self.Request) else 1, -1]
        slf = getattr(x, '__self__', None)
        if isinstance(slf, dict) and getattr(x, '__name__', '') == 'get':
            self.keep.append(slf)
            return ['m'] + self.ren.name(id(slf), t)
        return ['?', type(x).__name__]

    def items(self, d, t):
        out = []
        for k, v in list(d.items()):
            out.append([KEYS.index(k) if k in KEYS else -1, self.canon(v, t)])
        return ['items', out]

    def obj(self, c, n):
        o = self.objs.get((c, n))
        if o is None:
            # allocated, but neither __new__ nor __init__ of the class has run
            o = object.__new__(self.Request if c == 0 else self.Response)
            self.objs[(c, n)] = o
        return o

    # -- one command, executed on the calling thread
    def do(self, t, name, args):
        Request, Response = self.Request, self.Response
        if name in ('init_req', 'init_req0'):
            n = args[0]
            env = {'PATH_INFO': self.pyval(args[1])} if name == 'init_req' else None
            if (0, n) in self.objs:
                if env is None:
                    self.objs[(0, n)].__init__()
                else:
                    self.objs[(0, n)].__init__(env)
            else:
                self.objs[(0, n)] = Request(env) if env is not None else Request()
            return ['unit']
        if name == 'new_resp':
            n = args[0]
            if (1, n) in self.objs:
                o = self.objs[(1, n)]
                o.headers = self.HeaderDict()     # what BaseResponse.__new__ does
                o.__init__()
            else:
                self.objs[(1, n)] = Response()
            return ['unit']
        if name == 'init_resp':
            self.obj(1, args[0]).__init__()
            return ['unit']
        if name == 'get':
            c, n, a = args
            return ['val', self.canon(getattr(self.obj(c, n), ATTRS[c][a]), t)]
        if name == 'set':
            c, n, a, v = args
            setattr(self.obj(c, n), ATTRS[c][a], self.pyval(v))
            return ['unit']
        if name == 'del':
            c, n, a = args
            delattr(self.obj(c, n), ATTRS[c][a])
            return ['unit']
        if name == 'hget':
            return ['val', self.canon(self.obj(1, args[0]).headers.dict, t)]
        if name == 'hset_fresh':
            self.obj(1, args[0]).headers.dict = {}
            return ['unit']
        if name == 'hset_headers':
            o = self.obj(1, args[0])
            o.headers.dict = o._headers
            return ['unit']
        if name == 'hdr_set':
            n, k, v = args
            self.obj(1, n).headers[KEYS[k]] = self.pyval(v)
            return ['unit']
        if name == 'hdr_items':
            return self.items(self.obj(1, args[0]).headers, t)
        if name == 'attr_items':
            c, n, a = args
            x = getattr(self.obj(c, n), ATTRS[c][a])
            return self.items(_ItemsOf(x), t)
        if name == 'env_get':
            n, k = args
            return ['val', self.canon(self.obj(0, n).environ[KEYS[k]], t)]
        if name == 'req_get':
            n, k = args
            return ['val', self.canon(self.obj(0, n).get(KEYS[k]), t)]
        if name == 'env_set':
            n, k, v = args
            self.obj(0, n).environ[KEYS[k]] = self.pyval(v)
            return ['unit']
        if name == 'copy':
            n, m = args
            src = self.obj(0, n)
            if (0, m) in self.objs:
                self.objs[(0, m)].__init__(src.environ.copy())
            else:
                self.objs[(0, m)] = src.copy()
            return ['unit']
        raise ValueError(name)

    def run(self, cmds):
        out = []
        try:
            for c in cmds:
                t, name, args = c[0], c[1], c[2:]
                w = self.workers.get(t)
                if w is None:
                    w = self.workers[t] = _Worker()
                    w.start()

                def job(t=t, name=name, args=args):
                    try:
                        return self.do(t, name, args)
                    except AttributeError:
                        return ['attr']
                    except KeyError:
                        return ['key']
                    except TypeError:
                        return ['bad']
                out.append(w.call(job))
        finally:
            for w in self.workers.values():
                w.inq.put(None)
        return out


class _ItemsOf:
    """`x.items()` where a missing method is the AttributeError the code would raise"""

    def __init__(self, x):
        self.x = x

    def items(self):
        return self.x.items()


def run_ops(cmds):
    return OpRunner().run(cmds)


def ts_props_of(cls):
    """names of the thread-local properties generated by @ts_props on cls (static tie to the model's attribute tables)"""
    out = []
    for k, v in cls.__dict__.items():
        if isinstance(v, property) and (v.__doc__ or '').startswith('Local property: '):
            out.append(k)
    return out


# ---------------------------------------------------------------------------
# the controlled scheduler
# ---------------------------------------------------------------------------

class Hang(Exception):
    pass


TIMEOUT_SCALE = [1]     # wall-clock limits below are multiplied by this (a retry after a time-out runs with generous limits)


_ACTIVE = [None]       # the scheduler whose threads are running (one at a time per process)


class Scheduler:
    """Run `bodies` (callables) on one real thread each.  Only the thread that
    holds the baton runs.  `start` is the first thread; `switches` is a list of
    [k, to]: the running thread is pre-empted after k further line steps (line
    events in traced code) and thread `to` continues (if it has finished or is
    the same thread: the next unfinished one).  When a thread finishes, the
    lowest-numbered unfinished thread continues.  After the last switch every
    thread runs to its end.

    traced code = files below `trace_dir` + the code objects in `trace_codes`."""

    def __init__(self, bodies, start=0, switches=(), trace_dir=None, trace_codes=(), record_steps=False):
        self.bodies = bodies
        self.n = len(bodies)
        self.sems = [threading.Semaphore(0) for _ in bodies]
        self.done = [False] * self.n
        self.results = [None] * self.n
        self.errors = [None] * self.n
        self.switches = [list(s) for s in switches]
        self.sw_i = 0
        self.left = self.switches[0][0] if self.switches else None
        self.cur = start
        self.trace_dir = (os.path.realpath(trace_dir) + os.sep) if trace_dir else None
        self.trace_codes = set(trace_codes)
        self.steps = [0] * self.n
        self.finished = threading.Semaphore(0)
        self.hang = False
        self._fn_cache = {}
        self.record = [] if record_steps else None

    def _traced(self, code):
        if code in self.trace_codes:
            return True
        fn = code.co_filename
        r = self._fn_cache.get(fn)
        if r is None:
            r = bool(self.trace_dir) and os.path.realpath(fn).startswith(self.trace_dir)
            self._fn_cache[fn] = r
        return r

    def _next_unfinished(self, prefer=None):
        if prefer is not None and 0 <= prefer < self.n and not self.done[prefer]:
            return prefer
        for i in range(self.n):
            if not self.done[i]:
                return i
        return None

    def _make_tracer(self, me):
        def local(frame, event, arg):
            if event == 'line':
                self.steps[me] += 1
                if COV:
                    COV_LINES.add((frame.f_code.co_filename, frame.f_lineno))
                if self.record is not None:
                    self.record.append((me, os.path.basename(frame.f_code.co_filename), frame.f_lineno))
                if self.left is not None:
                    self.left -= 1
                    if self.left <= 0:
                        to = self.switches[self.sw_i][1]
                        self.sw_i += 1
                        self.left = self.switches[self.sw_i][0] if self.sw_i < len(self.switches) else None
                        nxt = self._next_unfinished(to)
                        if nxt is not None and nxt != me:
                            self.cur = nxt
                            self.sems[nxt].release()
                            if not self.sems[me].acquire(timeout=20 * TIMEOUT_SCALE[0]):
                                self.hang = True
                                raise Hang()
            return local

        def glob(frame, event, arg):
            if event == 'call' and self._traced(frame.f_code):
                return local
            return None
        return glob

    def hand_over(self, me, to):
        """called by the running thread `me` (from a scripted handler): thread `to` continues now; `me` goes on when
        the baton comes back (deterministic hand-over, independent of line counts)"""
        nxt = self._next_unfinished(to)
        if nxt is not None and nxt != me:
            self.cur = nxt
            self.sems[nxt].release()
            if not self.sems[me].acquire(timeout=20 * TIMEOUT_SCALE[0]):
                self.hang = True
                raise Hang()

    def _thread(self, me):
        if not self.sems[me].acquire(timeout=30 * TIMEOUT_SCALE[0]):
            self.hang = True
            self.finished.release()
            return
        sys.settrace(self._make_tracer(me))
        try:
            self.results[me] = self.bodies[me]()
        except BaseException as e:  # noqa
            self.errors[me] = e
        finally:
            sys.settrace(None)
            self.done[me] = True
            nxt = self._next_unfinished()
            if nxt is not None:
                self.cur = nxt
                self.sems[nxt].release()
            self.finished.release()

    def run(self):
        _ACTIVE[0] = self
        ths = [threading.Thread(target=self._thread, args=(i,), daemon=True) for i in range(self.n)]
        for th in ths:
            th.start()
        self.sems[self.cur].release()
        for _ in range(self.n):
            if not self.finished.acquire(timeout=40 * TIMEOUT_SCALE[0]):
                self.hang = True
                break
        if self.hang:
            # unblock whatever is left so that daemon threads can end
            for s in self.sems:
                s.release()
        return self.results, self.errors


def solo_steps(make_bodies, trace_dir, trace_codes):
    """line steps each body takes when the bodies run one after the other"""
    s = Scheduler(make_bodies(), 0, (), trace_dir, trace_codes)
    s.run()
    return list(s.steps)


def enumerate_schedules(steps, max_preempt=2, stride=1):
    """all schedules with 1..max_preempt pre-emptions for bodies that take `steps` line steps when run alone.
    A pre-emption after k steps of the running slice, 1 <= k < remaining steps of that thread."""
    n = len(steps)
    out = []

    def rec(cur, remaining, switches, budget):
        if budget == 0:
            return
        for k in range(1, remaining[cur], stride):
            for to in range(n):
                if to == cur or remaining[to] <= 0:
                    continue
                sw = switches + [[k, to]]
                out.append(sw)
                rem2 = list(remaining)
                rem2[cur] -= k
                rec(to, rem2, sw, budget - 1)
    res = []
    for start in range(n):
        out.clear()
        rec(start, list(steps), [], max_preempt)
        res.extend((start, [list(x) for x in s]) for s in out)
    return res


# ---------------------------------------------------------------------------
# arrangements: real applications, real WSGI calls, scripted handlers
# ---------------------------------------------------------------------------
# A *call* is a JSON dict
#   dict(app=j, tok='tA0', qs='k=tA0q', method='GET'|'POST', form='f=tA0f' or None, cookie='c=tA0c' or None,
#        script=[action, ...])        or   dict(construct=True)   (a thread that only builds an application)
# Every token of a call starts with its `tok`, so text of one call found in what
# another call sees or returns is a leak.  Actions of a script:
#   ['see']                  record what app.request / app.response show now, next to what this call should see
#   ['hdr', name, value]     app.response.headers[name] = value
#   ['status', code]         app.response.status = code
#   ['cookie', name, value]  app.response.set_cookie(name, value)
#   ['call', call]           a nested WSGI call (any application) from inside the handler
#   ['copy']                 app.request.copy(), then the copy's environ is changed
#   ['new_app']              Ombott() built while this request is being served
#   ['form_see']             record app.request.forms / cookies / body
#   ['abort', code]          ombott.abort(code, tok)            (ends the script)
#   ['boom']                 raise RuntimeError(tok)            (ends the script: 500 page)
#   ['redirect', '?to=..']   ombott.redirect(target)            (ends the script)
#   ['gen', n]               return a generator of n pieces that looks at the request between pieces (ends the script)

_tl = threading.local()
_SOLO_CACHE = {}
_APPS_CACHE = {}
_DEFAULT_READY = [False]


def _error_handler_for(app):
    def on_error(err):
        # a custom @app.error handler: looks at app.response (HTTPError.apply has just replaced status and headers)
        # and renders the default page
        fr = _tl.stack[-1]
        if fr.get('handler_runs'):
            fr['w_hdrs'] = {}
            fr['w_line'] = None
            fr['w_status'] = fr.get('w_end', fr['w_status'])
            _see(fr, 'error_handler')
        return app.default_error_handler(err)
    return on_error


ERROR_CODES = (400, 403, 413)


def _make_handler():
    def _handler(**kw):
        fr = _tl.stack[-1]
        # the keyword arguments the router hands to the handler are the wildcard values of THIS request
        # (plus what this request's own route hook injected)
        fr['log'].append(dict(kind='form', tok=fr['tok'], where='handler kwargs',
                              got=dict(kwargs=sorted([k, v] for k, v in kw.items())),
                              want=dict(kwargs=sorted(fr['w_url_args']))))
        return _interp(fr)
    return _handler


_handler = _make_handler()      # every application gets its own function object (same code object)


def _flat(hd):
    """header mapping name -> value | [values]  ->  sorted [name, value] pairs"""
    out = []
    for k, v in hd.items():
        for x in (v if isinstance(v, list) else [v]):
            out.append([k, str(x)])
    return sorted(out)


def _view(fr, light=False):
    """what the application's request/response objects show right now (light: before routing has happened)"""
    apps = fr['apps']
    app = apps[fr['app']]
    out = {}
    try:
        rq = app.request
        out['path'] = rq.path
        out['qs'] = rq.query_string
        out['query'] = sorted([k, v] for k, v in rq.query.items())
        out['method'] = rq.method
        out['cookie_hdr'] = rq.environ.get('HTTP_COOKIE')
        out['req_cookies'] = sorted([k, v] for k, v in rq.cookies.items())
        out['app'] = next((i for i, a in enumerate(apps) if a is rq.app), -1)
        if not light:
            out['route_own'] = getattr(rq.route, 'handler', rq.route) is getattr(app, '_verif_handler', None)
            out['url_args'] = sorted([k, v] for k, v in rq.url_args.items())
        # the mapping interface of the request: keys / iter / len / item access / repr
        out['req_map_ok'] = (len(rq) == len(rq.environ) and list(rq) == list(rq.environ)
                             and list(rq.keys()) == list(rq.environ.keys()) and rq['PATH_INFO'] == rq.environ['PATH_INFO'])
        out['repr_has_path'] = bool(fr.get('domain')) or fr['path'] in repr(rq)   # (domain_map hides the prefix)
        ext = []
        for nm in ('verif_note', '_verif_priv'):   # ext attributes (public and private names) live in THIS request's environ
            try:
                ext.append(getattr(rq, nm))
            except AttributeError:
                ext.append(None)
        out['ext'] = ext
        out['hdr_view'] = [rq.headers.get('X-T'), 'X-T' in rq.headers]      # the cached header view of THIS request
    except Exception as e:  # noqa
        out['request_error'] = type(e).__name__
    try:
        rs = app.response
        hd = rs.headers
        out['hdrs'] = _flat(dict(hd.items()))
        # the mapping interface of HeaderDict: len / iter / in / item access / get / keys / values
        out['hdr_map'] = [len(hd), sorted(iter(hd)), sorted(hd.keys()), all(k in hd for k in list(hd)),
                          _flat({k: hd[k] for k in list(hd)}), _flat({k: hd.get(k) for k in list(hd)}),
                          'X-Never' in hd, hd.get('X-Never', 'dflt'), len(list(hd.values())),
                          repr(hd).startswith('<HeaderDict: {')]
        out['cfg'] = _cfg_view(app)
        out['status'] = rs.status_code
        out['status_line'] = rs.status_line if fr.get('w_line') is not None else None
        ck = rs._cookies
        out['cookies'] = sorted([m.key, m.value] for m in ck.values()) if ck else []
    except Exception as e:  # noqa
        out['response_error'] = type(e).__name__
    return out


SECRET = 'verif-shared-secret'
SESS_PAYLOAD = {'cart': ['base']}


def signed_cookie_value(name, payload, secret):
    """the value of a signed cookie as the framework's set_cookie(name, payload, secret=...) produces it
    (written out here: '!' + base64(hmac-md5(msg)) + '?' + base64(pickle((name, payload))))"""
    import base64
    import hashlib
    import hmac
    import pickle
    msg = base64.b64encode(pickle.dumps((name, payload), -1))
    sig = base64.b64encode(hmac.new(secret.encode(), msg, digestmod=hashlib.md5).digest())
    return (b'!' + sig + b'?' + msg).decode('latin1')


def _cookie_pairs(fr):
    if fr.get('w_req_cookies') is not None:
        return [list(p) for p in fr['w_req_cookies']]
    return [p.strip().split('=', 1) for p in fr['cookie'].split(';')] if fr['cookie'] else []


def _want(fr):
    q = [p.split('=', 1) for p in fr['qs'].split('&')] if fr['qs'] else []
    cq = _cookie_pairs(fr)
    wh = fr['w_hdrs']
    flat = _flat(wh)
    return dict(path=fr['path'], qs=fr['qs'], query=sorted(q), method=fr['method'], cookie_hdr=fr['cookie'],
                req_cookies=sorted(cq), req_map_ok=True, repr_has_path=True, ext=fr.get('w_ext') or [None, None],
                hdr_view=[fr.get('w_xt'), fr.get('w_xt') is not None],
                app=fr['app'], route_own=True, url_args=sorted(fr['w_url_args']),
                hdrs=flat, hdr_map=[len(wh), sorted(wh), sorted(wh), True, flat, flat, False, 'dflt', len(wh), True],
                cfg=fr['w_cfg'], status=fr['w_status'], status_line=fr.get('w_line'),
                cookies=sorted([k, v] for k, v in fr['w_cookies'].items()))


def _listed_codes():
    import http.client
    return http.client.responses


def _see(fr, where):
    light = where == 'before_request'
    want = _want(fr)
    if light:
        del want['route_own'], want['url_args']
    # looking is not part of the request: the framework code the look runs through is neither a pre-emption point nor
    # counted as a step (the framework's own reads of the same things are)
    tr = sys.gettrace()
    sys.settrace(None)
    try:
        got = _view(fr, light)
    finally:
        sys.settrace(tr)
    fr['log'].append(dict(kind='see', tok=fr['tok'], where=where, got=got, want=want))


def _gen_body(fr, n):
    for i in range(n):
        yield '%s.piece%d;' % (fr['tok'], i)
        _see(fr, 'gen%d' % i)


def _ret(fr, app, kind):
    """what a handler may return besides text (ends the script); sets what the response must be"""
    import io
    import ombott
    tok = fr['tok']
    if kind == 'file':
        fr['w_body'] = ('wrapped:' if fr.get('file_wrapper') else '') + 'file:' + tok
        return io.BytesIO(('file:' + tok).encode())
    if kind == 'gen_empty':
        fr['w_body'] = ''
        return iter(())
    if kind == 'none':
        fr['w_body'] = ''
        return None
    if kind == 'gen_blank_first':
        fr['w_body'] = 'late:' + tok
        return iter(['', '', 'late:' + tok])
    if kind == 'gen_bytes':
        fr['w_body'] = 'b1:%s;b2;' % tok
        return iter([('b1:%s;' % tok).encode(), b'b2;'])
    if kind == 'gen_int':
        fr['w_final'], fr['w_end'] = 'error', 500
        return iter([5])
    if kind in ('gen_raises_resp', 'resp_obj', 'resp_raise'):
        # an HTTPResponse (returned, raised, or raised by the first next() of the body): apply() replaces status,
        # headers (not cookies) and body of app.response
        fr['w_body'] = 'resp:' + tok
        fr['w_end'] = 203
        fr['w_end_hdrs'] = {'X-Obj': tok + 'obj'}
        resp = ombott.HTTPResponse('resp:' + tok, 203, {'X-Obj': tok + 'obj'}, X_More=tok)
        if kind != 'resp_raise':
            resp.set_cookie('rk', tok + 'rk')          # apply() then replaces the cookies of app.response too
            fr['w_end_cookies'] = {'rk': tok + 'rk'}
        if kind == 'resp_obj':
            return resp
        if kind == 'resp_raise':
            raise resp

        def g():
            raise resp
            yield ''
        return g()
    if kind == 'gen_raises_exc':
        fr['w_final'], fr['w_end'] = 'error', 500

        def g2():
            raise RuntimeError(tok + '.genboom')
            yield ''
        return g2()
    if kind == 'raise_mem':
        # MemoryError (like KeyboardInterrupt / SystemExit) is never turned into a response
        fr['w_final'], fr['w_end'] = 'escaped', 500
        raise MemoryError(tok)
    if kind == 'gen_raises_mem':
        fr['w_final'], fr['w_end'] = 'escaped', 500

        def g3():
            raise MemoryError(tok)
            yield ''
        return g3()
    if kind == 'static':
        # ombott.static_file(): THIS request carries no conditional / range header, so the whole file is sent
        fr['w_final'] = 'static'
        fr['w_body'] = STATIC_TEXT
        return ombott.static_file('verif_static.txt', _static_root())
    if kind == 'bad_charset':
        # the text cannot be encoded: the exception leaves _cast and reaches the last-resort page of wsgi()
        app.response.headers['Content-Type'] = 'text/html; charset=no-such-charset'
        fr['w_hdrs']['Content-Type'] = 'text/html; charset=no-such-charset'
        fr['w_final'], fr['w_end'] = ('critical' if app.config.catchall else 'escaped'), 500
        return 'text:' + tok
    if kind == 'loop418':
        # the 418 handler answers with a 418 error again and again: _cast gives up after 1000 rounds
        fr['w_final'], fr['w_end'] = 'error', 500
        ombott.abort(418, tok + '.teapot')
    raise ValueError(kind)


STATIC_TEXT = 'static file content of the verification harness'
_STATIC_ROOT = [None]


def _static_root():
    """a directory with one small file of fixed content and fixed modification time (shared by all runs)"""
    if _STATIC_ROOT[0] is None:
        import tempfile
        d = os.path.join(tempfile.gettempdir(), 'tsE_static_%d' % os.getuid())
        os.makedirs(d, exist_ok=True)
        path = os.path.join(d, 'verif_static.txt')
        if not os.path.exists(path) or open(path).read() != STATIC_TEXT:
            with open(path + '.%d' % os.getpid(), 'w') as f:
                f.write(STATIC_TEXT)
            os.replace(path + '.%d' % os.getpid(), path)
        if os.stat(path).st_mtime != 1000000000:
            os.utime(path, (1000000000, 1000000000))
        _STATIC_ROOT[0] = d
    return _STATIC_ROOT[0]


def _before_after(app, which):
    def hook():
        fr = _tl.stack[-1]
        if which == 'after_request' and fr.get('after_yield') is not None and _ACTIVE[0] is not None \
                and getattr(_tl, 'tix', None) is not None:
            _ACTIVE[0].hand_over(_tl.tix, fr['after_yield'])
        if fr.get('handler_runs') and fr.get('w_final') != 'redirect':
            _see(fr, which)
    return hook


_ROUTE_PREFIX = {'r': '/r', 'rex': '/x', 're': '/e', 'int': '/i', 'float': '/f', 'path': '/pa', 'static': '/s'}


def _route_hook_for(app):
    def _route_hook(prefix_seen):
        fr = _tl.stack[-1]
        fr['log'].append(dict(kind='form', tok=fr['tok'], where='route_hook', got=dict(prefix=prefix_seen),
                              want=dict(prefix=_ROUTE_PREFIX.get(fr.get('route_kind'), '/r'))))
        if fr.get('inject'):
            # a route hook that hands the handler one more keyword argument through request.url_args
            app.request.url_args['user'] = fr['tok']
    return _route_hook


def _cfg_view(app):
    """the options of an application and of its request object (they are that application's own)"""
    try:
        c, rc = app.config, app.request.config
        return [c.max_body_size, rc.max_body_size, c.max_memfile_size, rc.max_memfile_size, bool(c.debug), bool(c.catchall)]
    except Exception as e:  # noqa
        return ['error', type(e).__name__]


def _partial_404(route, params):
    fr = _tl.stack[-1]
    return 'partial:%s:%s' % (route, fr['tok'])


def _teapot_loop(err):
    import ombott
    return ombott.HTTPError(418, 'again')


def _heard(key, v):
    """what a listener notes of one environ change: key, value (shortened text unless plain) and the call that made
    the change — a listener runs on the thread that changes the environ, and that thread's innermost scripted call is
    on top of the harness stack"""
    st = getattr(_tl, 'stack', None)
    return [key, v if isinstance(v, (str, int, type(None))) else type(v).__name__, st[-1]['tok'] if st else None]


def _entry_token(heard_entry):
    return heard_entry[2]


def _foreign(heard_entry, tok):
    """an environ change heard by a listener that another call made"""
    return heard_entry[2] != tok


def _interp(fr):
    r = _interp_actions(fr)
    return 'done:' + fr['tok'] if r is _FELL_THROUGH else r


_FELL_THROUGH = object()


def _interp_actions(fr):
    import ombott
    app = fr['apps'][fr['app']]
    for act in fr['script']:
        kind = act[0]
        if kind == 'see':
            _see(fr, 'script')
        elif kind == 'hdr':
            app.response.headers[act[1]] = act[2]
            fr['w_hdrs'][act[1]] = act[2]
        elif kind == 'status':
            # a number, or a string 'NNN Custom phrase'
            app.response.status = act[1]
            if isinstance(act[1], str):
                fr['w_status'], fr['w_line'] = int(act[1].split()[0]), act[1]
            else:
                fr['w_status'] = act[1]
                # a code no table lists has the generated line; listed codes are left to the baseline
                fr['w_line'] = ('%d Unknown' % act[1]) if act[1] not in _listed_codes() else None
        elif kind == 'cookie':
            app.response.set_cookie(act[1], act[2])
            fr['w_cookies'][act[1]] = act[2]
        elif kind == 'hdr_append':
            app.response.headers.append(act[1], act[2])
            old = fr['w_hdrs'].get(act[1])
            fr['w_hdrs'][act[1]] = act[2] if old is None else (old + [act[2]] if isinstance(old, list) else [old, act[2]])
        elif kind == 'hdr_del':
            if act[1] in fr['w_hdrs']:
                del app.response.headers[act[1]]
                del fr['w_hdrs'][act[1]]
        elif kind == 'hdr_clear':
            # ['hdr_clear'] everything, ['hdr_clear', [names]] those that are there
            if len(act) > 1:
                app.response.headers.clear(*act[1])
                for n in act[1]:
                    fr['w_hdrs'].pop(n, None)
            else:
                app.response.headers.clear()
                fr['w_hdrs'].clear()
        elif kind == 'hdr_update':
            app.response.headers.update(dict(act[1]))
            fr['w_hdrs'].update(dict(act[1]))
        elif kind == 'hdr_setdefault':
            got = app.response.headers.setdefault(act[1], act[2])
            fr['w_hdrs'].setdefault(act[1], act[2])
            fr['log'].append(dict(kind='form', tok=fr['tok'], where='setdefault', got=dict(v=got),
                                  want=dict(v=fr['w_hdrs'][act[1]])))
        elif kind == 'hdr_copy':
            # a copy of the header dict is a different dict (list values included)
            cp = app.response.headers.copy()
            cp['X-Copy'] = fr['tok']
            for k, v in list(cp.items()):
                if isinstance(v, list):
                    v.append('copy-' + fr['tok'])
            cp.clear('X-A')
        elif kind == 'req_set':
            # app.request[key] = value: the caches derived from that key follow (query, cookies, ...)
            key, value = act[1], act[2]
            try:
                app.request[key] = value
                refused = False
            except KeyError:
                refused = True
            fr['log'].append(dict(kind='form', tok=fr['tok'], where='req_set', got=dict(refused=refused),
                                  want=dict(refused=bool(fr.get('readonly')))))
            if not refused:
                if key == 'QUERY_STRING':
                    fr['qs'] = value
                elif key == 'HTTP_X_T':
                    fr['w_xt'] = value
                elif key == 'HTTP_COOKIE':
                    fr['cookie'] = value
                    fr['w_req_cookies'] = None
                    fr['signed'] = False
        elif kind == 'req_set_odd_key':
            # an environ assignment with a key that is not a str: what it does to THIS request is not prescribed (noted,
            # compared with the same call served alone); what it must not do is disturb other requests
            try:
                app.request[b'HTTP_X_TRACE'] = fr['tok']
                outcome = 'accepted'
            except Exception as e:  # noqa
                outcome = 'raises ' + type(e).__name__
            fr['log'].append(dict(kind='note', tok=fr['tok'], where='odd key', got=dict(outcome=outcome)))
        elif kind == 'req_del':
            if not fr.get('readonly'):
                key = 'x.tmp.' + fr['tok']
                app.request[key] = fr['tok']
                del app.request[key]
                fr['log'].append(dict(kind='form', tok=fr['tok'], where='req_del',
                                      got=dict(there=key in app.request.environ), want=dict(there=False)))
        elif kind == 'ext':
            # request.<name> = v keeps v in THIS request's environ
            app.request.verif_note = fr['tok'] + '.note'
            app.request._verif_priv = fr['tok'] + '.priv'        # a private name: per request just the same
            fr['w_ext'] = [fr['tok'] + '.note', fr['tok'] + '.priv']
            try:
                app.request.verif_never
                missing = False
            except AttributeError:
                missing = True
            fr['log'].append(dict(kind='form', tok=fr['tok'], where='ext', got=dict(missing=missing), want=dict(missing=True)))
        elif kind == 'listen':
            # request.on / off / emit used inside one handler (registered and removed again)
            heard = []

            def cb(rq, key, v, _h=heard):
                _h.append(_heard(key, v))
            un = app.request.on('env_changed', cb)
            app.request.emit('verif.nobody.listens')
            fr['n_listen'] = fr.get('n_listen', 0) + 1
            note = '%s.%d' % (fr['tok'], fr['n_listen'])       # (a new value every time: an unchanged value is no change)
            if not fr.get('readonly'):
                app.request['x.note'] = note
            if act[1:] == ['off']:
                app.request.off('env_changed', cb)
            else:
                un()
            fr['log'].append(dict(kind='form', tok=fr['tok'], where='listen',
                                  got=dict(own=[h for h in heard if not _foreign(h, fr['tok'])],
                                           foreign=[h for h in heard if _foreign(h, fr['tok'])]),
                                  want=dict(own=[] if fr.get('readonly') else [['x.note', note, fr['tok']]], foreign=[])))
        elif kind == 'sess_mutate':
            # read the signed cookie, change the decoded value IN PLACE, report it: the decoded object belongs to
            # this request (every request decodes its own copy of the cookie)
            import copy as _copy
            sess = app.request.get_cookie('sess', secret=SECRET)
            first = _copy.deepcopy(sess)
            if isinstance(sess, dict):
                sess['cart'].append(fr['tok'])
                sess['owner'] = fr['tok']
                app.response.headers['X-Cart'] = ','.join(sess['cart'])
                fr['w_hdrs']['X-Cart'] = 'base,' + fr['tok']
            fr['log'].append(dict(kind='form', tok=fr['tok'], where='signed cookie', got=dict(decoded=first),
                                  want=dict(decoded=SESS_PAYLOAD if fr.get('signed') else None)))
        elif kind == 'listen_around':
            # ['listen_around', [actions]]: a listener on THIS application's request stays registered while the inner
            # actions run (nested calls into other applications, environ changes there), and is removed afterwards
            heard = []

            def cb2(rq, key, v, _h=heard):
                _h.append(_heard(key, v))
            un = app.request.on('env_changed', cb2)
            inner = dict(fr, script=act[1])
            try:
                _interp_actions(inner)
            finally:
                un()
            for k in ('qs', 'cookie', 'w_req_cookies', 'w_ext', 'w_status', 'w_line', 'w_xt', 'w_url_args', 'signed', 'form'):
                fr[k] = inner.get(k)
            fr['log'].append(dict(kind='form', tok=fr['tok'], where='listen',
                                  got=dict(foreign=[h for h in heard if _foreign(h, fr['tok'])]), want=dict(foreign=[])))
        elif kind == 'resp_copy':
            # a copy of app.response (own class by default, or another class) and a Response built from arguments.
            # What these calls do is NOT prescribed here (on the current code some of them raise — recorded in
            # DESIGN 0.6 as observations, not violations of C08/C10): the outcome is only compared with the outcome of
            # the same call served alone, so a copy that picks up another request's or application's state differs.
            note = {}
            try:
                cp = app.response.copy() if act[1:] != ['http'] else app.response.copy(cls=ombott.HTTPResponse)
                note['copy'] = dict(hdrs=_flat(dict(cp.headers.items())), status=cp.status_code,
                                    cookies=sorted([m.key, m.value] for m in cp._cookies.values()) if cp._cookies else [],
                                    same_object=cp is app.response)
                cp.headers['X-Only-Copy'] = fr['tok']
                for v in cp.headers.dict.values():
                    if isinstance(v, list):
                        v.append('copy-only')
            except Exception as e:  # noqa
                note['copy'] = 'raises ' + type(e).__name__
            try:
                made = ombott.Response(fr['tok'], 201, {'X-R': fr['tok']})
                note['made'] = [made.body, made.status_code, _flat(dict(made.headers.items()))]
            except Exception as e:  # noqa
                note['made'] = 'raises ' + type(e).__name__
            fr['log'].append(dict(kind='note', tok=fr['tok'], where='response copy', got=note))
        elif kind == 'args_write':
            # code that adds to request.url_args (it belongs to this request)
            app.request.url_args['user2'] = fr['tok']
            fr['w_url_args'] = [p for p in fr['w_url_args'] if p[0] != 'user2'] + [['user2', fr['tok']]]
        elif kind == 'new_app_from':
            # ['new_app_from', 'ctor' | 'setup']: another application configured from THIS application's config
            # namespace, whose options are then changed in place: this application's options stay what they were
            if act[1] == 'ctor':
                na = ombott.Ombott(app.config)
            else:
                na = ombott.Ombott()
                na.setup(app.config)
            fr['apps'].append(na)
            change_options(na)
        elif kind == 'yield_to':
            # ['yield_to', thread]: hand the baton to that thread right here (it runs until it ends or is pre-empted)
            if _ACTIVE[0] is not None and getattr(_tl, 'tix', None) is not None:
                _ACTIVE[0].hand_over(_tl.tix, act[1])
        elif kind == 'hook_change':
            # ['hook_change', what]: a handler changes the application's hook lists through the public API while other
            # requests may be inside emit(): 'remove_first' / 'readd_first' (the first before_request hook),
            # 'add_after' / 'remove_after' (one more after_request hook, which goes to the front of its list)
            hs = getattr(app, '_verif_hooks', None)
            if hs:
                if act[1] == 'remove_first':
                    app.remove_hook('before_request', hs[0])
                elif act[1] == 'readd_first':
                    app.add_hook('before_request', hs[0])
                elif act[1] == 'add_after':
                    app.add_hook('after_request', _noop)
                elif act[1] == 'remove_after':
                    app.remove_hook('after_request', _noop)
        elif kind == 'copy_off':
            # the copy is an object of its own: taking the stock cache-invalidation listener off the COPY must leave
            # this request's (and every other request's) invalidation in place
            cp = app.request.copy()
            cp.off('env_changed', type(cp)._on_env_changed)
        elif kind == 'bad_status':
            # a status the setter refuses (ends the script: 500 page)
            fr['w_final'], fr['w_end'] = 'error', 500
            app.response.status = act[1]
        elif kind == 'ret':
            return _ret(fr, app, act[1])
        elif kind == 'call':
            do_call(fr['apps'], act[1], fr['log'])
        elif kind == 'copy':
            cp = app.request.copy()
            cp.environ['PATH_INFO'] = '/r/COPY' + fr['tok']
            cp.verif_note = 'copy.' + fr['tok']                   # user attributes set on the copy are the copy's
            cp._verif_priv = 'copy.' + fr['tok']
            cp.environ['HTTP_X_T'] = 'copy-' + fr['tok']          # the copy's headers differ from now on
            cp.environ['HTTP_COOKIE'] = 'cc=copy' + fr['tok']
            if fr.get('readonly'):
                cp.environ['QUERY_STRING'] = 'copy=' + fr['tok']
            else:
                cp['QUERY_STRING'] = 'copy=' + fr['tok']
        elif kind == 'call_copy':
            # ['call_copy', j, script]: hand a COPY of this request to application j (nested call on the copy's environ)
            sub = app.request.copy()
            inner = dict(app=act[1], tok=fr['tok'] + 'cc', script=act[2], qs=fr['qs'], method=fr['method'],
                         form=None, cookie=fr['cookie'], readonly=fr.get('readonly'),
                         w_ext=fr.get('w_ext'),       # (an ext attribute is an environ entry: the copy has it too)
                         w_xt=fr.get('w_xt'),
                         w_req_cookies=fr.get('w_req_cookies'), signed=fr.get('signed'))
            if len(act) > 3:
                inner.update(act[3])          # e.g. {'hook_input': True}
            do_call(fr['apps'], inner, fr['log'], environ=sub.environ, path=fr['path'])
        elif kind == 'body_read':
            # reading the body of a malformed / oversize request raises the framework's pre-built 400 / 413
            if fr.get('chunked_bad') or fr.get('json_bad') or fr.get('json_nonobj'):
                fr['w_final'], fr['w_end'] = 'error', 400
            elif fr.get('too_big'):
                fr['w_final'], fr['w_end'] = 'error', 413
            if fr.get('json_bad'):
                app.request.json                  # BodyParsingError('Invalid JSON')
            if fr.get('json_nonobj'):
                app.request.forms                 # BodyParsingError('JSON object expected')
            data = app.request.body.read()
            fr['log'].append(dict(kind='form', tok=fr['tok'], got=dict(body=data.decode('latin1')),
                                  want=dict(body=fr['form'] or '')))
        elif kind == 'new_app':
            # ['new_app'] or ['new_app', cfg-kind]: an application (with its own configuration) built while serving
            if len(act) > 2:                      # ['new_app', cfg, 'setup']: configured after construction
                na = ombott.Ombott()
                na.setup(app_config(act[1]))
                fr['apps'].append(na)
            elif act[1:2] == ['routes']:          # ['new_app', 'routes']: built, given routes and used right here
                na = ombott.Ombott()
                fr['apps'].append(na)
                build_and_probe(na, fr['tok'] + 'N', fr['log'])
            else:
                fr['apps'].append(ombott.Ombott(app_config(act[1])) if len(act) > 1 else ombott.Ombott())
        elif kind == 'form_see':
            got = {}
            try:
                got['forms'] = sorted([k, v] for k, v in app.request.forms.items())
                got['cookies'] = sorted([k, v] for k, v in app.request.cookies.items())
                got['body'] = app.request.body.read().decode('latin1')
            except Exception as e:  # noqa
                got['error'] = type(e).__name__
            fq = [p.split('=', 1) for p in fr['form'].split('&')] if fr['form'] else []
            cq = _cookie_pairs(fr)
            want = dict(forms=sorted(fq), cookies=sorted(cq), body=fr['form'] or '')
            if fr.get('too_big'):
                want = dict(error='HTTPError')          # reading the forms of an oversize body is refused
            fr['log'].append(dict(kind='form', tok=fr['tok'], got=got, want=want))
        elif kind == 'redirect':
            # ombott.redirect(target) (ends the script): 303 to the target resolved against THIS request's URL
            fr['w_final'] = 'redirect'
            fr['w_end'] = 303
            if any(isinstance(v, list) for v in fr['w_hdrs'].values()):
                # redirect() copies the current response; what copy() does with a header that has several values is
                # not prescribed here (DESIGN 0.6): only the comparison with the same call served alone applies
                fr['w_final'] = 'alone'
                fr.pop('w_end')
            fr['w_location'] = 'http://localhost' + fr['path'] + act[1]
            ombott.redirect(act[1])
        elif kind == 'redirect_cookie':
            # ['redirect_cookie', target, name, 'set'|'delete']: redirect(), and the raised redirect response (a COPY of
            # the current response of the default application) gets cookie `name` set again / deleted (ends the script)
            fr['w_final'] = 'redirect'
            fr['w_end'] = 303
            fr['w_location'] = 'http://localhost' + fr['path'] + act[1]
            if any(isinstance(v, list) for v in fr['w_hdrs'].values()):
                fr['w_final'] = 'alone'
                fr.pop('w_end')
            try:
                ombott.redirect(act[1])
            except ombott.HTTPResponse as res:
                if act[3] == 'delete':
                    res.delete_cookie(act[2])
                else:
                    res.set_cookie(act[2], fr['tok'] + 'recookie')
                raise
        elif kind == 'abort':
            fr['w_final'] = 'error'
            fr['w_end'] = act[1]
            ombott.abort(act[1], fr['tok'] + '.aborted')
        elif kind == 'boom':
            fr['w_final'] = 'error'
            fr['w_end'] = 500
            raise RuntimeError(fr['tok'] + '.boom')
        elif kind == 'gen':
            fr['w_final'] = 'gen'
            fr['w_body'] = ''.join('%s.piece%d;' % (fr['tok'], i) for i in range(act[1]))
            return _gen_body(fr, act[1])
        else:
            raise ValueError(kind)
    return _FELL_THROUGH


def app_config(kind):
    """configuration dicts a user may pass to Ombott(): they belong to that application only"""
    from ombott import HTTPError
    from ombott.request_pkg import errors as rq_errors
    if kind == 'errors_map422':
        return {'errors_map': {rq_errors.BodyParsingError: HTTPError(422, 'Unprocessable body'),
                               rq_errors.RequestError: HTTPError(422, 'Unprocessable request')}}
    if kind == 'errors_map_size':
        return {'errors_map': {rq_errors.BodySizeError: HTTPError(507, 'No room')}}
    if kind == 'max_body5':
        return {'max_body_size': 5}
    if kind == 'memfile7':
        return {'max_memfile_size': 7}
    raise ValueError(kind)


def chunked(body, sizes=(26, 17)):
    """a legal chunked encoding with two-digit hex size lines"""
    out, i, k = b'', 0, 0
    while i < len(body):
        n = sizes[k % len(sizes)]
        part = body[i:i + n]
        out += b'%x\r\n' % len(part) + part + b'\r\n'
        i += n
        k += 1
    return out + b'0\r\n\r\n'


def _before_request_hook(app):
    def hook():
        # a body-normalising hook: reads nothing, but gives ITS OWN request a new input stream
        import io
        fr = _tl.stack[-1]
        if fr.get('hook_yield') is not None and _ACTIVE[0] is not None and getattr(_tl, 'tix', None) is not None:
            _ACTIVE[0].hand_over(_tl.tix, fr['hook_yield'])       # this request is suspended INSIDE emit(), in a hook
        if fr.get('hook_input'):
            new = ('h=%shook' % fr['tok']).encode()
            app.request['wsgi.input'] = io.BytesIO(new)
            app.request['CONTENT_LENGTH'] = str(len(new))
            fr['form'] = new.decode()
    return hook


def change_options(na):
    """in-place option changes on one application and on its request object"""
    na.config.max_body_size = 4
    na.request.config.max_body_size = 4
    na.config.max_memfile_size = 3
    na.request.config.max_memfile_size = 3
    na.config.debug = not na.config.debug
    na.config.catchall = not na.config.catchall


def build_and_probe(na, tok, log):
    """routes (with filters) registered on a new application — possibly while other threads register theirs or
    serve — and one request through them: the application must have exactly the rules it was given"""
    import io
    got = []
    try:
        na.route('/n%s/<p%s:int>/tail%s' % (tok, tok, tok), callback=lambda **kw: 'int:%s:%r' % (tok, sorted(kw.items())))
        na.route('/m%s/{q%s:re([a-z]+)}' % (tok, tok), method='POST',
                 callback=lambda **kw: 're:%s:%r' % (tok, sorted(kw.items())))
    except Exception as e:  # noqa
        got.append(['route registration failed', type(e).__name__])
    for method, path in (('GET', '/n%s/7/tail%s' % (tok, tok)), ('POST', '/m%s/abc' % tok), ('GET', '/n%s/x/tail%s' % (tok, tok))):
        env = {'REQUEST_METHOD': method, 'PATH_INFO': path, 'QUERY_STRING': '', 'SERVER_NAME': 'localhost',
               'SERVER_PORT': '80', 'SERVER_PROTOCOL': 'HTTP/1.1', 'wsgi.url_scheme': 'http',
               'wsgi.input': io.BytesIO(b''), 'wsgi.errors': io.StringIO(), 'SCRIPT_NAME': ''}
        st = {}
        try:
            body = b''.join(na(env, lambda s_, h, e=None: st.update(s=s_))).decode('latin1')
        except Exception as e:  # noqa
            body = 'ESCAPED:' + type(e).__name__
        got.append([st.get('s'), body if (st.get('s') or '').startswith('200') else ''])
    want = [['200 OK', "int:%s:[('p%s', 7)]" % (tok, tok)], ['200 OK', "re:%s:[('q%s', 'abc')]" % (tok, tok)],
            ['404 Not Found', '']]
    log.append(dict(kind='form', tok=tok, where='new application routes', got=dict(answers=got), want=dict(answers=want)))


def do_call(apps, call, log, environ=None, path=None):
    """one WSGI call of apps[call['app']]; appends the records of everything seen to `log`; returns the response.
    `environ`/`path`: serve this ready-made environ (a copy handed over by another handler) instead of a new one"""
    import io
    import ombott
    if call.get('construct'):
        if call.get('from_app') is not None:
            # configured from another application's config namespace (constructor or setup), then changed in place
            src = apps[call['from_app']]
            if call.get('mode') == 'setup':
                na = ombott.Ombott()
                na.setup(src.config)
            else:
                na = ombott.Ombott(src.config)
            change_options(na)
        else:
            na = ombott.Ombott(app_config(call['cfg'])) if call.get('cfg') else ombott.Ombott()
        apps.append(na)
        log.append(dict(kind='constructed'))
        if call.get('routes'):
            build_and_probe(na, call['tok'], log)
        return None
    tok = call['tok']
    form = call.get('form')
    if environ is not None:
        env = environ
    else:
        route = call.get('route', 'r')
        seg = tok + call.get('pad', '')
        num = sum(ord(ch) for ch in seg)
        path = {'r': '/r/' + seg, 'g405': '/g/' + seg, 'nope404': '/nope/' + seg, 'h404hook': '/h/zz/' + seg,
                'badpath': '/r/' + seg + '\xff',
                # rules with filtered wildcards (the filters are cached process-wide) and a rule without wildcards
                'rex': '/x/%s/p' % seg.lower(), 're': '/e/%s' % seg.lower(), 'int': '/i/%d' % num,
                'float': '/f/%d.5' % num, 'path': '/pa/%s/deep' % seg, 'static': '/s/static'}[route]
        body = form.encode('latin1') if form else b''
        env = {
            'REQUEST_METHOD': call.get('method', 'GET'), 'PATH_INFO': path, 'QUERY_STRING': call.get('qs', ''),
            'SERVER_NAME': 'localhost', 'SERVER_PORT': '80', 'SERVER_PROTOCOL': 'HTTP/1.1', 'wsgi.url_scheme': 'http',
            'wsgi.input': io.BytesIO(body), 'wsgi.errors': io.StringIO(), 'SCRIPT_NAME': '',
        }
        if call.get('chunked_bad'):
            env['HTTP_TRANSFER_ENCODING'] = 'chunked'
            env['wsgi.input'] = io.BytesIO(b'zz\r\n' + body + b'\r\n0\r\n\r\n')     # 'zz' is not a hex size
        elif call.get('chunked_ok'):
            env['HTTP_TRANSFER_ENCODING'] = 'chunked'
            env['CONTENT_TYPE'] = 'application/x-www-form-urlencoded'
            env['wsgi.input'] = io.BytesIO(chunked(body))
        elif form:
            env['CONTENT_LENGTH'] = str(len(body))
            env['CONTENT_TYPE'] = ('application/json' if call.get('json_bad') or call.get('json_nonobj')
                                   else 'application/x-www-form-urlencoded')
        if call.get('cookie'):
            env['HTTP_COOKIE'] = call['cookie']
        if call.get('signed'):
            # a signed cookie with a MUTABLE payload, byte-identical in every request that carries it
            sv = signed_cookie_value('sess', SESS_PAYLOAD, SECRET)
            env['HTTP_COOKIE'] = (env['HTTP_COOKIE'] + '; ' if env.get('HTTP_COOKIE') else '') + 'sess="%s"' % sv
        if call.get('accept'):
            env['HTTP_ACCEPT'] = call['accept']
        if call.get('readonly'):
            env['ombott.request.readonly'] = True
        if call.get('xt'):
            env['HTTP_X_T'] = call['xt']
        if call.get('conditional'):
            # headers that matter to static_file() — of THIS request only
            env['HTTP_IF_MODIFIED_SINCE'] = 'Wed, 01 Jan 2098 00:00:00 GMT'
            env['HTTP_RANGE'] = 'bytes=0-3'
        if call.get('file_wrapper'):
            env['wsgi.file_wrapper'] = lambda f: [b'wrapped:' + f.read()]
        if call.get('domain'):
            # the application's domain_map turns this host into the '/r' prefix
            env['HTTP_HOST'] = 'r.example'
            env['PATH_INFO'] = path[2:]
    w_req_cookies = None
    if environ is None and call.get('signed'):
        w_req_cookies = ([call['cookie'].split('=', 1)] if call.get('cookie') else []) + \
            [['sess', signed_cookie_value('sess', SESS_PAYLOAD, SECRET)]]
    fr = dict(apps=apps, app=call['app'], tok=tok, path=path, qs=call.get('qs', ''),
              method=call.get('method', 'GET'), form=form,
              cookie=(env.get('HTTP_COOKIE') if environ is None else call.get('cookie')), script=call['script'],
              w_req_cookies=w_req_cookies if environ is None else call.get('w_req_cookies'), signed=call.get('signed'),
              readonly=call.get('readonly'), chunked_bad=call.get('chunked_bad'), too_big=call.get('too_big'),
              json_bad=call.get('json_bad'), json_nonobj=call.get('json_nonobj'), hook_input=call.get('hook_input'),
              log=log, w_hdrs={}, w_status=200, w_cookies={}, w_final='text', w_body='done:' + tok,
              handler_runs=True, file_wrapper=call.get('file_wrapper'), domain=call.get('domain'),
              hook_yield=call.get('hook_yield'), after_yield=call.get('after_yield'),
              w_ext=call.get('w_ext'), w_xt=call.get('w_xt') or (call.get('xt') if environ is None else None))
    j = call['app']
    route = call.get('route', 'r') if environ is None else 'r'
    if route in ('rex', 're', 'int', 'float', 'path', 'static'):
        seg = tok + call.get('pad', '')
        num = sum(ord(ch) for ch in seg)
        fr['w_url_args'] = {'rex': [['n%d' % j, seg.lower()]], 're': [['e%d' % j, seg.lower()]], 'int': [['i%d' % j, num]],
                            'float': [['f%d' % j, num + 0.5]], 'path': [['p%d' % j, seg + '/deep']], 'static': []}[route]
        if call.get('inject'):
            fr['w_url_args'] = fr['w_url_args'] + [['user', tok]]      # (written by this request's route hook)
    else:
        fr['w_url_args'] = [['x%d' % j, path[3:]]]
    fr['route_kind'] = route
    fr['inject'] = call.get('inject')
    fr['w_cfg'] = _cfg_view(apps[j])
    limit = getattr(apps[j].config, 'max_body_size', None)
    if environ is None and form and limit is not None and len(form.encode('latin1')) > limit \
            and not (call.get('chunked_bad') or call.get('json_bad') or call.get('json_nonobj')):
        # the application is configured to refuse a body of this size (413), alone as well as together
        fr['too_big'] = True
    if environ is None and call.get('route', 'r') in ('g405', 'nope404', 'h404hook', 'badpath'):
        # the scripted handler is not reached: the framework answers by itself
        fr['handler_runs'] = False
        fr['script'] = []
        r = call['route']
        if r == 'h404hook':
            fr['w_body'] = 'partial:/h:' + tok
        else:
            fr['w_final'] = 'error'
            fr['w_end'] = {'g405': 405, 'nope404': 404, 'badpath': 400}[r]
            if r == 'g405':
                fr['w_allow'] = 'GET'
    if not hasattr(_tl, 'stack'):
        _tl.stack = []
    _tl.stack.append(fr)
    st = {}

    def start_response(s, h, exc=None):
        st['s'] = s
        st['h'] = h
    try:
        out = apps[call['app']](env, start_response)
        body_out = b''.join(out)
        close = getattr(out, 'close', None)
        if close:
            close()
    except Exception as e:  # noqa
        body_out = ('ESCAPED:%s' % type(e).__name__).encode()
    finally:
        _tl.stack.pop()
    hdrs = sorted([k, v] for k, v in st.get('h', []) if k != 'Date')      # (the clock is not part of the comparison)
    w_status = fr.get('w_end', fr['w_status'])
    nobody = fr['method'] == 'HEAD' or w_status in (204, 304) or 100 <= w_status < 200
    rec = dict(kind='response', tok=tok, path=fr['path'], status=st.get('s'), hdrs=hdrs, body=body_out.decode('latin1'),
               accept_json=(env.get('HTTP_ACCEPT') or '').startswith('application/json'),
               w_final=fr['w_final'], w_status=w_status, w_body='' if nobody else fr['w_body'], nobody=nobody,
               w_location=fr.get('w_location'), w_allow=fr.get('w_allow'),
               w_line=fr.get('w_line') if fr['w_final'] in ('text', 'gen') and 'w_end' not in fr else None,
               w_hdrs=[h for h in _flat(fr.get('w_end_hdrs', fr['w_hdrs'])) if h[0].startswith('X-')],
               w_cookies=sorted([k, v] for k, v in fr.get('w_end_cookies', fr['w_cookies']).items()))
    log.append(rec)
    return rec


def build_config(names):
    """configuration dict for the applications of a case, from names (JSON-able)"""
    cfg = {}
    for n in names or ():
        if n == 'max30':
            cfg['max_body_size'] = 30
        elif n == 'debug':
            cfg['debug'] = True
        elif n == 'nocatch':
            cfg['catchall'] = False
        elif n == 'domain':
            cfg['domain_map'] = lambda host: 'r' if (host or '').startswith('r.') else None
            cfg['app_name_header'] = 'HTTP_X_APP_NAME'
        else:
            raise ValueError(n)
    return cfg


def _equip(a, i):
    """routes, hooks and error handlers of one application, through every registration form of the API"""
    a._verif_handler = _make_handler()
    a.route('/r/<x%d>' % i, method='ANY', callback=a._verif_handler)
    a.route('/g/<y%d>' % i, method='GET', callback=a._verif_handler)
    for code in ERROR_CODES:
        a.error(code)(_error_handler_for(a))
    a.error(418)(_teapot_loop)
    a.error(404, '/h')(_partial_404)                 # a 404 handler for everything below /h
    a._verif_hooks = [_before_request_hook(a), _before_after(a, 'before_request'), _before_after(a, 'after_request')]
    a.add_hook('before_request', a._verif_hooks[0])
    a.on('before_request', a._verif_hooks[1])
    a.on('after_request')(a._verif_hooks[2])      # decorator form
    a.add_hook('after_request', _noop)
    a.remove_hook('after_request', _noop)
    rh = _route_hook_for(a)
    for pfx in sorted(set(_ROUTE_PREFIX.values())):
        a.on_route(pfx, rh)
    a.route('/x/<n%d.rex([a-z0-9]+)>/p' % i, method='ANY', callback=a._verif_handler)
    a.route('/e/<e%d:re([a-z0-9]+)>' % i, method='ANY', callback=a._verif_handler)
    a.route('/i/<i%d:int>' % i, method='ANY', callback=a._verif_handler)
    a.route('/f/<f%d:float>' % i, method='ANY', callback=a._verif_handler)
    a.route('/pa/<p%d:path>' % i, method='ANY', callback=a._verif_handler)
    a.route('/s/static', method='ANY', callback=a._verif_handler)
    a.on_route('/tmp')(_noop)                        # decorator form, removed again
    a.remove_route_hook('/tmp')
    type(a)._hooks                                   # class access of the cached property


def _noop(*a):
    pass


def make_apps(napps, use_default, cfg_names=None):
    """napps applications with a scripted handler on /r/<x{i}>; number 0 is the module-level default app if asked;
    cfg_names: configuration of the applications built here (the default app keeps its own)"""
    import ombott
    if isinstance(cfg_names, int):
        cfg_names = ['max30']            # (older cases: max_body=30)
    apps = []
    for i in range(napps):
        if i == 0 and use_default:
            a = ombott.default_app()
            if not _DEFAULT_READY[0]:
                _equip(a, 0)
                _DEFAULT_READY[0] = True
        else:
            a = ombott.Ombott(build_config(cfg_names)) if cfg_names else ombott.Ombott()
            _equip(a, i)
        apps.append(a)
    return apps


def arr_codes():
    # the handler proper; the recording helpers (_see, _view, _want) and do_call are harness, not handler
    return [f.__code__ for f in (_handler, _interp, _gen_body, _ret, _error_handler_for(None), _before_request_hook(None))]      # _handler: one code object for all applications


def repo_trace_dir():
    import ombott
    return os.path.dirname(os.path.abspath(ombott.__file__))


def _bodies(case, apps, logs):
    def mk(i, call):
        def body():
            _tl.tix = i
            return do_call(apps, call, logs[i])
        return body
    return [mk(i, c) for i, c in enumerate(case['calls'])]


def _warm(apps):
    # one request per application before anything is measured or scheduled: whatever
    # an application builds lazily on first use is set-up, not part of a request
    for j in range(len(apps)):
        do_call(apps, dict(app=j, tok='warm', script=[]), [])


# -- recording the traffic on the thread-local stores while real requests are served

_MISSING = object()
SETUP_TID = 99


class StoreProxy:
    """stands in for the threading.local that an object keeps in `_ts_props` (or a HeaderDict in `_ts`):
    forwards getattr / setattr / delattr to the real local and records them.  The code under test reaches the
    store only through these three operations, so the record is the complete traffic on that store."""
    __slots__ = ('_real', '_rec', '_who')

    def __init__(self, real, rec, who):
        object.__setattr__(self, '_real', real)
        object.__setattr__(self, '_rec', rec)
        object.__setattr__(self, '_who', who)

    def __getattr__(self, k):
        try:
            v = getattr(self._real, k)
        except AttributeError:
            if k == 'dict':
                self._rec(self._who, 'get', k, _MISSING)
            raise
        if k == 'dict':
            self._rec(self._who, 'get', k, v)
        return v

    def __setattr__(self, k, v):
        setattr(self._real, k, v)
        if k == 'dict':
            self._rec(self._who, 'set', k, v)

    def __delattr__(self, k):
        try:
            delattr(self._real, k)
        except AttributeError:
            self._rec(self._who, 'del', k, _MISSING)
            raise
        self._rec(self._who, 'del', k, None)


class Recorder:
    def __init__(self, apps):
        self.events = []
        self.apps = list(apps)
        self.tokens = {}
        self.keep = []

    def rec(self, who, kind, k, v):
        tix = getattr(_tl, 'tix', None)
        if tix is not None:
            self.events.append((tix, who, kind, k, v))

    def install(self):
        """record at the level of BEHAVIOUR: the generated properties of Request / Response (get, set, delete) and the
        reset of all of them by __init__, whatever the store behind them is made of; for HeaderDict the accesses to
        the `dict` attribute of its store"""
        from ombott import Request, Response
        self.who = {}
        for j, a in enumerate(self.apps):
            self.who[id(a.request)] = (0, j)
            self.who[id(a.response)] = (1, j)
            hd = a.response.headers
            hd._ts = StoreProxy(hd._ts, self.rec, ('h', j))
        self.saved = []
        rec, who = self.rec, self.who
        for c, cls in ((0, Request), (1, Response)):
            for name in ATTRS[c]:
                orig = cls.__dict__[name]
                self.saved.append((cls, name, orig))

                def fget(s, _o=orig, _n=name):
                    w = who.get(id(s))
                    try:
                        v = _o.fget(s)
                    except AttributeError:
                        if w:
                            rec(w, 'get', _n, _MISSING)
                        raise
                    if w:
                        rec(w, 'get', _n, v)
                    return v

                def fset(s, v, _o=orig, _n=name):
                    _o.fset(s, v)
                    w = who.get(id(s))
                    if w:
                        rec(w, 'set', _n, v)

                def fdel(s, _o=orig, _n=name):
                    w = who.get(id(s))
                    try:
                        _o.fdel(s)
                    except AttributeError:
                        if w:
                            rec(w, 'del', _n, _MISSING)
                        raise
                    if w:
                        rec(w, 'del', _n, None)
                setattr(cls, name, property(fget, fset, fdel, orig.__doc__))
            init = cls.__init__
            self.saved.append((cls, '__init__', init))

            def wrapped_init(s, *a, _init=init, _c=c, **kw):
                w = who.get(id(s))
                if w:
                    for n in ATTRS[_c]:            # the wrapped __init__ first resets every property for this thread
                        rec(w, 'set', n, None)
                return _init(s, *a, **kw)
            cls.__init__ = wrapped_init

    def uninstall(self):
        for cls, name, orig in reversed(getattr(self, 'saved', [])):
            setattr(cls, name, orig)
        for a in self.apps:
            hd = a.response.headers
            p = hd._ts
            if isinstance(p, StoreProxy):
                hd._ts = object.__getattribute__(p, '_real')

    def tok(self, v):
        if v is None:
            return ['n']
        i = self.tokens.get(id(v))
        if i is None:
            i = self.tokens[id(v)] = len(self.tokens) + 1
            self.keep.append(v)
        return ['i', i]

    def commands(self):
        """-> (cmds, expected outcomes): the record as a command list for the model, preceded by the construction
        of the applications' objects on a thread that takes no part in the run"""
        cmds, outs = [], []
        for j in range(len(self.apps)):
            cmds += [[SETUP_TID, 'init_req0', j], [SETUP_TID, 'new_resp', j]]
            outs += [['unit'], ['unit']]
        for tix, who, kind, k, v in self.events:
            if who[0] == 'h':
                j = who[1]
                if k != 'dict':
                    cmds.append([tix, 'get', 1, j, 99])      # not in the vocabulary: the model answers 'bad'
                    outs.append(['foreign', k])
                elif kind == 'get':
                    cmds.append([tix, 'hget', j])
                    outs.append(['attr'] if v is _MISSING else ['val', self.tok(v)])
                elif kind == 'set':
                    cmds.append([tix, 'raw_hset', j, self.tok(v)])
                    outs.append(['unit'])
                else:
                    cmds.append([tix, 'get', 1, j, 99])
                    outs.append(['foreign', 'del dict'])
                continue
            c, j = who
            if k not in ATTRS[c]:
                cmds.append([tix, 'get', c, j, 99])
                outs.append(['foreign', k])
                continue
            a = ATTRS[c].index(k)
            if kind == 'get':
                cmds.append([tix, 'get', c, j, a])
                if v is _MISSING:
                    # the store raises AttributeError; a Request then answers None through __getattr__
                    outs.append(['val', ['n']] if c == 0 else ['attr'])
                else:
                    outs.append(['val', self.tok(v)])
            elif kind == 'set':
                cmds.append([tix, 'raw_set', c, j, a, self.tok(v)])
                outs.append(['unit'])
            else:
                cmds.append([tix, 'del', c, j, a])
                outs.append(['attr'] if v is _MISSING else ['unit'])
        return cmds, outs


_TRACES = {}


def trace_cmds(case):
    return _TRACES.get(json.dumps(case, sort_keys=True))


def _fingerprint(apps):
    """identity of everything on the shared objects that is NOT per-thread: a request must leave it alone"""
    out = {}
    for j, a in enumerate(apps):
        rq, rs = a.request, a.response
        lst = rq.__listeners__ or {}
        out['app%d' % j] = dict(
            app_attrs=sorted(a.__dict__.keys()), app_slots=[id(a.config), id(a.router), id(rq), id(rs)],
            hooks=sorted((k, len(v)) for k, v in a._hooks.items()), error_handlers=sorted(map(str, a.error_handlers)),
            req_dict=sorted(rq.__dict__.keys()), req_slots=[id(rq.config), id(lst)],
            listeners=sorted((k, len(v)) for k, v in lst.items()),
            resp_headers=id(rs.headers), routes=len(a.routes))
    return out



def _case_cfg(case):
    names = list(case.get('cfg') or [])
    if case.get('max_body') is not None and 'max30' not in names:
        names.append('max30')
    return sorted(names) or None


def _solo_once(napps, use_default, max_body, call):
    apps = make_apps(napps, use_default, max_body)
    _warm(apps)
    log = []
    body = lambda: do_call(apps, call, log)     # noqa: E731
    if call.get('ctx_copy'):
        import contextvars
        ctx = contextvars.copy_context()
        body = lambda: ctx.run(do_call, apps, call, log)     # noqa: E731
    s = Scheduler([body], 0, (), repo_trace_dir(), arr_codes())
    s.run()
    return log, s.steps[0]


def baseline_server_main():
    """runs in a process that has imported ombott (and this module) and NEVER serves a request itself: for every
    line on stdin it forks a child that serves the one call alone, and prints the child's records.  State that is
    process-wide in ombott (class-level errors_map responses, module-level tables) is therefore pristine in every
    baseline, whatever the checking process has done before."""
    import ombott  # noqa
    for line in sys.stdin:
        line = line.strip()
        if not line:
            continue
        r, w = os.pipe()
        pid = os.fork()
        if pid == 0:
            try:
                os.close(r)
                req = json.loads(line)
                TIMEOUT_SCALE[0] = req.get('scale', 1)
                try:
                    cov_begin()
                    if req['op'] == 'solo':
                        out = json.dumps(list(_solo_once(*req['args'])) + [cov_take() if COV else None])
                    else:
                        res = _main_run(req['case'], req['steps'])
                        if COV:
                            res['cov'] = cov_take()
                        out = json.dumps(res)
                except BaseException as e:  # noqa
                    out = json.dumps(dict(baseline_error=type(e).__name__, msg=str(e)[:300]))
                with os.fdopen(w, 'w') as f:
                    f.write(out)
            finally:
                os._exit(0)
        os.close(w)
        with os.fdopen(r) as f:
            data = f.read()
        os.waitpid(pid, 0)
        try:
            rid = json.loads(line).get('rid')
        except Exception:  # noqa
            rid = None
        sys.stdout.write('{"rid": %s, "answer": %s}\n' % (json.dumps(rid), data or 'null'))
        sys.stdout.flush()


class _Baseline:
    proc = None

    lock = threading.RLock()
    seq = [0]

    @classmethod
    def ask(cls, req):
        """one request, one answer.  Requests are numbered and serialised: if a caller is abandoned while it waits (the
        per-case alarm of check.py gives up on a thread but cannot stop it), its late answer is never taken for the
        answer to somebody else's request."""
        import subprocess
        import ombott
        with cls.lock:
            if cls.proc is None or cls.proc.poll() is not None:
                repo = os.path.dirname(os.path.dirname(os.path.abspath(ombott.__file__)))
                tools = os.path.dirname(os.path.dirname(os.path.abspath(__file__)))
                code = ('import sys; sys.path[:0] = [%r, %r]; sys.dont_write_bytecode = True; '
                        'from props import sched; sched.baseline_server_main()' % (tools, repo))
                cls.proc = subprocess.Popen([sys.executable, '-c', code], stdin=subprocess.PIPE, stdout=subprocess.PIPE,
                                            text=True, bufsize=1)
            cls.seq[0] += 1
            rid = cls.seq[0]
            req = dict(req, rid=rid, scale=TIMEOUT_SCALE[0])
            try:
                cls.proc.stdin.write(json.dumps(req) + '\n')
                cls.proc.stdin.flush()
                while True:
                    line = cls.proc.stdout.readline()
                    res = json.loads(line) if line.strip() else None
                    if res is None:
                        raise RuntimeError('the forked runner gave no answer')
                    if res.get('rid') == rid:
                        res = res['answer']
                        break
                    # (an answer to an abandoned request: skip it)
            except BaseException:
                # (a time-out of the caller, a broken pipe) the answer may still arrive later: start over
                try:
                    cls.proc.kill()
                except Exception:  # noqa
                    pass
                cls.proc = None
                raise
        if isinstance(res, dict) and 'baseline_error' in res:
            raise RuntimeError('forked runner: %s %s' % (res['baseline_error'], res.get('msg')))
        return res


def _main_run(case, solo_steps_):
    """the arrangement itself (all threads, under the scheduler) in THIS process"""
    napps, use_default, max_body = case['napps'], case.get('default', False), _case_cfg(case)
    n = len(case['calls'])
    if case.get('reuse'):
        # (batches of schedules over one scenario) the applications are built once
        rk = (napps, use_default, tuple(max_body or ()))
        if rk not in _APPS_CACHE:
            _APPS_CACHE[rk] = make_apps(napps, use_default, max_body)
            _warm(_APPS_CACHE[rk])
        apps = list(_APPS_CACHE[rk])         # (threads that build applications append to their own copy)
    else:
        apps = make_apps(napps, use_default, max_body)
        _warm(apps)
    logs = [[] for _ in range(n)]
    switches = case.get('switches') or []
    if not case.get('abs'):
        # [permille of the running thread's remaining steps, to]
        rem = list(solo_steps_)
        cur = case.get('start', 0) % n
        conv = []
        for pm, to in switches:
            to = to % n
            if rem[cur] <= 1:
                break
            k = max(1, min(rem[cur] - 1, rem[cur] * pm // 1000))
            conv.append([k, to])
            rem[cur] -= k
            if to != cur and rem[to] > 0:
                cur = to
        switches = conv
    record = not case.get('reuse')
    recd = Recorder(apps) if record else None
    before = _fingerprint(apps) if record else None
    bodies = _bodies(case, apps, logs)
    if case.get('ctx_copy'):
        # workers of task-based servers (asyncio.to_thread, ASGI->WSGI bridges): every worker thread runs the WSGI call
        # inside a COPY of the context in which the applications were built — still one request per thread
        import contextvars
        bodies = [(lambda b=b, c=contextvars.copy_context(): c.run(b)) for b in bodies]
    s = Scheduler(bodies, case.get('start', 0) % n, switches, repo_trace_dir(), arr_codes())
    if record:
        recd.install()
    try:
        _, errors = s.run()
    finally:
        if record:
            recd.uninstall()
    out = dict(threads=logs, sched_steps=list(s.steps), hang=s.hang,
               thread_errors=[type(e).__name__ if e else None for e in errors], switches=switches)
    if record:
        after = _fingerprint(apps[:len(before)])
        out['shared_changed'] = sorted(k + '.' + f for k in before for f in before[k] if before[k][f] != after[k][f])
        out['trace_cmds'], out['trace_outs'] = recd.commands()
    return out


def run_arrangement(case):
    """-> dict(threads=[log per thread], solo=[log per thread], steps=[...], hang=bool, ...).
    Every part runs in its own forked child of a process that has only imported ombott: each call alone (the
    baseline), and the arrangement itself — so nothing that is process-wide in ombott carries over from one case
    to the next, and a failing case fails again when it is replayed on its own.  (Batches of schedules over one
    scenario, `reuse`, run in the calling process.)"""
    napps, use_default, max_body = case['napps'], case.get('default', False), _case_cfg(case)
    solo = []
    solo_steps_ = []
    if case.get('_solo'):
        # (batch jobs carry the served-alone records of their scenario)
        solo, solo_steps_ = case['_solo']
        out = _main_run(case, solo_steps_)
        out['solo'] = solo
        out['steps'] = solo_steps_
        return out
    for i, call in enumerate(case['calls']):
        if case.get('ctx_copy'):
            call = dict(call, ctx_copy=True)       # (the baseline runs in the same kind of worker)
        ck = json.dumps([napps, use_default, max_body, call], sort_keys=True)
        if ck in _SOLO_CACHE:
            lg, st = _SOLO_CACHE[ck]
            solo.append(json.loads(lg))
            solo_steps_.append(st)
            continue
        log, st, cv = _Baseline.ask(dict(op='solo', args=[napps, use_default, max_body, call]))
        cov_merge(cv)
        solo.append(log)
        solo_steps_.append(st)
        if len(_SOLO_CACHE) < 8000:
            _SOLO_CACHE[ck] = (json.dumps(log), st)
    if case.get('reuse'):
        out = _main_run(case, solo_steps_)
    else:
        out = _Baseline.ask(dict(op='main', case=case, steps=solo_steps_))
        cov_merge(out.pop('cov', None))
        cmds = out.pop('trace_cmds', None)
        if cmds is not None and len(_TRACES) < 20000:
            _TRACES[json.dumps(case, sort_keys=True)] = cmds
    out['solo'] = solo
    out['steps'] = solo_steps_
    return out


# -- generator pieces shared by C08 and C10 (all randomness from rng)

RET_KINDS = ['file', 'gen_empty', 'none', 'gen_blank_first', 'gen_bytes', 'gen_int', 'gen_raises_resp', 'resp_obj',
             'resp_raise', 'gen_raises_exc', 'bad_charset', 'raise_mem', 'gen_raises_mem']


def gen_api_actions(rng, tok, has_form=False, readonly=False):
    """one small group of actions on the mapping interfaces of app.response.headers / app.request"""
    r = rng.random()
    name = rng.choice(['X-A', 'X-B', 'X-C'])
    if r < 0.14:
        return [['hdr_append', name, tok + 'a%d' % rng.randrange(3)]] * rng.choice([1, 2, 3]) + [['see']]
    if r < 0.22:
        return [['hdr', name, tok + 'h'], ['hdr_del', name], ['see']]
    if r < 0.30:
        return [['hdr_clear'] if rng.random() < 0.4 else ['hdr_clear', [name, 'X-Never']], ['see']]
    if r < 0.38:
        return [['hdr_update', [[name, tok + 'u'], ['X-U', tok + 'u2']]], ['see']]
    if r < 0.46:
        return [['hdr_setdefault', name, tok + 'd'], ['see']]
    if r < 0.54:
        return [['hdr_append', name, tok + 'l1'], ['hdr_append', name, tok + 'l2'], ['hdr_copy'], ['see']]
    if r < 0.70:
        key = rng.choice(['QUERY_STRING', 'HTTP_COOKIE', 'HTTP_X_T'] + ([] if has_form else ['CONTENT_TYPE']))
        val = {'QUERY_STRING': 'n=%sn' % tok, 'HTTP_COOKIE': 'c2=%sc2' % tok, 'HTTP_X_T': tok + 'xt',
               'CONTENT_TYPE': 'text/x-' + tok.lower()}[key]
        if key == 'QUERY_STRING' and rng.random() < 0.3:
            return [['req_set', key, 'q=%sq' % tok], ['see']]        # the value it has already: nothing changes
        return [['see'], ['req_set', key, val], ['see']]
    if r < 0.74:
        return [['req_set_odd_key'], ['see']]
    if r < 0.78:
        return [['req_del'], ['see']]
    if r < 0.88:
        return [['ext'], ['see']]
    if r < 0.94:
        return [['listen'] + (['off'] if rng.random() < 0.5 else []), ['see']]
    if r < 0.96:
        return [['listen_around', [['see'], ['req_del'], ['req_set', 'HTTP_X_T', tok + 'xt2']]], ['see']]
    if r < 0.98:
        return [['hdr_append', name, tok + 'c1'], ['hdr_append', name, tok + 'c2'],
                ['resp_copy'] + (['http'] if rng.random() < 0.5 else []), ['see']]
    if r < 0.99:
        return [['copy_off'], ['req_set', 'QUERY_STRING', 'o=%so' % tok], ['see']]
    return [['args_write'], ['see']]


def gen_terminal(rng, tok):
    r = rng.random()
    if r < 0.85:
        return ['ret', rng.choice(RET_KINDS)]
    if r < 0.88:
        return ['ret', 'loop418']
    return ['bad_status', rng.choice(['nospace', 1000, 99])]


def gen_call_kind(rng, cfg_names, app_is_default):
    """keyword arguments for a call that does not reach (or only partly uses) the scripted handler"""
    r = rng.random()
    if r < 0.25:
        return dict(route='g405', method='POST')
    if r < 0.45:
        return dict(route='nope404')
    if r < 0.60:
        return dict(route='h404hook')
    if r < 0.75:
        return dict(route='badpath')
    if r < 0.90 or 'domain' not in (cfg_names or ()) or app_is_default:
        return dict(method='HEAD')
    return dict(domain=True)


def gen_wild_kind(rng):
    """a request on a rule with a filtered wildcard, or on a rule without wildcards (route hook injecting a kwarg)"""
    k = rng.choice(['rex', 'rex', 're', 'int', 'float', 'path', 'static', 'static'])
    kw = dict(route=k)
    if rng.random() < 0.5:
        kw['inject'] = True
    return kw


def _tokens(calls, acc):
    for c in calls:
        if c.get('construct'):
            continue
        acc.append(c['tok'])
        for a in c['script']:
            if a[0] == 'call':
                _tokens([a[1]], acc)
            elif a[0] == 'listen_around':
                _tokens([b[1] for b in a[1] if b[0] == 'call'], acc)
            elif a[0] == 'call_copy':
                acc.append(c['tok'] + 'cc')
    return acc


def _without_foreign(rec):
    if rec.get('where') == 'listen' and isinstance(rec.get('got'), dict) and 'foreign' in rec['got']:
        return dict(rec, got={k: v for k, v in rec['got'].items() if k != 'foreign'})
    return rec


def _arr_failures(case, obs):
    """the properties C08/C10 stated on what was recorded: every look at app.request/app.response shows the
    call's own request and response; every response carries what its own handler put there and no text of any
    other call; every thread's records equal the records of the same call served alone."""
    if obs.get('hang'):
        yield 'scheduler hang'
        return
    if any(obs.get('thread_errors') or []):
        yield 'thread died: %s' % obs['thread_errors']
        return
    if obs.get('shared_changed'):
        yield 'serving requests changed state kept on the shared objects (not per thread): %s' % obs['shared_changed']
    toks = _tokens(case['calls'], [])
    for ti, log in enumerate(obs['threads']):
        for rec in log:
            if rec['kind'] in ('see', 'form'):
                if rec.get('where') == 'listen' and rec['got'].get('foreign') and \
                        {k: v for k, v in rec['got'].items() if k != 'foreign'} == {k: v for k, v in rec['want'].items() if k != 'foreign'}:
                    ft = sorted({str(_entry_token(h)) for h in rec['got']['foreign']})
                    yield ('thread %d call %s (listen): its listener heard environ changes of other calls; foreign tokens: %s; heard %s'
                            % (ti, rec['tok'], ' '.join(ft), rec['got']['foreign']))
                    continue
                if rec['got'] != rec['want']:
                    diff = [k for k in rec['want'] if rec['got'].get(k) != rec['want'][k]]
                    extra = [k for k in rec['got'] if k not in rec['want']]
                    yield ('thread %d call %s (%s): handler sees %s, its own request/response has %s'
                            % (ti, rec['tok'], rec.get('where', 'form'),
                               {k: rec['got'].get(k) for k in diff + extra}, {k: rec['want'][k] for k in diff}))
            elif rec['kind'] == 'response':
                tok = rec['tok']
                if rec['w_final'] == 'alone':
                    continue
                if rec['w_final'] == 'static':
                    if not (rec['status'] or '').startswith('200') or rec['body'] != rec['w_body']:
                        yield ('static_file(): thread %d: call %s (no conditional or range header) answered %r with %d bytes, '
                                'expected 200 and the whole file' % (ti, tok, rec['status'], len(rec['body'])))
                    continue
                if rec['w_final'] == 'redirect':
                    loc = [h[1] for h in rec['hdrs'] if h[0] == 'Location']
                    if not (rec['status'] or '').startswith('303') or loc != [rec['w_location']]:
                        yield ('redirect(): thread %d: call %s answered %r with Location %s, expected 303 to %s'
                                % (ti, tok, rec['status'], loc, rec['w_location']))
                    continue
                text = '%s %s %s' % (rec['status'], rec['hdrs'], rec['body'])
                for other in toks:
                    if other != tok and not tok.startswith(other) and not other.startswith(tok) and other in text:
                        yield 'thread %d: response of call %s contains text of call %s' % (ti, tok, other)
                if rec['w_final'] == 'escaped':
                    if rec['status'] is not None or not rec['body'].startswith('ESCAPED:'):
                        yield 'thread %d: call %s: catchall is off, the exception must leave the application' % (ti, tok)
                    continue
                clen = [h[1] for h in rec['hdrs'] if h[0] == 'Content-Length']
                if clen and not rec.get('nobody') and clen != [str(len(rec['body'].encode('latin1')))]:
                    yield ('thread %d: call %s sent Content-Length %s with a body of %d bytes'
                            % (ti, tok, clen, len(rec['body'].encode('latin1'))))
                code = int((rec['status'] or '0').split()[0])
                if code != rec['w_status']:
                    yield 'thread %d: call %s answered %r, expected status %d' % (ti, tok, rec['status'], rec['w_status'])
                if rec.get('w_allow') and [h[1] for h in rec['hdrs'] if h[0] == 'Allow'] != [rec['w_allow']]:
                    yield 'thread %d: call %s: 405 without Allow: %s' % (ti, tok, rec['w_allow'])
                if rec.get('nobody') and rec['body']:
                    yield 'thread %d: call %s sent a body with a HEAD / 1xx / 204 / 304 answer' % (ti, tok)
                if rec.get('w_line') is not None and rec['status'] != rec['w_line']:
                    yield ('thread %d: call %s answered with status line %r, its handler set %r'
                            % (ti, tok, rec['status'], rec['w_line']))
                if rec['w_final'] in ('text', 'gen'):
                    if rec['body'] != rec['w_body']:
                        yield 'thread %d: call %s body %r, expected %r' % (ti, tok, rec['body'][:80], rec['w_body'])
                    xh = [h for h in rec['hdrs'] if h[0].startswith('X-')]
                    if xh != rec['w_hdrs']:
                        yield 'thread %d: call %s headers %s, handler set %s' % (ti, tok, xh, rec['w_hdrs'])
                    ck = sorted(h[1].split(';')[0].split('=', 1) for h in rec['hdrs'] if h[0] == 'Set-Cookie')
                    if ck != rec['w_cookies']:
                        yield 'thread %d: call %s cookies %s, handler set %s' % (ti, tok, ck, rec['w_cookies'])
                elif rec['w_final'] == 'critical':
                    # (the last-resort page quotes PATH_INFO only)
                    if rec.get('path', tok) not in rec['body'] and not rec.get('nobody'):
                        yield 'thread %d: last-resort page of call %s does not mention its own request' % (ti, tok)
                elif not rec.get('nobody'):
                    ctype = ' '.join(h[1] for h in rec['hdrs'] if h[0] == 'Content-Type')
                    if rec.get('accept_json') != ctype.startswith('application/json'):
                        yield ('thread %d: error page of call %s has Content-Type %r, the request %s JSON'
                                % (ti, tok, ctype, 'asked for' if rec.get('accept_json') else 'did not ask for'))
                    if 'text/html' in ctype and tok not in rec['body']:
                        yield 'thread %d: error page of call %s does not mention its own request' % (ti, tok)
        # (what a listener heard from other calls is judged above, record by record)
        log = [_without_foreign(r) for r in log]
        if log != [_without_foreign(r) for r in obs['solo'][ti]]:
            alone = [_without_foreign(r) for r in obs['solo'][ti]]
            k = next((i for i in range(min(len(log), len(alone))) if log[i] != alone[i]), min(len(log), len(alone)))
            a, b = (log[k] if k < len(log) else {}), (alone[k] if k < len(alone) else {})
            diff = {f: [a.get(f), b.get(f)] for f in sorted(set(a) | set(b)) if a.get(f) != b.get(f)}
            yield ('thread %d: record %d (%s of call %s) differs from the same call served alone: [here, alone] = %s'
                    % (ti, k, a.get('kind') or b.get('kind'), a.get('tok') or b.get('tok'), json.dumps(diff)[:600]))
    return


_KNOWN_SHAPES = ('redirect():', 'static_file():')


def arrangement_failure(case, obs):
    """the first failure of the case that is not of a shape covered by a listed finding (redirect() / static_file()
    outside the default application, a handler's listener hearing other threads); if there are only such, the first one.
    (A case that shows a listed finding AND something else is reported for the something else.)"""
    first = None
    for n, m in enumerate(_arr_failures(case, obs)):
        if first is None:
            first = m
        if not (m.startswith(_KNOWN_SHAPES) or '(listen): its listener heard' in m):
            return m
        if n > 200:
            break
    return first


# ---------------------------------------------------------------------------
# batches: every schedule with <= `preempt` pre-emptions of one scenario, on a process pool
# ---------------------------------------------------------------------------

_ENUM = {}
BATCH_FAIL = {}


def _batch_worker(args):
    base, scheds = args
    bad = []
    for st, sw in scheds:
        c = dict(base, start=st, switches=sw)
        o = run_arrangement(c)
        f = arrangement_failure(c, o)
        if f:
            bad.append([st, sw, f])
            if len(bad) >= 3:
                break
    return len(scheds), bad


_POOL = [None]


def _pool():
    """one pool of small worker processes for all batches of a run (started from a fork server, not forked from the
    checking process, whose memory grows with the cases it has evaluated)"""
    if _POOL[0] is None:
        import atexit
        import multiprocessing
        mainf = getattr(sys.modules.get('__main__'), '__file__', None)
        # (a fork server re-imports the main module in its workers: only possible when that is a real file)
        ctx = multiprocessing.get_context('forkserver' if mainf and os.path.exists(mainf) else 'fork')
        nproc = max(1, min(12, (os.cpu_count() or 2) - 2))
        _POOL[0] = ctx.Pool(nproc)
        atexit.register(_POOL[0].terminate)
    return _POOL[0]


def run_batch(case, base):
    """case: dict(kind='batch', preempt=k, lo=..., hi=...) ; base: the arrangement (no schedule). The schedules run in
    worker processes (applications reused, the served-alone records handed over with the job); a failing schedule is
    remembered as an ordinary arrangement case (absolute switches) for shrink()."""
    base = dict(base, abs=True, reuse=True)
    first = run_arrangement(dict(base, reuse=False, start=0, switches=[]))
    steps = first['steps']
    ek = (json.dumps(base, sort_keys=True), tuple(steps), case['preempt'])
    if ek not in _ENUM:
        _ENUM.clear()
        _ENUM[ek] = enumerate_schedules(steps, case['preempt'])
    part = _ENUM[ek][case.get('lo', 0):case.get('hi')]
    job_base = dict(base, _solo=[first['solo'], steps])
    pool = _pool()
    nproc = max(1, min(12, (os.cpu_count() or 2) - 2))
    chunk = max(1, (len(part) + nproc * 4 - 1) // (nproc * 4))
    jobs = [(job_base, part[i:i + chunk]) for i in range(0, len(part), chunk)]
    ran, bad = 0, []
    for n, b in pool.imap_unordered(_batch_worker, jobs):
        ran += n
        bad.extend(b)
    bad.sort()
    if bad:
        BATCH_FAIL[json.dumps(case, sort_keys=True)] = dict(base, start=bad[0][0], switches=bad[0][1], reuse=False)
    return dict(kind='batch', ran=ran, steps=steps, failures=bad[:3])


# ---------------------------------------------------------------------------
# wall-clock trouble is not a verdict
# ---------------------------------------------------------------------------

COMPLAINTS = {}         # case key -> the first complaint the oracle made about it (kept for the replay file)


def inconclusive(obs):
    """an outcome that only says that some wall-clock limit was hit (check.py's per-case alarm, a baton that was not
    handed over in time, the forked runner not answering) or that the plumbing broke — nothing about the property"""
    if not isinstance(obs, dict):
        return True
    if obs.get('hang'):
        return True
    if 'escaped' in obs and obs['escaped'] in ('RuntimeError', 'Empty', 'BrokenPipeError', 'OSError', 'JSONDecodeError',
                                               'CaseTimeout', 'Hang'):
        return True
    return False


def judge(case, obs, run_impl, oracle_body):
    """oracle wrapper used by C08 / C10: an inconclusive outcome is retried once, right here (no per-case alarm is
    armed while oracles run), with every wall-clock limit multiplied by 6; only if that is inconclusive again is it
    reported (as a hang that reproduces).  The first complaint about a case is remembered for its replay file."""
    if inconclusive(obs):
        old = TIMEOUT_SCALE[0]
        TIMEOUT_SCALE[0] = 6
        try:
            try:
                obs2 = run_impl(case)
            except Exception as e:  # noqa  (check.py's CaseTimeout is a BaseException: it passes through)
                obs2 = {'escaped': type(e).__name__, 'msg': str(e)[:200]}
        finally:
            TIMEOUT_SCALE[0] = old
        if inconclusive(obs2):
            msg = 'hang / harness failure that reproduces on a retry with generous limits: first %s, then %s' % (
                {k: obs.get(k) for k in ('hang', 'escaped', 'msg') if isinstance(obs, dict) and k in obs},
                {k: obs2.get(k) for k in ('hang', 'escaped', 'msg') if isinstance(obs2, dict) and k in obs2})
        else:
            sys.stderr.write('note: a case hit a wall-clock limit (%s) and was retried with generous limits\n'
                             % ({k: obs.get(k) for k in ('hang', 'escaped') if isinstance(obs, dict) and k in obs},))
            msg = oracle_body(case, obs2)
    else:
        msg = oracle_body(case, obs)
    if msg:
        COMPLAINTS.setdefault(json.dumps(case, sort_keys=True), msg)
    return msg
