"""C01p — sub-check of C01: the rule parser (Parser._iter_parse/_parse_param, SymStream) against
coq/model/RuleParser.v, and the print/parse round trip over every rule syntax flavour."""
import re

from props.common import enc_str, Reader

ID = 'C01p'
PROPERTY = 'C01'
COQ_MODEL = 'model.RuleParser'
COQ_CORR = 'corr_C01p'
N_QUICK = 3000
N_THOROUGH = 30000
RULE = ('rule texts: (i) printed from abstract segment lists in every syntax flavour (:name, <name>, {name}, '
        '<name:flt>, <name:flt:args>, <name.flt>, <name.flt(args)>, <name.flt(args)[sel]>, <:flt>, <:flt:args>, '
        '<:flt(args)>, <flt(args)>, both delimiter pairs, path filter followed by literal text), (ii) single-character '
        'mutations of those, (iii) random strings over the delimiter-rich alphabet; the implementation is '
        'list(Parser().iter_parse(text)), compared item by item with the model; oracle: a printed abstract rule '
        'parses back to exactly its segments. non-trivial = at least one wildcard item with a filter or a syntax '
        'error raised after at least one delimiter; distinct by rule text')
TRUSTED = ['modelled, not verified: Python re (the 6 regular expressions of the parser are re-implemented as scanners; '
           'what \\w matches is passed to the model as a table computed with re)']
ASSUMPTIONS = ['\\w does not match any of / > } . : ( newline (true of Python re)']

ALPHA = list('<>{}:().[]/\\ab_1-x') + ['\n', 'é', ' ', 'P', 'path', 'int', 're']
NAMES = ['a', 'b1', '_x', 'name', 'Zz_9', 'é'.join(['n', 'm'])]
FILTERS = ['int', 'float', 're', 'path', 'rex', 'f_1']
ARGS = ['x', '[a-z]+', 'a(b)c', '\\)', '\\d+', 'a b', '(x)|(y)', '.+', 'a:b']
LITS = ['/', 'foo', '/foo/', 'a-b', '/x.y/', 'end', '/é/', '-', ' ']


def wordc_table(text):
    return sorted({ord(c) for c in text if re.match(r'\w', c)})


def print_seg(seg, nxt_lit):
    """seg = ('lit', s) | ('par', flavour, delim, name, flt, args, sel)"""
    if seg[0] == 'lit':
        return seg[1]
    _, fl, d, name, flt, args, sel = seg
    o, c = ('<', '>') if d == '<' else ('{', '}')
    if fl == 'colon':
        return ':' + (name or '')
    if fl == 'plain':
        return o + name + c
    if fl == 'name:flt':
        return o + name + ':' + flt + c
    if fl == 'name:flt:args':
        return o + name + ':' + flt + ':' + args + c
    if fl == 'name.flt':
        return o + name + '.' + flt + c
    if fl == 'name.flt()':
        return o + name + '.' + flt + '(' + args + ')' + ('[' + sel + ']' if sel else '') + c
    if fl == ':flt':
        return o + ':' + flt + c
    if fl == ':flt:args':
        return o + ':' + flt + ':' + args + c
    if fl == ':flt()':
        return o + ':' + flt + '(' + args + ')' + c
    if fl == 'flt()':
        return o + flt + '(' + args + ')' + ('[' + sel + ']' if sel else '') + c
    raise ValueError(fl)


def expected_item(seg, following_text):
    if seg[0] == 'lit':
        return [seg[1], None, None, None, None]
    _, fl, d, name, flt, args, sel = seg
    if fl == 'colon':
        return [None, name or None, None, None, None]
    if fl == 'plain':
        return [None, name, None, None, None]
    has_name = fl in ('name:flt', 'name:flt:args', 'name.flt', 'name.flt()')
    has_args = fl in ('name:flt:args', 'name.flt()', ':flt:args', ':flt()', 'flt()')
    a = args if has_args else None
    if flt == 'path':
        m = re.match(r'[^{<:]+', following_text)
        a = following_text[:m.end()] if m else following_text
    return [None, name if has_name else None, flt, a, sel if fl in ('name.flt()', 'flt()') and sel else None]


def gen_abstract(rng):
    segs = []
    n = rng.randrange(1, 6)
    prev_colon = False
    for i in range(n):
        if rng.random() < 0.45 and not (segs and segs[-1][0] == 'lit'):
            lit = rng.choice(LITS)
            if prev_colon and not lit.startswith('/'):
                lit = '/' + lit
            segs.append(('lit', lit))
            prev_colon = False
            continue
        if prev_colon:
            segs.append(('lit', '/'))
            prev_colon = False
        fl = rng.choice(['colon', 'plain', 'name:flt', 'name:flt:args', 'name.flt', 'name.flt()', ':flt', ':flt:args',
                         ':flt()', 'flt()'])
        d = rng.choice('<{')
        name = rng.choice(NAMES[:5])
        flt = rng.choice(FILTERS)
        args = rng.choice(ARGS)
        if fl in ('name:flt:args', ':flt:args'):
            args = args.replace('>', '').replace('}', '') or 'x'
        sel = rng.choice([None, '1', '2', 'ab'])
        segs.append(('par', fl, d, name, flt, args, sel))
        prev_colon = fl == 'colon'
    return segs


def render(segs):
    parts = [print_seg(s, None) for s in segs]
    text = ''.join(parts)
    exp = []
    for i, s in enumerate(segs):
        exp.append(expected_item(s, ''.join(parts[i + 1:])))
    # adjacent literals merge
    merged = []
    for e in exp:
        if e[0] is not None and merged and merged[-1][0] is not None:
            merged[-1][0] += e[0]
        else:
            merged.append(e)
    return text, merged


def corpus():
    texts = ['', 'foo', ':', ':a', ':a/b', ':/x', 'a/:', ':a\n', ':a-b', '<a>', '{a}', '<a', '<a.int', '<a.int(',
             '<a:re:x>', '<:int>', '<:re:[a-z]+>', '<re((a)|(b))[1]>', '<x.rex((foo)|(bar))[2]>baz/foo',
             '<p.path()>end', '<p:path><x>', '<p:path>', '{p.path()}a:b', '<a.re(\\))>', '<a.re(a(b)c)>z', '<a.re(x)[]]>',
             '<a.re(x)[\n]>', '<a.re(x)[>', '<1a>', '<a b>', '<:>', '<:int.x>', '<a.int:5>', 'x{a}y<b>z:c', '<a>>', '<a}',
             '<é>', '<aé>']
    return [dict(kind='raw', text=t) for t in texts]


def gen(rng, n):
    for i in range(n):
        r = rng.random()
        if r < 0.5:
            segs = gen_abstract(rng)
            text, exp = render(segs)
            yield dict(kind='abstract', text=text, expected=exp)
        elif r < 0.8:
            text, _ = render(gen_abstract(rng))
            cs = list(text)
            for _ in range(rng.randrange(1, 3)):
                op = rng.random()
                pos = rng.randrange(0, len(cs) + 1)
                if op < 0.4 and cs:
                    del cs[min(pos, len(cs) - 1)]
                elif op < 0.8:
                    cs.insert(pos, rng.choice(ALPHA))
                elif cs:
                    cs[min(pos, len(cs) - 1)] = rng.choice(ALPHA)
            yield dict(kind='raw', text=''.join(cs))
        else:
            yield dict(kind='raw', text=''.join(rng.choice(ALPHA) for _ in range(rng.randrange(0, 14))))


def run_impl(case):
    from ombott.router.parser import Parser
    from ombott.router.errors import RouteSyntaxError
    try:
        items = [list(t) for t in Parser().iter_parse(case['text'])]
    except RouteSyntaxError:
        return dict(error='syntax')
    except TypeError:
        return dict(error='type')
    return dict(items=items)


def encode(case):
    t = case['text']
    return enc_str(wordc_table(t)) + enc_str([ord(c) for c in t])


def decode(out, case):
    r = Reader(out)
    tag = r.int()
    if tag == 1:
        return dict(error='syntax')
    if tag == 2:
        return dict(error='type')
    if tag != 0:
        return dict(error='model_tag_%d' % tag)

    def opt(q):
        if q.int() == 0:
            return None
        return ''.join(chr(c) for c in q.str())
    return dict(items=r.list(lambda q: [opt(q) for _ in range(5)]))


def oracle(case, obs):
    if 'escaped' in obs or 'hang' in obs:
        return 'parser raised an unexpected exception: %s' % obs
    if case['kind'] == 'abstract':
        if obs.get('items') != case['expected']:
            return 'rule %r (printed from an abstract rule) does not parse back to its segments: %s' % (case['text'], obs)
    return None


def nontrivial(case, obs):
    if 'items' in obs:
        return any(it[2] for it in obs['items'])
    return any(c in case['text'] for c in '<{')


def key(case):
    return case['text']


def classify(case, obs):
    return '%s/%s' % (case['kind'], 'ok' if 'items' in obs else obs.get('error', 'other'))


def shrink(case):
    t = case['text']
    if case['kind'] != 'raw':
        return
    for i in range(len(t)):
        yield dict(kind='raw', text=t[:i] + t[i + 1:])


PREDICATES = {}
