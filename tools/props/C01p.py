"""C01p — sub-check of C01: the rule parser (Parser._iter_parse/_parse_param, SymStream) against
coq/model/RuleParser.v, and the print/parse round trip over every rule syntax flavour."""
import re

from props.common import enc_str, Reader

ID = 'C01p'
PROPERTY = 'C01'
COQ_MODEL = 'model.RuleParser model.ParseRule'
COQ_CORR = 'corr_C01p_all'
N_QUICK = 3000
N_THOROUGH = 30000
RULE = ('rule texts: (i) printed from abstract segment lists in every syntax flavour (:name, <name>, {name}, '
        '<name:flt>, <name:flt:args>, <name.flt>, <name.flt(args)>, <name.flt(args)[sel]>, <:flt>, <:flt:args>, '
        '<:flt(args)>, <flt(args)>, both delimiter pairs, path filter followed by literal text), (ii) single-character '
        'mutations of those, (iii) random strings over the delimiter-rich alphabet; the implementation is '
        'list(Parser().iter_parse(text)), compared item by item with the model; oracle: a printed abstract rule '
        'parses back to exactly its segments. non-trivial = at least one wildcard item with a filter or a syntax '
        'error raised after at least one delimiter; distinct by rule text')
TRUSTED = ['modelled, not verified: Python re (the 6 regular expressions of the parser are re-implemented as scanners; '
           'what \\w matches is passed to the model as a table computed with re)']
ASSUMPTIONS = ['\\w does not match any of / > } . : ( newline (true of Python re)']

ALPHA = list('<>{}:().[]/\\ab_1-x') + ['\n', 'é', ' ', 'P', 'path', 'int', 're']
NAMES = ['a', 'b1', '_x', 'name', 'Zz_9', 'é'.join(['n', 'm'])]
FILTERS = ['int', 'float', 're', 'path', 'rex', 'f_1']
ARGS = ['x', '[a-z]+', 'a(b)c', '\\)', '\\d+', 'a b', '(x)|(y)', '.+', 'a:b']
LITS = ['/', 'foo', '/foo/', 'a-b', '/x.y/', 'end', '/é/', '-', ' ']


def wordc_table(text):
    return sorted({ord(c) for c in text if re.match(r'\w', c)})


def print_seg(seg, nxt_lit):
    """seg = ('lit', s) | ('par', flavour, delim, name, flt, args, sel)"""
    if seg[0] == 'lit':
        return seg[1]
    _, fl, d, name, flt, args, sel = seg
    o, c = ('<', '>') if d == '<' else ('{', '}')
    if fl == 'colon':
        return ':' + (name or '')
    if fl == 'plain':
        return o + name + c
    if fl == 'name:flt':
        return o + name + ':' + flt + c
    if fl == 'name:flt:args':
        return o + name + ':' + flt + ':' + args + c
    if fl == 'name.flt':
        return o + name + '.' + flt + c
    if fl == 'name.flt()':
        return o + name + '.' + flt + '(' + args + ')' + ('[' + sel + ']' if sel else '') + c
    if fl == ':flt':
        return o + ':' + flt + c
    if fl == ':flt:args':
        return o + ':' + flt + ':' + args + c
    if fl == ':flt()':
        return o + ':' + flt + '(' + args + ')' + c
    if fl == 'flt()':
        return o + flt + '(' + args + ')' + ('[' + sel + ']' if sel else '') + c
    raise ValueError(fl)


def expected_item(seg, following_text):
    if seg[0] == 'lit':
        return [seg[1], None, None, None, None]
    _, fl, d, name, flt, args, sel = seg
    if fl == 'colon':
        return [None, name or None, None, None, None]
    if fl == 'plain':
        return [None, name, None, None, None]
    has_name = fl in ('name:flt', 'name:flt:args', 'name.flt', 'name.flt()')
    has_args = fl in ('name:flt:args', 'name.flt()', ':flt:args', ':flt()', 'flt()')
    a = args if has_args else None
    if flt == 'path':
        m = re.match(r'[^{<:]+', following_text)
        a = following_text[:m.end()] if m else following_text
    return [None, name if has_name else None, flt, a, sel if fl in ('name.flt()', 'flt()') and sel else None]


def gen_abstract(rng):
    segs = []
    n = rng.randrange(1, 6)
    prev_colon = False
    for i in range(n):
        if rng.random() < 0.45 and not (segs and segs[-1][0] == 'lit'):
            lit = rng.choice(LITS)
            if prev_colon and not lit.startswith('/'):
                lit = '/' + lit
            segs.append(('lit', lit))
            prev_colon = False
            continue
        if prev_colon:
            segs.append(('lit', '/'))
            prev_colon = False
        fl = rng.choice(['colon', 'plain', 'name:flt', 'name:flt:args', 'name.flt', 'name.flt()', ':flt', ':flt:args',
                         ':flt()', 'flt()'])
        d = rng.choice('<{')
        name = rng.choice(NAMES[:5])
        flt = rng.choice(FILTERS)
        args = rng.choice(ARGS)
        if fl in ('name:flt:args', ':flt:args'):
            args = args.replace('>', '').replace('}', '') or 'x'
        sel = rng.choice([None, '1', '2', 'ab'])
        segs.append(('par', fl, d, name, flt, args, sel))
        prev_colon = fl == 'colon'
    return segs


def render(segs):
    parts = [print_seg(s, None) for s in segs]
    text = ''.join(parts)
    exp = []
    for i, s in enumerate(segs):
        exp.append(expected_item(s, ''.join(parts[i + 1:])))
    # adjacent literals merge
    merged = []
    for e in exp:
        if e[0] is not None and merged and merged[-1][0] is not None:
            merged[-1][0] += e[0]
        else:
            merged.append(e)
    return text, merged


def corpus():
    texts = ['', 'foo', ':', ':a', ':a/b', ':/x', 'a/:', ':a\n', ':a-b', '<a>', '{a}', '<a', '<a.int', '<a.int(',
             '<a:re:x>', '<:int>', '<:re:[a-z]+>', '<re((a)|(b))[1]>', '<x.rex((foo)|(bar))[2]>baz/foo',
             '<p.path()>end', '<p:path><x>', '<p:path>', '{p.path()}a:b', '<a.re(\\))>', '<a.re(a(b)c)>z', '<a.re(x)[]]>',
             '<a.re(x)[\n]>', '<a.re(x)[>', '<1a>', '<a b>', '<:>', '<:int.x>', '<a.int:5>', 'x{a}y<b>z:c', '<a>>', '<a}',
             '<é>', '<aé>']
    rules = [('/u/<id:int>/{n}', '/u/{id.int}/:n'), ('/p/<x:path>end', '/p/{x.path()}end'),
             ('/<:re:[a-z]+>/x', '/{re([a-z]+)}/x'), ('/a/:b', '/a/<b>'), ('/<a><b:int>', '/{a}{b.int}'),
             ('nolead', 'nolead'), ('/<x:nosuchfilter>', '/<x:nosuchfilter>'), ('/<x:re:(>', '/<x:re:(>')]
    return [dict(kind='raw', text=t) for t in texts] + [dict(kind='rule', text=a, alt=b) for a, b in rules]


def gen_abs_rule(rng):
    """an abstract rule: literals and wildcards (name?, filter?, args?, sel?)"""
    out = []
    n = rng.randrange(1, 5)
    for i in range(n):
        if rng.random() < 0.45 and not (out and out[-1][0] == 'lit'):
            out.append(('lit', rng.choice(['/', 'foo', '/foo/', '/x.y/', 'end', '-'])))
            continue
        name = rng.choice(NAMES[:5]) if rng.random() < 0.75 else None
        flt = rng.choice(['int', 'float', 're', 'path']) if rng.random() < 0.6 else None
        args = None
        if flt == 're':
            args = rng.choice(['[a-z]+', 'x', 'a b', '\\d+'])
        elif flt and rng.random() < 0.3:
            args = rng.choice(['x', 'ab'])
        if name is None and flt is None:
            name = 'n%d' % i
        out.append(('w', name, flt, args))
    # a path filter takes the following literal text as its arguments; followed directly by another wildcard it
    # takes the REST OF THE RULE TEXT, syntax included (parser.py: token_pos = len(tail)), which makes such a rule
    # spelling-dependent by construction.  The flavour-independence theorem excludes that shape (segs_ok), and so
    # does the oracle: insert a literal.
    fixed = []
    for i, a in enumerate(out):
        fixed.append(a)
        if a[0] == 'w' and a[2] == 'path' and i + 1 < len(out) and out[i + 1][0] == 'w':
            fixed.append(('lit', '/'))
    return fixed


def print_abs(rng, arule):
    """print an abstract rule choosing, per wildcard, a random flavour able to express it"""
    segs = []
    for i, a in enumerate(arule):
        if a[0] == 'lit':
            lit = a[1]
            if segs and segs[-1][0] == 'par' and segs[-1][1] == 'colon' and not lit.startswith('/'):
                return None
            segs.append(('lit', lit))
            continue
        _, name, flt, args = a
        d = rng.choice('<{')
        last = i == len(arule) - 1
        nxt_slash = (not last) and arule[i + 1][0] == 'lit' and arule[i + 1][1].startswith('/')
        if flt is None:
            fls = ['plain'] + (['colon'] if (last or nxt_slash) else [])
        elif name is not None and args is None:
            fls = ['name:flt', 'name.flt']
        elif name is not None:
            fls = ['name.flt()'] + (['name:flt:args'] if ('>' not in args and '}' not in args) else [])
        elif args is None:
            fls = [':flt']
        else:
            fls = [':flt()', 'flt()'] + ([':flt:args'] if ('>' not in args and '}' not in args) else [])
        segs.append(('par', rng.choice(fls), d, name or '', flt or '', args or '', None))
    return '/' + ''.join(print_seg(s, None) for s in segs)


def gen(rng, n):
    for i in range(n):
        r = rng.random()
        if r < 0.15:
            ar = gen_abs_rule(rng)
            t1, t2 = print_abs(rng, ar), print_abs(rng, ar)
            if t1 is None or t2 is None:
                t1 = t2 = '/' + ''.join(rng.choice(ALPHA) for _ in range(rng.randrange(0, 10)))
            yield dict(kind='rule', text=t1, alt=t2)
        elif r < 0.5:
            segs = gen_abstract(rng)
            text, exp = render(segs)
            yield dict(kind='abstract', text=text, expected=exp)
        elif r < 0.8:
            text, _ = render(gen_abstract(rng))
            cs = list(text)
            for _ in range(rng.randrange(1, 3)):
                op = rng.random()
                pos = rng.randrange(0, len(cs) + 1)
                if op < 0.4 and cs:
                    del cs[min(pos, len(cs) - 1)]
                elif op < 0.8:
                    cs.insert(pos, rng.choice(ALPHA))
                elif cs:
                    cs[min(pos, len(cs) - 1)] = rng.choice(ALPHA)
            yield dict(kind='raw', text=''.join(cs))
        else:
            yield dict(kind='raw', text=''.join(rng.choice(ALPHA) for _ in range(rng.randrange(0, 14))))


def _filter_key(route_cls, handler):
    # the key FilterFactory cached this handler under: identity of the filter
    from ombott.router.filter_factory import FilterFactory
    if handler is None:
        return None
    for k, v in FilterFactory._filter_cache.items():
        if v[0] is handler:
            return k
    return '?'


def run_impl(case):
    from ombott.router.parser import Parser
    from ombott.router.errors import RouteSyntaxError
    if case['kind'] == 'rule':
        from ombott.router.radirouter import Route
        import re as _re
        try:
            pattern, params, filters, pattern_out, _fo = Route.parse_rule(case['text'])
        except RouteSyntaxError:
            return dict(error='syntax')
        except TypeError:
            return dict(error='type')
        except (AssertionError, IndexError):
            return dict(error='assert')
        except (_re.error, KeyError) as e:
            # unknown filter name / regex that does not compile: make_filter is outside this model
            return dict(error='make_filter', cls=type(e).__name__)
        return dict(pattern=pattern, params=params, filters=[_filter_key(Route, f) for f in filters],
                    pattern_out=pattern_out)
    try:
        items = [list(t) for t in Parser().iter_parse(case['text'])]
    except RouteSyntaxError:
        return dict(error='syntax')
    except TypeError:
        return dict(error='type')
    return dict(items=items)


def encode(case):
    t = case['text']
    mode = 1 if case['kind'] == 'rule' else 0
    return [mode] + enc_str(wordc_table(t)) + enc_str([ord(c) for c in t])


def _s(q):
    return ''.join(chr(c) for c in q.str())


def decode(out, case):
    r = Reader(out)
    tag = r.int()
    if case['kind'] == 'rule':
        if tag == 0:
            pattern = _s(r)
            params = r.list(_s)
            filters = r.list(lambda q: None if q.int() == 0 else _s(q))
            return dict(pattern=pattern, params=params, filters=filters, pattern_out=_s(r))
        return dict(error={1: 'syntax', 2: 'type', 3: 'assert'}.get(tag, 'model_tag_%d' % tag))
    if tag == 1:
        return dict(error='syntax')
    if tag == 2:
        return dict(error='type')
    if tag != 0:
        return dict(error='model_tag_%d' % tag)

    def opt(q):
        if q.int() == 0:
            return None
        return ''.join(chr(c) for c in q.str())
    return dict(items=r.list(lambda q: [opt(q) for _ in range(5)]))


def same(impl, model, case):
    # FilterFactory.make_filter (unknown filter name -> KeyError, mask that does not compile -> re.error) is
    # outside this model: such cases are compared up to the point where the parser has done its work
    if impl.get('error') == 'make_filter':
        return 'pattern' in model
    return impl == model


def oracle(case, obs):
    if 'escaped' in obs or 'hang' in obs:
        return 'parser raised an unexpected exception: %s' % obs
    if case['kind'] == 'rule' and case.get('alt') and case['alt'] != case['text']:
        other = run_impl(dict(kind='rule', text=case['alt']))
        if other != obs:
            return ('two spellings of one abstract rule parse differently: %r -> %s but %r -> %s'
                    % (case['text'], obs, case['alt'], other))
    if case['kind'] == 'abstract':
        if obs.get('items') != case['expected']:
            return 'rule %r (printed from an abstract rule) does not parse back to its segments: %s' % (case['text'], obs)
    return None


def nontrivial(case, obs):
    if case['kind'] == 'rule':
        return bool(obs.get('filters')) or case.get('alt') != case['text']
    if 'items' in obs:
        return any(it[2] for it in obs['items'])
    return any(c in case['text'] for c in '<{')


def key(case):
    return case['text']


def classify(case, obs):
    return '%s/%s' % (case['kind'], 'ok' if 'items' in obs else obs.get('error', 'other'))


def shrink(case):
    t = case['text']
    if case['kind'] == 'rule' and case.get('alt') == t:
        for i in range(1, len(t)):
            yield dict(kind='rule', text=t[:i] + t[i + 1:], alt=t[:i] + t[i + 1:])
        return
    if case['kind'] != 'raw':
        return
    for i in range(len(t)):
        yield dict(kind='raw', text=t[:i] + t[i + 1:])


PREDICATES = {}

MANIFEST = dict(
    text=('Sub-check C01p (rule parser, "every rule syntax flavour"): Coq theorems, closed under the global context, for '
          'EVERY interpretation of the regex class \\w that excludes the delimiters: C01_parser_print_parse_roundtrip '
          '(every abstract rule written in any of the ten wildcard flavours with either delimiter pair parses back to '
          'exactly its segments), C01_parser_terminates (the parser never runs out of fuel on ANY text), '
          'C01_parse_rule_of_printed_rule / C01_parse_rule_flavour_independent (Route.parse_rule depends only on the '
          'abstract rule, not on the spelling) and C01_rule_text_to_pat (its result is exactly the [pat] the router '
          'theorems speak about).  Models coq/model/RuleParser.v + ParseRule.v tied to Parser/SymStream/'
          'Route.parse_rule by correspondence on printed rules, their mutations and random delimiter-rich strings.'),
    note=('Python re is re-implemented as scanners (six regular expressions); FilterFactory.make_filter failures '
          '(unknown filter, uncompilable mask) are outside the model; a path filter directly followed by another '
          'wildcard takes the rest of the rule TEXT as its argument and is therefore spelling-dependent by '
          'construction - excluded by segs_ok and by the oracle.'),
    technique='Coq proof (per-flavour scanner lemmas, induction over segments) + parser correspondence',
    design_ref='DESIGN.md section 0.2 (sub-checks), section 4 C01 (rule parser)',
)
