"""C18 — query strings and urlencoded forms decode to exactly what was sent.

Case kinds (field 'kind'):
  rt      pairs (lists of code points) are encoded on the Python side with urllib.parse.urlencode
          (spelling 'plus' = quote_plus, 'quote' = quote(safe='')) and parsed through `via`
          (query | forms | params_q | params_f | direct); model gets the raw encoded string
  raw     an arbitrary string parsed through `via` (query | forms | direct | params with a body)
  seq     ONE request with a query string and an urlencoded body ('qpairs'/'bpairs' encoded with urlencode, or
          raw 'qs'/'body'); query / forms / params are read in the generated 'order' (with repeats) and every
          read is observed; the oracle also reads each accessor on a fresh request.  With 'ops' instead of
          'order' the operations also REPLACE the query string (request['QUERY_STRING'] = ...) and the body
          (request['wsgi.input'] = BytesIO(...), request['CONTENT_LENGTH'] = ...) between reads, and read the raw
          body partly or fully (request.body.read(n), op 'read_body') before asking for forms / params
  frame   END TO END: the urlencoded body ('pairs' encoded with urlencode, or raw 'text') travels through a
          fragmenting wsgi.input (props.common.FragStream, schedule 'sched') under Content-Length or chunked
          framing ('data' = the bytes on the wire), with max_memfile_size 'buf' / max_body_size 'maxb' around
          the body size; Ombott.__call__ runs a handler that reads request.forms / request.params — eagerly
          ('handler'='plain'), lazily from the generator it returns while the response streams ('gen'), or in a
          later step of that generator ('gen_late') — optionally after a before_request hook ('hook') or the handler
          itself ('touch') read request.body fully or partly without parsing the form
  modes   parse_qsl's other two modes: append=acc.append on a non-empty list and setitem=d.__setitem__ on a
          non-empty dict (also both keywords at once: setitem wins)
  reuse   several requests in ONE process, many of them over the SAME raw query string / body (repeated keys), through
          one Ombott application ('via'='app') or as separate Request objects ('via'='request'); after every
          read the handler MUTATES what it got in place ('mut': reverse / sort / append / pop on the list values,
          keys added / deleted, clear) — a later request must still decode its own text in submission order
  cachein helpers.cache_in on a toy class: both storage forms, read_only, failing getter; get / set / del
  prim    primitive-level comparison of lib/Utf8.v and lib/Pct.v with str.encode / bytes.decode /
          urllib.parse (field 'op')
Strings are lists of code points everywhere (JSON-able even with lone surrogates)."""
import io

from props.common import FragStream, enc_str, enc_list, Reader, environ

ID = 'C18'
COQ_MODEL = 'model.QslBody'
COQ_CORR = 'corr_C18'
N_QUICK = 4000
N_THOROUGH = 20000
THOROUGH_EXHAUSTIVE = True
VM_CASES = 60
RULE = ('cases = corpus + random: (a) round trips: 0..6 pairs over an alphabet rich in "= & + % space ; / ? #", '
        'controls, Latin-1, BMP and non-BMP characters, keys drawn from a small pool so that keys repeat, encoded '
        'by urllib.parse.urlencode with quote_plus or quote(safe="") and parsed through Request.query, '
        'Request.forms (urlencoded body via a real environ), Request.params and parse_qsl directly; (b) raw strings '
        'with stray "%", "%zz", "%e9" (invalid UTF-8), "&&", "==", "=v", trailing separators, raw non-ASCII and lone '
        'surrogates; (a3) END TO END: the urlencoded body (pairs or raw text) through a fragmenting wsgi.input '
        'under Content-Length and chunked framing (random legal chunkings, extensions, trailers, bytes behind the '
        'body) with max_memfile_size / max_body_size at size-1, size, size+1, via Ombott.__call__ and a handler '
        'reading request.forms; (a2) ONE request with query string and urlencoded body (keys shared between both sides), '
        'query/forms/params read in a generated order with repeats, and in the "ops" form interleaved with '
        'replacements of the query string (request["QUERY_STRING"] = ...) and of the body (request["wsgi.input"], '
        'request["CONTENT_LENGTH"] in either order) and with partial / full raw reads request.body.read(n) before '
        'forms / params; every read observed and compared with the grouping/merge of '
        'what the request carries at that moment and with a fresh request carrying it; (c) primitives: utf8 encode / strict decode / replace decode on boundary code points and '
        'malformed byte strings, quote / quote_plus / unquote / unquote_to_bytes / urlencode. thorough adds every '
        'raw string of length <= 5 over "a=&+%4" through parse_qsl and Request.query, and every byte string of length <= 3 '
        '(<= 4 behind a 4-byte lead) over the 19 boundary bytes of the UTF-8 decoder (exhaustive). '
        'non-trivial = round trip with >= 2 pairs containing a repeated key or a character outside [A-Za-z0-9], '
        'or raw string containing "%" or at least two separators, or a framed body of >= 2 bytes that is chunked or '
        'read under a fragmentation schedule, or a read sequence on a request with both parts '
        'in which query or forms is read after params, or an op sequence with a read before and after a replacement, or a primitive case with a non-ASCII/malformed '
        'input; distinct by the full input')
TRUSTED = ['modelled, not verified: CPython urllib.parse.unquote / _unquote_impl and the UTF-8 codec with '
           'errors="strict"/"replace" (coq/lib/Pct.v, coq/lib/Utf8.v: re-implemented by hand following '
           'Objects/stringlib/codecs.h and urllib/parse.py, tied by the primitive-level correspondence of this check; '
           'internal consistency is proved: decode(encode s) = s, decoder soundness, split("%") form = in-place form); '
           'Python dict insertion order (association list); the aliasing of the list object between _lists[k] and '
           'the target dict (modelled by writing both)',
           'spec side: urllib.parse.quote / quote_plus / urlencode are re-stated in coq/lib/Pct.v and compared with '
           'urllib on every run; the round-trip theorem is about those spec encoders',
           'not modelled: _get_body_string size limits (BodySizeError for bodies above max_memfile_size), '
           'cache_in caching of query/forms/params in the environ, the JSON and multipart branches of POST']
ASSUMPTIONS = ['keys are non-empty', 'keys and values are scalar text (no lone surrogates: urllib.parse.quote raises '
               'UnicodeEncodeError on them, so they cannot be sent)',
               'the urlencoded body is within max_memfile_size and Content-Length matches it']

KIND_CODE = {'query': 0, 'forms': 1, 'params': 2, 'direct': 3}
PRIM_CODE = {'utf8_encode': 10, 'utf8_dec': 11, 'utf8_dec_replace': 12, 'quote': 20, 'quote_plus': 21,
             'unquote': 22, 'unquote_to_bytes': 23, 'urlencode': 24, 'urlencode_q': 25, 'quote_slash': 26}

BOUNDARY = [0, 0x25, 0x26, 0x2B, 0x3D, 0x20, 0x7F, 0x80, 0xFF, 0x100, 0x7FF, 0x800, 0xFFF, 0x1000, 0xCFFF, 0xD000,
            0xD7FF, 0xE000, 0xFFFD, 0xFFFF, 0x10000, 0x3FFFF, 0x40000, 0xFFFFF, 0x100000, 0x10FFFF]
SURR = [0xD800, 0xDBFF, 0xDC00, 0xDFFF]


def S(text):
    return [ord(c) for c in text]


def T(cps):
    return ''.join(chr(c) for c in cps)


# --------------------------------------------------------------------------
# corpus
# --------------------------------------------------------------------------

def rt(pairs, spelling='plus', via='query'):
    return dict(kind='rt', pairs=[[S(k), S(v)] for k, v in pairs], spelling=spelling, via=via)


def raw(text, via='query', body=None):
    c = dict(kind='raw', qs=S(text) if isinstance(text, str) else list(text), via=via)
    if body is not None:
        c['body'] = list(body)
    return c


def prim(op, arg):
    return dict(kind='prim', op=op, arg=arg)


def seq(qpairs, bpairs, order, spelling='plus'):
    return dict(kind='seq', qpairs=[[S(k), S(v)] for k, v in qpairs], bpairs=[[S(k), S(v)] for k, v in bpairs],
                spelling=spelling, order=list(order))


def chunk_encode(rng, payload, buf):
    """a legal chunked encoding of payload (size lines within buf when buf >= 4), some with extensions / leading
    zeros / upper-case hex, followed by a trailer section"""
    out, i = b'', 0
    while i < len(payload):
        n = max(1, min(rng.choice([1, 2, 3, 5, 7, len(payload) - i]), len(payload) - i))
        line = (b'%X' if rng.random() < 0.3 else b'%x') % n
        if rng.random() < 0.2 and len(line) + 3 <= buf:
            line = b'0' + line
        if rng.random() < 0.2 and len(line) + 4 <= buf:
            line += b';x'
        out += line + b'\r\n' + payload[i:i + n] + b'\r\n'
        i += n
    return out + b'0\r\n' + rng.choice([b'\r\n', b'X-T: 1\r\n\r\n', b''])


def frame(rng, text, buf, maxb, chunked, sched, pairs=None, spelling=None, cl=None, tail=b''):
    text = bytes(text)
    if chunked:
        data, cl = chunk_encode(rng, text, buf), -1
    else:
        data, cl = text + tail, len(text) if cl is None else cl
    c = dict(kind='frame', text=list(text), data=list(data), cl=cl, chunked=chunked, buf=buf, maxb=maxb,
             sched=list(sched))
    if pairs is not None:
        c.update(pairs=pairs, spelling=spelling)
    return c


def pairs_text(pairs, spelling):
    from urllib.parse import urlencode, quote
    kw = {} if spelling == 'plus' else dict(safe='', quote_via=quote)
    return urlencode([(T(k), T(v)) for k, v in pairs], **kw).encode('ascii')


def big_forms(sizes, vias, spelling='plus'):
    """more fields than any plausible per-request budget: every one of them was sent and must come back"""
    return [rt([('f%d' % i, 'v%d' % i) for i in range(n)], spelling, via) for n in sizes for via in vias]


def big_repeats(nkeys, nrep, via, spelling='plus'):
    """nkeys fields of which the first nrep are sent twice (a repeated key costs the setitem callback an extra store)"""
    return rt([('k%d' % i, 'a') for i in range(nkeys)] + [('k%d' % i, 'b') for i in range(nrep)], spelling, via)


def frame_corpus():
    import random
    rng = random.Random(18)
    pairs = [[S('id'), S('7')], [S('tag'), S('x y')], [S('tag'), S('é&=+%')]]
    out = []
    for spelling in ('plus', 'quote'):
        text = pairs_text(pairs, spelling)
        n = len(text)
        for chunked in (False, True):
            for buf, maxb in ((n, None), (n - 1, None), (n + 1, n), (n + 1, n - 1), (n, n), (4 * n, None)):
                for sched in ([], [0] * (4 * n + 40), [2, 0, 6, 1]):
                    out.append(frame(rng, text, buf, maxb, chunked, sched, pairs, spelling, tail=b'' if sched else b'XX'))
    out.append(frame(rng, b'', 8, None, False, []))
    out.append(frame(rng, b'', 8, None, True, [0] * 10))
    out.append(frame(rng, b'a=%e9&=v&&b', 11, None, True, [1, 0, 2]))
    out.append(frame(rng, b'a=1&b=2', 16, None, False, [0, 0], cl=5))              # declared length shorter
    out.append(frame(rng, b'a=1&b=2', 16, None, False, [0, 0], cl=12))             # early EOF
    c = frame(rng, b'a=1&b=2', 16, None, True, [])
    c['data'] = list(b'7\r\na=1&b=2\r\n0')                                       # truncated last-chunk line
    out.append(c)
    # header combinations: no Content-Length at all / empty; both framing headers; content types
    out.append(dict(frame(rng, b'a=1&b=2', 16, None, False, []), cl=-1))
    out.append(dict(frame(rng, b'a=1&b=2', 16, None, False, []), cl=-1, cl_empty=True))
    for cl in (0, 3, 7, 20):
        out.append(dict(frame(rng, b'a=1&b=2', 16, None, True, [0, 2]), cl=cl))     # chunked + Content-Length (F35)
    for ct in CT_URLENC:
        out.append(dict(frame(rng, b'a=1&a=%2B', 16, None, False, [1]), ctype=ct))
    # the form is first looked at while the response streams, after a hook / the handler buffered the raw body
    # (seeded edit: _handle closing the buffered body in its finally)
    for handler in ('gen', 'gen_late', 'plain'):
        for hook, touch in (('full', None), ('partial', None), (None, 'full'), (None, None), ('full', 'partial')):
            for chunked in (False, True):
                for buf in (64, 6):
                    out.append(dict(frame(rng, b'a=1&a=%2B&b=', buf, None, chunked, [1, 0]), handler=handler, hook=hook,
                                    touch=touch, view='params' if chunked else 'forms'))
    return out


def seq_ops(qpairs, bpairs, ops, spelling='plus', ct='application/x-www-form-urlencoded', ro=False):
    """ops: ('read', a) | ('set_qs', pairs) | ('set_body', pairs[, cl_first])"""
    conv = lambda ps: [[S(k), S(v)] for k, v in ps]
    out = []
    for o in ops:
        if o[0] in ('read', 'read_body', 'copy', 'set_ctype'):
            out.append([o[0], o[1] if o[0] != 'set_ctype' else S(o[1])])
        elif o[0] == 'attr':
            out.append(['attr', o[1], S(o[2])])
        elif o[0] in ('del_qs',):
            out.append(['del_qs'])
        elif o[0] == 'set_other':
            out.append(['set_other', o[1], o[2]])
        elif o[0] == 'set_qs':
            out.append(['set_qs', S(pairs_text(conv(o[1]), spelling).decode('ascii')), conv(o[1])])
        else:
            out.append(['set_body', list(pairs_text(conv(o[1]), spelling)), conv(o[1]), int(bool(o[2:] and o[2]))])
    return dict(kind='seq', qpairs=conv(qpairs), bpairs=conv(bpairs), spelling=spelling, ops=out, ct=ct, ro=ro)


# content types that select the urlencoded parser (missing = None) and some that select another one
CT_URLENC = [None, '', 'application/x-www-form-urlencoded', 'APPLICATION/X-WWW-FORM-URLENCODED; Charset=UTF-8',
             'application/x-www-form-urlencoded;charset=latin1', 'text/plain', 'TEXT/PLAIN; charset=x', ' multipart/x',
             'x-multipart/form-data', 'application/x-json', 'application/jso', 'multipart', 'application/octet-stream',
             '\xe9/\xc9']
CT_OTHER = ['multipart/form-data', 'Multipart/Mixed', 'MULTIPART/', 'application/json', 'Application/JSON; charset=utf-8',
            'APPLICATION/JSON ;x=1']
DICT_ATTRS = set(dir(dict)) | {'copy'}


ORDERS = [['params', 'query'], ['query', 'params', 'query'], ['forms', 'params', 'query', 'forms'],
          ['params', 'forms', 'query', 'params'], ['query', 'forms', 'params'], ['params', 'params', 'query', 'forms']]


def corpus():
    out = [
        rt([('a', '1'), ('b', '2'), ('a', '3')]),
        raw('a=1&b=2&a=3&a=4', 'direct'),
        prim('utf8_dec_replace', [0xE0, 0x80, 0x80, 0x41, 0xF0, 0x9F, 0x98, 0x80, 0xED, 0xA0, 0x80, 0xF4, 0x90, 0x80,
                                  0x80, 0xC3]),
        prim('unquote', S('%e9%41%C3%A9%zz%%41%4')),
        rt([('k=&+% ', 'v=&+% '), ('k=&+% ', ''), ('é€\U0001F600', '\x00\x7f\x80\xff')], 'quote', 'forms'),
        rt([('a', 'x'), ('b', 'y'), ('a', 'z'), ('b', 'w'), ('a', 'x')], 'plus', 'params_f'),
        raw('=v', 'query'), raw('=v&=w&&&', 'direct'), raw('a&b', 'query'), raw('a=&b', 'forms'),
        raw('a', 'direct'), raw('a=', 'direct'), raw('a=b=c==&d', 'query'), raw('&', 'direct'), raw('=', 'direct'),
        raw('%', 'query'), raw('%=%', 'direct'), raw('a=%', 'direct'), raw('a=%4', 'direct'), raw('%zz=%e9', 'query'),
        raw('%26=%3D&%3d=%26', 'query'), raw('a+b=c+d&a%2Bb=c%2bd', 'forms'), raw('a;b=c;d', 'query'),
        raw('%00=%00', 'query'), raw('a=1&a=2&a=3&a=4&b&b', 'forms'), raw('x=%F0%9F%98%80&y=%F0%9F%98', 'query'),
        raw('x=%ED%A0%80&y=%C0%AF&z=%F4%90%80%80', 'direct'), raw('é=€&\U0001F600=\ud800', 'query'),
        raw('%C3é%A9=1', 'direct'), raw([0xE9, 0x3D, 0x25, 0x34, 0x31], 'forms'),
        raw('a=1&b=2', 'params', body=S('b=3&c=4&a=5&a=6')), raw('', 'params', body=S('x=1')),
        raw('', 'query'), raw('', 'forms'), raw('', 'direct'), raw('q=1', 'params', body=[]),
        raw('a=1&a=2', 'params', body=S('a=3')), raw('k', 'params', body=[0xC3, 0xA9, 0x3D, 0xFF]),
        # params must not alias/mutate the cached query dict (seeded edit: params = self.query; params.update(forms))
        seq([('id', '7'), ('tag', 'x'), ('tag', 'y')], [('id', '99'), ('tag', 'z'), ('new', '1')], ['params', 'query']),
        seq([('id', '7'), ('tag', 'x'), ('tag', 'y')], [('id', '99'), ('tag', 'z'), ('new', '1')],
            ['forms', 'params', 'query', 'forms']),
        seq([('a', '1')], [('b', '2')], ['query', 'params', 'query'], 'quote'),
        dict(kind='seq', qs=S('a=1&=x&a=%e9'), body=S('a=2&b&%zz'), order=['params', 'query', 'forms', 'params']),
        # the query string / body are replaced between reads (seeded edit: query cached under a slot that
        # _on_env_changed does not clear; F34: CONTENT_LENGTH did not drop the cached content_length)
        seq_ops([('lang', 'en'), ('tag', 'x'), ('tag', 'y+z')], [('name', 'Jürgen & co'), ('page', 'f')],
                [('read', 'query'), ('set_qs', [('q', '100% café'), ('tag', 'only')]), ('read', 'query'),
                 ('read', 'params')]),
        seq_ops([('a', '1')], [('x', '1')],
                [('read', 'params'), ('set_qs', [('b', '2')]), ('read', 'params'), ('read', 'query')], 'quote'),
        seq_ops([('a', '1')], [('x', '1')],
                [('read', 'forms'), ('set_body', [('yy', '22'), ('z', '3')]), ('read', 'forms'), ('read', 'params')]),
        seq_ops([('a', '1')], [('x', '1'), ('x', '2')],
                [('read', 'params'), ('set_body', [('y', '2')], 1), ('read', 'params'), ('read', 'forms'),
                 ('set_qs', []), ('read', 'query'), ('read', 'params')]),
        seq_ops([('a', '1')], [('x', '1')], [('set_qs', [('b', '2')]), ('set_body', [('y', '2')]), ('read', 'params')]),
        # copy() and attribute access of the FormsDict, deletion, other keys, content types, read-only environ
        seq_ops([('a', '1'), ('b', '2'), ('a', '3')], [('x', '1'), ('b', '9')],
                [('copy', 'query'), ('read', 'query'), ('attr', 'query', 'a'), ('attr', 'query', 'nope'),
                 ('copy', 'params'), ('attr', 'params', 'b'), ('read', 'params'), ('del_qs',), ('read', 'query'),
                 ('read', 'params'), ('set_other', 'HTTP_X_FOO', '1'), ('set_other', 'x.y', 'z'), ('read', 'forms')]),
        seq_ops([('a', '1')], [('x', '1')],
                [('read', 'forms'), ('set_ctype', 'application/json'), ('read', 'forms'), ('read', 'query'),
                 ('read', 'params'), ('set_ctype', 'TEXT/PLAIN; charset=x'), ('read', 'forms'), ('read', 'params'),
                 ('set_ctype', 'multipart/form-data'), ('read', 'params')], ct=None),
        seq_ops([('a', '1')], [('x', '1')],
                [('read', 'query'), ('set_qs', [('b', '2')]), ('del_qs',), ('set_body', [('y', '2')]),
                 ('set_ctype', 'application/json'), ('set_other', 'HTTP_X', '1'), ('read', 'query'), ('read', 'params')],
                ro=True),
        seq_ops([('a', '1')], [('x', '1')], [('read', 'params')], ct='APPLICATION/X-WWW-FORM-URLENCODED; Charset=UTF-8'),
        # the raw body is read first (signature check, logging hook), then the forms (seeded edit: _get_body_string
        # without its rewind parses only the unread tail)
        seq_ops([], [('k y', 'v+1'), ('na=me', 'Zoë & co'), ('p%', '100%'), ('k y', '中文')],
                [('read_body', -1), ('read', 'forms')]),
        seq_ops([('q', '1')], [('k y', 'v+1'), ('na=me', 'Zoë & co'), ('p%', '100%'), ('k y', '中文')],
                [('read_body', 10), ('read', 'params'), ('read_body', 3), ('read', 'forms')], 'quote'),
        seq_ops([('a', '1')], [('x', '1')],
                [('read', 'forms'), ('set_body', [('y', '2'), ('y', '3')]), ('read_body', 4), ('read', 'forms'),
                 ('read_body', -1), ('read', 'params')]),
        dict(kind='seq', qs=S('a=%e9&&=v'), body=S('b=1'),
             ops=[['read', 'query'], ['set_qs', S('%zz=1&a'), None], ['read', 'query'], ['read', 'params'],
                  ['set_body', S('c==2&%'), None, 0], ['read', 'forms'], ['read', 'params']]),
        rt([], 'plus', 'query'), rt([('a', '')], 'plus', 'direct'),
        # literal escape look-alikes in keys and values (seeded edit: %uXXXX expanded after unquote = decoded twice)
        rt([('price', '10%u2019 off'), ('%u0041', 'key'), ('A', 'other key'), ('%41', 'x'), ('a%25', '%2541'), ('%', '%25')],
           'plus', 'query'),
        rt([('price', '10%u2019 off'), ('%u0041', 'key'), ('A', 'other key'), ('%41', 'x'), ('a%25', '%2541')], 'quote', 'forms'),
        rt([(e, e) for e in ESCAPE_LOOKALIKES], 'plus', 'params_f'), rt([(e, e) for e in ESCAPE_LOOKALIKES], 'quote', 'direct'),
        raw('a=%25u2019&%25u0041=1&A=2&b=%2541&c=%u2019&%u0041=3', 'query'),
    ] + [rt([(k, '1') for k in NAME_KEYS] + [('self', '2')], sp, via)
         for sp in ('plus', 'quote') for via in ('query', 'forms', 'params_q', 'params_f', 'direct')] + [
        seq([('self', 'q'), ('class', '1')], [('self', 'f'), ('cls', '2'), ('args', '3'), ('kwargs', '4'), ('mapping', '5'),
                                              ('iterable', '6'), ('__init__', '7'), ('None', '8')],
            ['params', 'query', 'forms', 'params']),
        seq([(k, 'q') for k in NAME_KEYS], [(k, 'f') for k in reversed(NAME_KEYS)], ['forms', 'params', 'query']),
        seq_ops([('self', '1')], [('self', '2'), ('other', '3')],
                [('read', 'params'), ('copy', 'params'), ('copy', 'forms'), ('attr', 'forms', 'self'), ('attr', 'params', 'other'),
                 ('set_body', [('cls', '1'), ('kwargs', '2'), ('E', '3'), ('F', '4')]), ('read', 'params'), ('copy', 'params')]),
        dict(kind='reuse', via='app', mut=[], reqs=[[S('self=1&key=2'), S('self=3&value=4&default=5')]] * 2),
    ] + frame_corpus()[:8] + [ rt([('a', ''), ('a', '')], 'quote', 'query'),
        rt([(' ', ' '), ('+', '+'), ('%', '%'), ('&', '&'), ('=', '=')], 'plus', 'query'),
        rt([(' ', ' '), ('+', '+'), ('%', '%'), ('&', '&'), ('=', '=')], 'quote', 'direct'),
        rt([('%41', '%zz'), ('a+b', 'a b'), ('%2B', '+ +')], 'plus', 'forms'),
        rt([('\uffff\ufffd', '\U0010ffff'), ('\u0800\u07ff', '\ud7ff')], 'plus', 'params_q'),
        rt([('a', '1'), ('b', '2')], 'plus', 'params_q'),
    ]
    for c in BOUNDARY:
        out.append(prim('utf8_encode', [c]))
        out.append(prim('quote', [c]))
    for c in SURR:
        out.append(prim('utf8_encode', [0x41, c]))
    out.append(prim('utf8_encode', BOUNDARY))
    mal = [[0x80], [0xBF], [0xC0, 0x80], [0xC1, 0xBF], [0xC2], [0xC2, 0x41], [0xDF, 0xBF], [0xE0], [0xE0, 0xA0],
           [0xE0, 0x9F, 0xBF], [0xE0, 0xA0, 0x80], [0xE1, 0x80], [0xE1, 0x80, 0x41], [0xED, 0x9F, 0xBF],
           [0xED, 0xA0, 0x80], [0xEF, 0xBF, 0xBF], [0xF0], [0xF0, 0x90], [0xF0, 0x90, 0x80], [0xF0, 0x8F, 0xBF, 0xBF],
           [0xF0, 0x90, 0x80, 0x80], [0xF0, 0x90, 0x80, 0x41], [0xF0, 0x90, 0x41, 0x80], [0xF4, 0x8F, 0xBF, 0xBF],
           [0xF4, 0x90, 0x80, 0x80], [0xF5, 0x80, 0x80, 0x80], [0xFF], [0xFE], [0xF8, 0x88, 0x80, 0x80, 0x80],
           [0x41, 0xE2, 0x82, 0xAC, 0x42], [0xE2, 0x82], [0xE2, 0xE2, 0x82, 0xAC], [0xF0, 0x9F, 0x98, 0xF0, 0x9F, 0x98, 0x80],
           []]
    for m in mal:
        out.append(prim('utf8_dec', m))
        out.append(prim('utf8_dec_replace', m))
    for t in ['', 'abc', 'a b+c', '/~-._', '%', '%%', '%4', '%41', '%4g', '%g4', '%C3%A9', '%c3%a9', '%e9', 'a%',
              '%41%', '%%41', '%4%41', '%F0%9F%98%80', '%F0%9F%98', '%ED%A0%80', 'é%41', '%C3é%A9', '\ud800%41',
              'no escapes é', '%00', '%7f%80']:
        out.append(prim('unquote', S(t)))
        out.append(prim('quote', [c for c in S(t) if not 0xD800 <= c < 0xE000]))
        out.append(prim('quote_plus', [c for c in S(t) if not 0xD800 <= c < 0xE000]))
        out.append(prim('quote_slash', [c for c in S(t) if not 0xD800 <= c < 0xE000]))
        if all(c < 128 for c in S(t)):
            out.append(prim('unquote_to_bytes', S(t)))
    out.append(prim('urlencode', [[S('a b'), S('c&d')], [S('é'), S('')], [S(''), S('=')]]))
    out.append(prim('urlencode_q', [[S('a b'), S('c&d')], [S('é'), S('+')]]))
    out.append(prim('urlencode', []))
    P = lambda ps: [[S(k), S(v)] for k, v in ps]
    out += [
        dict(kind='modes', mode='append', d0=P([('pre', 'x')]), pairs=P([('a', '1'), ('a', '2'), ('b', '')]), spelling='plus'),
        dict(kind='modes', mode='setitem', d0=P([('a', 'old'), ('z', 'keep')]), pairs=P([('a', '1'), ('b', '2'), ('a', '3')]),
             spelling='quote'),
        dict(kind='modes', mode='both', d0=P([('b', 'old')]), pairs=P([('a', '1'), ('b', '2')]), spelling='plus'),
        dict(kind='modes', mode='setitem', d0=[], qs=S('=v&a&a=%e9&&b==')),
        dict(kind='modes', mode='append', d0=[], qs=S('=v&a&a=%e9&&b==')),
        dict(kind='reuse', reqs=[[S('a=1&a=2'), S('x=1')], [S(''), S('')], [S('b=2'), S('x=2&y=%e9')], [S('a=1&a=2'), S('x=1')]]),
        # returned values are changed in place, then the same raw text arrives again (seeded edit: query memoised
        # per raw string with a shallow copy -> the list of a repeated key shared between requests)
        dict(kind='reuse', via='app', mut=['reverse'],
             reqs=[[S('tag=b&tag=a&tag=c&page=2'), S('x=2&x=1')]] * 3),
        dict(kind='reuse', via='request', mut=['sort', 'append'],
             reqs=[[S('tag=b&tag=a&tag=c&page=2'), S('x=2&x=1')], [S('q=1'), S('')], [S('tag=b&tag=a&tag=c&page=2'), S('x=2&x=1')]]),
        dict(kind='reuse', via='app', mut=['pop', 'add_key', 'del_key'],
             reqs=[[S('k=1&k=2&k=3'), S('k=9&k=8')], [S('k=1&k=2&k=3'), S('k=9&k=8')]]),
        dict(kind='reuse', via='request', mut=['list_clear', 'dict_clear'],
             reqs=[[S('k=1&k=2&j=%e9'), S('k=9&k=8')]] * 2),
        dict(kind='cachein', form='attr', ro=False, fails=False, base=10,
             ops=[['get'], ['get'], ['del'], ['del'], ['get'], ['set', 7], ['get']]),
        dict(kind='cachein', form='key', ro=True, fails=False, base=3, ops=[['get'], ['set', 7], ['del'], ['get']]),
        dict(kind='cachein', form='key_kw', ro=False, fails=True, base=0, ops=[['get'], ['get'], ['set', 1], ['get'], ['del']]),
        dict(kind='cachein', form='attr', ro=True, fails=True, base=0, ops=[['get'], ['del'], ['set', 2], ['get']]),
    ]
    return out + frame_corpus()[8:] + big_forms([1001, 1500], ['forms', 'query']) + [big_repeats(700, 400, 'forms')]


# --------------------------------------------------------------------------
# generators
# --------------------------------------------------------------------------

ALPHA = S('ab=&+% ;/?#') + [0x00, 0x0A, 0x0D, 0x7F, 0x80, 0xA0, 0xE9, 0xFF, 0x100, 0x7FF, 0x800, 0x20AC, 0xD7FF, 0xE000,
                             0xFFFD, 0xFFFF, 0x10000, 0x1F600, 0x10FFFF]


# field names that collide with Python parameter names, keywords, dunders and dict-constructor parameters:
# the containers are built with calls like FormsDict(query, **forms), so a field NAME can become a keyword argument
NAME_KEYS = ['self', 'cls', 'args', 'kwargs', 'key', 'value', 'default', 'dict', 'None', 'True', 'class', 'def', 'lambda',
             '__init__', '__class__', 'mapping', 'iterable', 'other', 'E', 'F', 'name', 'environ', 'config', 'copy', 'get',
             'items', 'seq', 'object', 'type', 'kw', 'k', 'v', 'd', 'm', 'return', 'import', '__dict__', '__getattr__']


def rand_key(rng, lo, hi):
    """a field name: mostly free text, one time in five a Python-significant identifier"""
    if rng.random() < 0.2:
        return S(rng.choice(NAME_KEYS))
    return rand_text(rng, lo, hi)


# literal text that LOOKS like an escape: must come back verbatim (it is sent with its '%' encoded as %25, so a
# decoder that unquotes twice, or expands %uXXXX / &#x..; / \\u.... on decoded text, changes it)
ESCAPE_LOOKALIKES = ['%u2019', '%u0041', '%U0041', '%u00e9', '%u', '%u12', '%41', '%2B', '%25', '%2541', '%252B', '%zz',
                     '%%', '%E9', '%c3%a9', '%0A', '%00', '+%2B+', '&#x41;', '&amp;', '\\u0041', '\\x41', '%uD83D%uDE00']


def rand_text(rng, lo, hi):
    out = rand_text0(rng, lo, hi)
    if hi >= 2 and rng.random() < 0.12:
        i = rng.randrange(len(out) + 1)
        out[i:i] = S(rng.choice(ESCAPE_LOOKALIKES))
    return out


def rand_text0(rng, lo, hi):
    n = rng.randrange(lo, hi + 1)
    out = []
    for _ in range(n):
        r = rng.random()
        if r < 0.75:
            out.append(rng.choice(ALPHA))
        elif r < 0.85:
            out.append(rng.randrange(0x20, 0x7F))
        elif r < 0.9:
            out.append(rng.choice(BOUNDARY))
        else:
            c = rng.randrange(0, 0x110000)
            if 0xD800 <= c < 0xE000:
                c = 0xE9
            out.append(c)
    return out


RAW_TOKENS = ['%', '%%', '%zz', '%e9', '%E9', '%4', '%41', '%C3%A9', '%C3', '%A9', '%F0%9F%98%80', '%F0%9F', '%ED%A0%80',
              '%2B', '%26', '%3D', '%3d', '%25', '%20', '%00', '&', '&&', '=', '==', '+', ' ', ';', 'a', 'b', 'ab', 'k',
              'é', '\xff', '€', '\U0001F600', '\ud800', '\udfff', '&=', '=&', '&a=', 'a=1', 'a=2&', '%g', '%G1', '%1G']


def rand_raw(rng):
    n = rng.randrange(0, 9)
    return S(''.join(rng.choice(RAW_TOKENS) for _ in range(n)))


def rand_bytes(rng):
    n = rng.randrange(0, 9)
    out = []
    for _ in range(n):
        r = rng.random()
        if r < 0.35:
            out.extend(chr(rng.choice(BOUNDARY + [0x41, 0xE9, 0x20AC, 0x1F600])).encode('utf-8'))
        elif r < 0.5:
            b = chr(rng.choice([0xE9, 0x800, 0x20AC, 0xFFFF, 0x10000, 0x10FFFF, 0x7FF])).encode('utf-8')
            out.extend(b[:rng.randrange(1, len(b) + 1)])       # truncated sequence
        elif r < 0.8:
            out.append(rng.choice([0x80, 0xBF, 0xC0, 0xC1, 0xC2, 0xDF, 0xE0, 0xED, 0xEF, 0xF0, 0xF4, 0xF5, 0xFF, 0x9F, 0xA0,
                                   0x8F, 0x90, 0x41]))
        else:
            out.append(rng.randrange(256))
    return out


def gen_seq_ops(rng):
    spelling = rng.choice(['plus', 'quote'])
    by_pairs = rng.random() < 0.75
    pool = [rand_key(rng, 1, 3) for _ in range(rng.randrange(1, 4))]

    def some_pairs():
        return [[list(rng.choice(pool)), rand_text(rng, 0, 4)] for _ in range(rng.randrange(0, 4))]

    def new_qs():
        if by_pairs:
            ps = some_pairs()
            return S(pairs_text(ps, spelling).decode('ascii')), ps
        return rand_raw(rng), None

    def new_body():
        if by_pairs:
            ps = some_pairs()
            return list(pairs_text(ps, spelling)), ps
        return [x for x in rand_raw(rng) if x < 256], None
    ops = []
    other_ok = by_pairs and rng.random() < 0.3        # other parsers only where they certainly refuse the body
    if other_ok:
        def some_pairs():                             # noqa: F811  (non-empty bodies: 'k=v' is never valid JSON)
            return [[list(rng.choice(pool)), rand_text(rng, 0, 4)] for _ in range(rng.randrange(1, 4))]
    names = [k for k in pool if T(k) not in DICT_ATTRS and not (T(k).startswith('__') and T(k).endswith('__'))
             and all(c < 0xD800 or c > 0xDFFF for c in k)] or [S('k')]
    for _ in range(rng.randrange(3, 10)):
        r = rng.random()
        if r < 0.1:
            ops.append(['copy', rng.choice(['query', 'forms', 'params'])])
        elif r < 0.2:
            ops.append(['attr', rng.choice(['query', 'forms', 'params']),
                        list(rng.choice(names)) if rng.random() < 0.8 else S('missing_name')])
        elif r < 0.25:
            ops.append(['del_qs'])
        elif r < 0.3:
            ops.append(['set_other'] + rng.choice([['HTTP_X_FOO', '1'], ['x.y', 'z'], ['REQUEST_METHOD', 'PUT'],
                                                   ['HTTP_COOKIE', 'a=1']]))
        elif r < 0.38:
            ct = rng.choice(CT_URLENC[1:] + (CT_OTHER * 2 if other_ok else []))
            ops.append(['set_ctype', S(ct)])
        elif r < 0.5:
            ops.append(['read', rng.choice(['query', 'forms', 'forms', 'params', 'params'])])
        elif r < 0.55:
            ops.append(['read', 'params'])
        elif r < 0.65:
            ops.append(['set_qs'] + list(new_qs()))
        elif r < 0.8:
            ops.append(['set_body'] + list(new_body()) + [rng.randrange(2)])
        else:
            ops.append(['read_body', rng.choice([-1, -1, 0, 1, 2, 3, 5, 10, 1000])])
    ops.append(['read', rng.choice(['query', 'forms', 'params'])])
    ct = rng.choice(CT_URLENC + (CT_OTHER if other_ok else []))
    ro = rng.random() < 0.1
    if by_pairs:
        return dict(kind='seq', spelling=spelling, qpairs=some_pairs(), bpairs=some_pairs(), ops=ops, ct=ct, ro=ro)
    return dict(kind='seq', qs=rand_raw(rng), body=[x for x in rand_raw(rng) if x < 256], ops=ops, ct=ct, ro=ro)


MUTATIONS = ['reverse', 'sort', 'append', 'pop', 'list_clear', 'add_key', 'del_key', 'dict_clear', 'set_value']


def gen_misc(rng):
    k = rng.random()
    if k < 0.4:
        pool = [rand_key(rng, 1, 3) for _ in range(rng.randrange(1, 3))]
        d0 = [[list(rng.choice(pool + [S('z')])), rand_text(rng, 0, 3)] for _ in range(rng.randrange(0, 3))]
        c = dict(kind='modes', mode=rng.choice(['append', 'setitem', 'both']), d0=d0)
        if rng.random() < 0.7:
            c.update(pairs=[[list(rng.choice(pool)), rand_text(rng, 0, 3)] for _ in range(rng.randrange(0, 5))],
                     spelling=rng.choice(['plus', 'quote']))
        else:
            c['qs'] = rand_raw(rng)
        return c
    if k < 0.7:
        def one():
            if rng.random() < 0.8:
                sp = rng.choice(['plus', 'quote'])
                pool = [rand_key(rng, 1, 2) for _ in range(2)]
                mk = lambda: [[list(rng.choice(pool)), rand_text(rng, 0, 3)] for _ in range(rng.randrange(0, 5))]
                return [S(pairs_text(mk(), sp).decode('ascii')), list(pairs_text(mk(), sp))]
            return [[x for x in rand_raw(rng) if not 0xD800 <= x < 0xE000], [x for x in rand_raw(rng) if x < 256]]
        distinct = [one() for _ in range(rng.randrange(1, 4))]
        reqs = [list(rng.choice(distinct)) for _ in range(rng.randrange(2, 6))]     # the same raw text comes back
        mut = rng.sample(MUTATIONS, rng.randrange(0, 4))
        return dict(kind='reuse', reqs=reqs, via=rng.choice(['app', 'request']), mut=mut)
    ops = []
    for _ in range(rng.randrange(2, 9)):
        r = rng.random()
        ops.append(['get'] if r < 0.55 else ['set', rng.randrange(-3, 50)] if r < 0.8 else ['del'])
    return dict(kind='cachein', form=rng.choice(['attr', 'key', 'key_kw']), ro=rng.random() < 0.4,
                fails=rng.random() < 0.25, base=rng.randrange(0, 100), ops=ops)


def gen(rng, n):
    for _ in range(n):
        r = rng.random()
        if r < 0.06:
            yield gen_misc(rng)
        elif r < 0.1:
            if rng.random() < 0.75:
                pool = [rand_key(rng, 1, 3) for _ in range(rng.randrange(1, 3))]
                pairs = [[list(rng.choice(pool)), rand_text(rng, 0, 3)] for _ in range(rng.randrange(0, 4))]
                spelling = rng.choice(['plus', 'quote'])
                text = pairs_text(pairs, spelling)
            else:
                pairs, spelling = None, None
                text = bytes(x for x in rand_raw(rng) if x < 256)
            n = len(text)
            buf = max(1, rng.choice([n - 1, n, n, n + 1, 2 * n + 3, 4, 7, 64]))
            maxb = rng.choice([None, None, None, max(n - 1, 0), n, n + 1])
            chunked = rng.random() < 0.5
            k = rng.random()
            sched = [] if k < 0.25 else [0] * (6 * n + 40) if k < 0.45 else \
                [rng.choice([0, 0, 1, 2, 3, 7, 20]) for _ in range(rng.randrange(1, n + 8))]
            cl = None
            if not chunked and rng.random() < 0.1:
                cl = max(0, n + rng.choice([-2, -1, 1, 3]))
            c = frame(rng, text, buf, maxb, chunked, sched, pairs, spelling, cl=cl,
                      tail=rng.choice([b'', b'', b'&z=9', b'\r\n']))
            k = rng.random()
            if k < 0.08:
                c['cl'] = -1                                   # no Content-Length header
                c['cl_empty'] = rng.random() < 0.5             # ... or an empty one
            elif k < 0.16 and chunked:
                c['cl'] = rng.choice([0, 1, max(n - 1, 0), n, n + 1, 10 * n + 5])   # both framing headers
            if rng.random() < 0.3:
                c['ctype'] = rng.choice(CT_URLENC)
            if rng.random() < 0.5:
                c.update(handler=rng.choice(['gen', 'gen', 'gen_late', 'plain']), view=rng.choice(['forms', 'params']),
                         hook=rng.choice([None, 'full', 'full', 'partial']), touch=rng.choice([None, None, 'full', 'partial']))
            yield c
        elif r < 0.2:
            order = list(rng.choice(ORDERS)) if rng.random() < 0.5 else \
                [rng.choice(['query', 'forms', 'params']) for _ in range(rng.randrange(2, 6))]
            if rng.random() < 0.6:
                yield gen_seq_ops(rng)
            elif rng.random() < 0.75:
                pool = [rand_key(rng, 1, 3) for _ in range(rng.randrange(1, 4))]     # shared keys on both sides
                yield dict(kind='seq', spelling=rng.choice(['plus', 'quote']), order=order,
                           qpairs=[[list(rng.choice(pool)), rand_text(rng, 0, 4)] for _ in range(rng.randrange(0, 5))],
                           bpairs=[[list(rng.choice(pool)), rand_text(rng, 0, 4)] for _ in range(rng.randrange(0, 5))])
            else:
                yield dict(kind='seq', qs=rand_raw(rng), body=[x for x in rand_raw(rng) if x < 256], order=order)
        elif r < 0.5:
            pool = [rand_key(rng, 1, 4) for _ in range(rng.randrange(1, 4))]
            pairs = [[list(rng.choice(pool)), rand_text(rng, 0, 5)] for _ in range(rng.randrange(0, 7))]
            yield dict(kind='rt', pairs=pairs, spelling=rng.choice(['plus', 'quote']),
                       via=rng.choice(['query', 'forms', 'params_q', 'params_f', 'direct']))
        elif r < 0.75:
            via = rng.choice(['query', 'forms', 'direct', 'params'])
            qs = rand_raw(rng)
            c = dict(kind='raw', qs=qs, via=via)
            if via == 'forms':
                c['qs'] = [x for x in qs if x < 256]
                if rng.random() < 0.3:
                    c['qs'] = list(T([x for x in qs if not 0xD800 <= x < 0xE000]).encode('utf-8'))
            if via == 'params':
                c['body'] = [x for x in rand_raw(rng) if x < 256]
            yield c
        else:
            op = rng.choice(['utf8_encode', 'utf8_dec', 'utf8_dec', 'utf8_dec_replace', 'utf8_dec_replace', 'quote',
                             'quote_plus', 'unquote', 'unquote', 'unquote_to_bytes', 'urlencode', 'urlencode_q',
                             'quote_slash'])
            if op == 'utf8_encode':
                arg = rand_text(rng, 0, 6)
                if rng.random() < 0.2:
                    arg.insert(rng.randrange(len(arg) + 1), rng.choice(SURR))
            elif op in ('utf8_dec', 'utf8_dec_replace'):
                arg = rand_bytes(rng)
            elif op in ('quote', 'quote_plus', 'quote_slash'):
                arg = rand_text(rng, 0, 6)
            elif op == 'unquote':
                arg = rand_raw(rng)
            elif op == 'unquote_to_bytes':
                arg = [x for x in rand_raw(rng) if x < 128]
            else:
                arg = [[rand_text(rng, 0, 3), rand_text(rng, 0, 3)] for _ in range(rng.randrange(0, 4))]
            yield dict(kind='prim', op=op, arg=arg)


def thorough():
    import itertools
    yield from big_forms([1000, 1001, 1200, 1500, 2500], ['forms', 'query', 'params_f', 'params_q', 'direct'], 'quote')
    for via in ('forms', 'query', 'params_f'):
        yield big_repeats(700, 400, via)
        yield big_repeats(600, 600, via, 'quote')
    for L in range(0, 6):
        for t in itertools.product('a=&+%4', repeat=L):
            yield dict(kind='raw', qs=S(''.join(t)), via='direct')
            if L <= 4:
                yield dict(kind='raw', qs=S(''.join(t)), via='query')
    # UTF-8 decoders: every byte string of length <= 3 over the boundary bytes of the decoder's
    # case analysis, and length 4 behind a 4-byte lead
    bs = [0x41, 0x7F, 0x80, 0x8F, 0x90, 0x9F, 0xA0, 0xBF, 0xC1, 0xC2, 0xDF, 0xE0, 0xE1, 0xED, 0xEF, 0xF0, 0xF1, 0xF4, 0xF5]
    for L in range(1, 4):
        for t in itertools.product(bs, repeat=L):
            yield dict(kind='prim', op='utf8_dec_replace', arg=list(t))
            yield dict(kind='prim', op='utf8_dec', arg=list(t))
    for lead in (0xF0, 0xF1, 0xF4):
        for t in itertools.product(bs, repeat=3):
            yield dict(kind='prim', op='utf8_dec_replace', arg=[lead] + list(t))


# --------------------------------------------------------------------------
# implementation
# --------------------------------------------------------------------------

def case_strings(case):
    """-> (via, query string (str), body (bytes or None)) actually handed to the implementation"""
    if case['kind'] == 'rt':
        from urllib.parse import urlencode, quote, quote_plus
        pairs = [(T(k), T(v)) for k, v in case['pairs']]
        if case['spelling'] == 'plus':
            enc = urlencode(pairs)
        else:
            enc = urlencode(pairs, safe='', quote_via=quote)
        via = case['via']
        if via == 'forms':
            return 'forms', '', enc.encode('ascii')
        if via == 'params_q':
            return 'params', enc, b''
        if via == 'params_f':
            return 'params', '', enc.encode('ascii')
        return via, enc, None
    via = case['via']
    if via == 'forms':
        return 'forms', '', bytes(case['qs'])
    if via == 'params':
        return 'params', T(case['qs']), bytes(case.get('body') or [])
    return via, T(case['qs']), None


def dump_dict(d):
    items = []
    for k, v in d.items():
        if isinstance(v, str):
            items.append([S(k), ['s', S(v)]])
        elif isinstance(v, list) and all(isinstance(x, str) for x in v):
            items.append([S(k), ['l', [S(x) for x in v]]])
        else:
            items.append([S(k), ['other', repr(type(v))]])
    return items


def run_prim(op, arg):
    import urllib.parse as up
    if op == 'utf8_encode':
        try:
            return dict(v=list(T(arg).encode('utf-8')))
        except UnicodeEncodeError:
            return dict(v=None)
    if op == 'utf8_dec':
        try:
            return dict(v=S(bytes(arg).decode('utf-8')))
        except UnicodeDecodeError:
            return dict(v=None)
    if op == 'utf8_dec_replace':
        return dict(v=S(bytes(arg).decode('utf-8', 'replace')))
    if op == 'quote':
        return dict(v=S(up.quote(T(arg), safe='')))
    if op == 'quote_slash':
        return dict(v=S(up.quote(T(arg))))
    if op == 'quote_plus':
        return dict(v=S(up.quote_plus(T(arg))))
    if op == 'unquote':
        return dict(v=S(up.unquote(T(arg))))
    if op == 'unquote_to_bytes':
        return dict(v=list(up.unquote_to_bytes(T(arg))))
    pairs = [(T(k), T(v)) for k, v in arg]
    if op == 'urlencode':
        return dict(v=S(up.urlencode(pairs)))
    if op == 'urlencode_q':
        return dict(v=S(up.urlencode(pairs, safe='', quote_via=up.quote)))
    raise ValueError(op)


def seq_strings(case):
    """-> (query string, body bytes) of a 'seq' case"""
    if 'qpairs' in case:
        from urllib.parse import urlencode, quote
        kw = {} if case['spelling'] == 'plus' else dict(safe='', quote_via=quote)
        q = urlencode([(T(k), T(v)) for k, v in case['qpairs']], **kw)
        b = urlencode([(T(k), T(v)) for k, v in case['bpairs']], **kw)
        return q, b.encode('ascii')
    return T(case['qs']), bytes(case['body'])


def seq_request(qs, body):
    from ombott import Request
    env = environ('POST', '/', QUERY_STRING=qs)
    env['wsgi.input'] = io.BytesIO(body)
    env['CONTENT_LENGTH'] = str(len(body))
    env['CONTENT_TYPE'] = 'application/x-www-form-urlencoded'
    return Request(env)


def py_selects_urlencoded(ct):
    """harness-side statement of which content types go to the urlencoded parser"""
    low = (ct or '').lower()
    return not (low.startswith('multipart/') or low.startswith('application/json'))


def seq_request2(qs, body, ct, ro=False):
    from ombott import Request
    env = environ('POST', '/', QUERY_STRING=qs)
    env['wsgi.input'] = io.BytesIO(body)
    env['CONTENT_LENGTH'] = str(len(body))
    if ct is not None:
        env['CONTENT_TYPE'] = ct
    if ro:
        env['ombott.request.readonly'] = True
    return Request(env)


def view_dump(rq, a):
    """the view, or 'other' when another body parser refused the urlencoded text"""
    from ombott.request_pkg.errors import RequestError
    from ombott import HTTPError
    try:
        return dump_dict(getattr(rq, a)), getattr(rq, a)
    except (RequestError, HTTPError):
        return 'other', None


def run_seq_ops(case):
    qs, body = seq_strings(case)
    ct, ro = case.get('ct', 'application/x-www-form-urlencoded'), bool(case.get('ro'))
    reads, fresh, raw, notes = [], [], [], []
    refused = set()
    try:
        rq = seq_request2(qs, body, ct, ro)

        def assign(key, value, delete=False):
            """-> True when the assignment took place (KeyError on a read-only environ)"""
            try:
                if delete:
                    del rq[key]
                else:
                    rq[key] = value
            except KeyError:
                notes.append('keyerror' if ro else 'unexpected KeyError for %s' % key)
                return False
            if ro:
                notes.append('assignment to %s accepted on a read-only environ' % key)
            return True
        for o in case['ops']:
            k = o[0]
            if k == 'read_body':
                got = rq.body.read() if o[1] < 0 else rq.body.read(o[1])
                raw.append([list(got), list(body if o[1] < 0 else body[:o[1]])])
            elif k in ('read', 'copy', 'attr'):
                d, obj = view_dump(rq, o[1])
                state = (body, ct)
                if d == 'other':
                    refused.add(state)
                elif state in refused and o[1] != 'query' and not py_selects_urlencoded(ct):
                    # the multipart branch of POST stores an empty forms dict BEFORE it raises, so a second
                    # read of forms after a refused multipart body returns {} (C07/C12 territory, reported);
                    # what C18 observes here is only that the urlencoded parser was not selected
                    d, obj = 'other', None
                if obj is not None and k == 'copy':
                    c = obj.copy()
                    if type(c) is not type(obj) or c is obj:
                        notes.append('copy() returned %s' % type(c).__name__)
                    d = dump_dict(c)
                    c['__added__'] = 'x'                      # the copy is independent of the cached view
                    c.pop(next(iter(c)))
                elif obj is not None and k == 'attr':
                    v = getattr(obj, T(o[2]))
                    d = [] if v is None else dump_dict({T(o[2]): v})
                    try:
                        getattr(obj, '__no_such_dunder__')
                        notes.append('dunder attribute lookup did not raise')
                    except AttributeError:
                        pass
                reads.append([k + ':' + o[1], d])
                f = seq_request2(qs, body, ct)                # a request of its own carrying the current values
                fd, fobj = view_dump(f, o[1])
                if fobj is not None and k == 'attr':
                    v = fobj.get(T(o[2]))
                    fd = [] if v is None else dump_dict({T(o[2]): v})
                fresh.append(fd)
            elif k == 'set_qs':
                if assign('QUERY_STRING', T(o[1])):
                    qs = T(o[1])
                if rq.query_string != qs:
                    notes.append('query_string is %r, the request carries %r' % (rq.query_string, qs))
            elif k == 'del_qs':
                if assign('QUERY_STRING', None, delete=True):
                    qs = ''
                if rq.query_string != qs:
                    notes.append('query_string is %r after del' % rq.query_string)
            elif k == 'set_body':
                new = bytes(o[1])
                if o[3]:
                    ok = assign('CONTENT_LENGTH', str(len(new))) and assign('wsgi.input', io.BytesIO(new))
                else:
                    ok = assign('wsgi.input', io.BytesIO(new)) and assign('CONTENT_LENGTH', str(len(new)))
                if ok:
                    body = new
            elif k == 'set_ctype':
                if assign('CONTENT_TYPE', T(o[1])):
                    ct = T(o[1])
            elif k == 'set_other':
                assign(o[1], o[2])
    except Exception as e:
        return dict(status='raised', exc=type(e).__name__, msg=str(e)[:80])
    return dict(status='ok', reads=reads, fresh=fresh, raw=raw, notes=notes)


def run_seq(case):
    if 'ops' in case:
        return run_seq_ops(case)
    qs, body = seq_strings(case)
    try:
        rq = seq_request(qs, body)
        reads = [[a, dump_dict(getattr(rq, a))] for a in case['order']]      # every read is dumped at once
        fresh = {a: dump_dict(getattr(seq_request(qs, body), a)) for a in ('query', 'forms', 'params')}
    except Exception as e:
        return dict(status='raised', exc=type(e).__name__)
    return dict(status='ok', reads=reads, fresh=fresh)


def run_frame(case):
    from ombott import Ombott
    app = Ombott(dict(max_memfile_size=case['buf'], max_body_size=case['maxb']))
    seen = {}
    mode, view = case.get('handler', 'plain'), case.get('view', 'forms')

    def raw_read(how):
        if how == 'full':
            app.request.body.read()
        elif how == 'partial':
            app.request.body.read(3)

    def parse():
        seen['items'] = dump_dict(getattr(app.request, view))

    def handler():
        raw_read(case.get('touch'))
        if mode == 'plain':
            parse()
            return 'parsed'

        def stream():
            if mode == 'gen_late':
                yield 'head '                    # the response has started before the form is looked at
            parse()
            yield 'parsed'
        return stream()
    if case.get('hook'):
        app.add_hook('before_request', lambda: raw_read(case['hook']))
    app.route('/b', method='POST', callback=handler)
    st = FragStream(case['data'], case['sched'])
    env = environ('POST', '/b', **{'wsgi.input': st})
    ct = case.get('ctype', 'application/x-www-form-urlencoded')
    if ct is not None:
        env['CONTENT_TYPE'] = ct
    if case['chunked']:
        env['HTTP_TRANSFER_ENCODING'] = 'chunked'
    if case['cl'] >= 0:
        env['CONTENT_LENGTH'] = str(case['cl'])
    elif case.get('cl_empty'):
        env['CONTENT_LENGTH'] = ''
    out = {}

    def start_response(status, headers, exc_info=None):
        out['status'] = status
    from ombott import HTTPError
    try:
        b''.join(app(env, start_response))
    except HTTPError as e:
        # a refusal (413 / 400) that happens after the response has started cannot become an error page any
        # more: WSGI lets it reach the server.  Only legitimate when the form was looked at late.
        if mode != 'gen_late' or 'items' in seen:
            return dict(status='escaped_HTTPError')
        return dict(status='http_%d' % e.status_code, pos=st.pos)
    except Exception as e:
        return dict(status='escaped_%s' % type(e).__name__)
    code = int(out['status'].split()[0])
    if env['wsgi.errors'].getvalue():
        return dict(status='traceback_on_wsgi_errors', code=code)
    if code == 200:
        return dict(status='ok', items=seen.get('items'), pos=st.pos)
    return dict(status='http_%d' % code, pos=st.pos)


def project(obs, case):
    if case['kind'] == 'seq' and 'fresh' in obs:
        return dict(status=obs['status'], reads=obs['reads'])
    if case['kind'] == 'cachein' and 'calls' in obs:
        return dict(status=obs['status'], out=obs['out'])
    if case['kind'] == 'reuse' and 'baseline' in obs:
        return dict(status=obs['status'], responses=obs['responses'])
    return obs


# --------------------------------------------------------------------------
# dev-only: line coverage of the anchored functions   (VERIF_COVERAGE=1 ./check C18 --no-coq)
# --------------------------------------------------------------------------

COVER_TARGETS = {
    'ombott/request_pkg/helpers.py': ['parse_qsl', 'FormsDict.copy', 'FormsDict.__getattr__', 'cache_in'],
    'ombott/request_pkg/body_mixin.py': ['BodyMixin.query', 'BodyMixin.POST', 'BodyMixin.forms',
                                         'BodyMixin._get_body_string', 'BodyMixin.content_length',
                                         'BodyMixin.content_type'],
    'ombott/request_pkg/props_mixin.py': ['PropsMixin.params', 'PropsMixin.query_string'],
    'ombott/request_pkg/request.py': ['BaseRequest.__setitem__', 'BaseRequest.__delitem__',
                                      'BaseRequest._on_env_changed'],
}
_COV = None


def _cov_setup():
    """-> dict(codes={code object: (file, qualname)}, lines={(file, line)}, hit=set())"""
    import os
    import ombott
    root = os.path.dirname(os.path.dirname(os.path.abspath(ombott.__file__)))
    cov = dict(codes={}, lines={}, hit=set(), root=root)

    def walk(code, rel, names):
        q = code.co_qualname
        if any(q == n or q.startswith(n + '.<locals>.') for n in names):
            cov['codes'][(code.co_filename, code.co_firstlineno, code.co_name)] = (rel, q)
            for _, _, ln in code.co_lines():
                if ln is not None and ln != code.co_firstlineno:
                    cov['lines'][(rel, ln)] = q
        for c in code.co_consts:
            if hasattr(c, 'co_code'):
                walk(c, rel, names)
    for rel, names in COVER_TARGETS.items():
        path = os.path.join(root, rel)
        with open(path) as f:
            walk(compile(f.read(), path, 'exec'), rel, names)
    return cov


def _cov_tracer(frame, event, arg):
    code = frame.f_code
    k = (code.co_filename, code.co_firstlineno, code.co_name)
    info = _COV['codes'].get(k)
    if info is None:
        return None
    rel = info[0]

    def local(fr, ev, a):
        if ev == 'line':
            _COV['hit'].add((rel, fr.f_lineno))
        return local
    return local


def _cov_report():
    import json
    import os
    import sys
    lines, hit = _COV['lines'], _COV['hit'] & set(_COV['lines'])
    missed = sorted(set(lines) - hit)
    out = dict(total=len(lines), reached=len(hit), missed=[[f, ln, lines[(f, ln)]] for f, ln in missed])
    path = os.environ.get('VERIF_COVERAGE_OUT', '/tmp/C18_coverage.json')
    with open(path, 'w') as f:
        json.dump(out, f, indent=1)
    print('C18 coverage of anchored functions: %d/%d lines reached; unreached: %s (details: %s)'
          % (len(hit), len(lines), ['%s:%d' % (f.split('/')[-1], ln) for f, ln in missed], path), file=sys.stderr)


def run_impl(case):
    import os
    if os.environ.get('VERIF_COVERAGE') == '1':
        global _COV
        import sys
        if _COV is None:
            import atexit
            _COV = _cov_setup()
            atexit.register(_cov_report)
        sys.settrace(_cov_tracer)
        try:
            return run_impl_inner(case)
        finally:
            sys.settrace(None)
    return run_impl_inner(case)


def modes_qs(case):
    if 'pairs' in case:
        return pairs_text(case['pairs'], case['spelling']).decode('ascii')
    return T(case['qs'])


def run_modes(case):
    from ombott.request_pkg.helpers import parse_qsl, FormsDict
    qs = modes_qs(case)
    d0 = [(T(k), T(v)) for k, v in case['d0']]
    try:
        if case['mode'] == 'append':
            acc = list(d0)
            ret = parse_qsl(qs, append=acc.append)
            out = dict(status='ok', pairs=[[S(k), S(v)] for k, v in acc])
        else:
            d = FormsDict(d0)
            acc = []
            kw = dict(append=acc.append) if case['mode'] == 'both' else {}
            ret = parse_qsl(qs, setitem=d.__setitem__, **kw)
            out = dict(status='ok', items=dump_dict(d))
            if acc:
                out['status'] = 'append called although setitem was given'
        if ret is not None:
            out['status'] = 'returned %s' % type(ret).__name__
        return out
    except Exception as e:
        return dict(status='raised', exc=type(e).__name__)


def mutate_in_place(d, mut):
    """what a handler may do with its own request data"""
    for m in mut:
        lists = [v for v in d.values() if isinstance(v, list)]
        if m == 'reverse':
            [v.reverse() for v in lists]
        elif m == 'sort':
            [v.sort() for v in lists]
        elif m == 'append':
            [v.append('appended') for v in lists]
        elif m == 'pop':
            [v.pop() for v in lists if v]
        elif m == 'list_clear':
            [v.clear() for v in lists]
        elif m == 'add_key':
            d['added by handler'] = 'x'
        elif m == 'del_key':
            if d:
                del d[next(iter(d))]
        elif m == 'set_value':
            for k in list(d):
                d[k] = 'overwritten'
        elif m == 'dict_clear':
            d.clear()


def reuse_env(q, b, path='/b'):
    env = environ('POST', path, QUERY_STRING=T(q))
    env['wsgi.input'] = io.BytesIO(bytes(b))
    env['CONTENT_LENGTH'] = str(len(b))
    env['CONTENT_TYPE'] = 'application/x-www-form-urlencoded'
    return env


def run_reuse(case):
    from ombott import Ombott, Request
    mut = case.get('mut') or []

    def observe(rq, out):
        views = [rq.query, rq.forms, rq.params]
        out.append([dump_dict(v) for v in views])             # dumped before anything is changed
        for v in views:
            mutate_in_place(v, mut)
    # baseline first: every distinct request decoded once, nothing mutated yet in this process
    baseline = {}
    for q, b in case['reqs']:
        key = json_key(q, b)
        if key not in baseline:
            rq = Request(reuse_env(q, b))
            baseline[key] = [dump_dict(rq.query), dump_dict(rq.forms), dump_dict(rq.params)]
    seen = []
    if case.get('via', 'app') == 'request':
        for q, b in case['reqs']:
            observe(Request(reuse_env(q, b)), seen)                # another Request object each time
    else:
        app = Ombott()

        def handler():
            observe(app.request, seen)
            return 'ok'
        app.route('/b', method='POST', callback=handler)
        codes = []
        for q, b in case['reqs']:
            out = {}
            b''.join(app(reuse_env(q, b), lambda status, headers, exc_info=None: out.update(status=status)))
            codes.append(int(out['status'].split()[0]))
        if codes != [200] * len(codes):
            return dict(status='codes %s' % codes)
    return dict(status='ok', responses=seen, baseline=[baseline[json_key(q, b)] for q, b in case['reqs']])


def json_key(q, b):
    return (tuple(q), tuple(b))


def run_cachein(case):
    from ombott.request_pkg.helpers import cache_in
    from ombott.errors import PropertyGetterError
    calls = [0]

    def getter(self):
        calls[0] += 1
        if case['fails']:
            raise AttributeError('getter failed')
        return case['base'] + calls[0] - 1
    spec = {'attr': ('_slot', None), 'key': ('store[ k ]', None), 'key_kw': ('store', 'k')}[case['form']]
    prop = cache_in(spec[0], key=spec[1], read_only=case['ro'])(getter)

    class Toy:
        def __init__(self):
            self.store = {}
    Toy.p = prop
    obj = Toy()
    out = []
    for o in case['ops']:
        try:
            if o[0] == 'get':
                out.append([0, obj.p])
            elif o[0] == 'set':
                obj.p = o[1]
                out.append([1])
            else:
                del obj.p
                out.append([1])
        except PropertyGetterError:
            out.append([4])
        except AttributeError as e:
            out.append([2] if 'Read-Only' in str(e) else [3])
        except KeyError:
            out.append([3])
    return dict(status='ok', out=out, calls=calls[0])


def run_impl_inner(case):
    if case['kind'] == 'prim':
        return run_prim(case['op'], case['arg'])
    if case['kind'] == 'modes':
        return run_modes(case)
    if case['kind'] == 'reuse':
        return run_reuse(case)
    if case['kind'] == 'cachein':
        return run_cachein(case)
    if case['kind'] == 'seq':
        return run_seq(case)
    if case['kind'] == 'frame':
        return run_frame(case)
    from ombott import Request
    from ombott.request_pkg.helpers import parse_qsl
    via, qs, body = case_strings(case)
    try:
        if via == 'direct':
            res = parse_qsl(qs)
            return dict(status='ok', pairs=[[S(k), S(v)] for k, v in res])
        env = environ('GET' if body is None else 'POST', '/', QUERY_STRING=qs)
        if body is not None:
            env['wsgi.input'] = io.BytesIO(body)
            env['CONTENT_LENGTH'] = str(len(body))
            env['CONTENT_TYPE'] = 'application/x-www-form-urlencoded'
        rq = Request(env)
        d = rq.query if via == 'query' else rq.forms if via == 'forms' else rq.params
        return dict(status='ok', items=dump_dict(d))
    except Exception as e:      # the property says: never raises
        return dict(status='raised', exc=type(e).__name__)


# --------------------------------------------------------------------------
# model side
# --------------------------------------------------------------------------

def encode(case):
    if case['kind'] == 'prim':
        op, arg = case['op'], case['arg']
        if op in ('urlencode', 'urlencode_q'):
            return [PRIM_CODE[op]] + enc_list(arg, lambda kv: enc_str(kv[0]) + enc_str(kv[1]))
        return [PRIM_CODE[op]] + enc_str(arg)
    if case['kind'] == 'modes':
        d0 = case['d0']
        if case['mode'] != 'append':          # the target is a dict built from d0: one entry per key, last value
            d0 = [[S(k), S(v)] for k, v in dict((T(k), T(v)) for k, v in d0).items()]
        return ([7, 0 if case['mode'] == 'append' else 1] + enc_list(d0, lambda kv: enc_str(kv[0]) + enc_str(kv[1]))
                + enc_str(S(modes_qs(case))))
    if case['kind'] == 'reuse':
        return [8] + enc_list(case['reqs'], lambda qb: enc_str(qb[0]) + enc_str(qb[1]))
    if case['kind'] == 'cachein':
        return ([9, 1 if case['ro'] else 0, 1 if case['fails'] else 0, case['base']]
                + enc_list(case['ops'], lambda o: [0] if o[0] == 'get' else [1, o[1]] if o[0] == 'set' else [2]))
    if case['kind'] == 'frame':
        return ([5, case['cl'], 1 if case['chunked'] else 0, case['buf'], 0 if case['maxb'] is None else 1,
                 case['maxb'] or 0] + enc_str(case['data']) + enc_list(case['sched'], lambda k: [k]))
    if case['kind'] == 'seq' and 'ops' in case:
        qs, body = seq_strings(case)

        def enc_op(o):
            k = o[0]
            if k == 'read':
                return [0, KIND_CODE[o[1]]]
            if k == 'read_body':
                return [3, o[1]]
            if k == 'copy':
                return [4, KIND_CODE[o[1]]]
            if k == 'attr':
                return [5, KIND_CODE[o[1]]] + enc_str(o[2])
            if k == 'del_qs':
                return [6]
            if k == 'set_ctype':
                return [7] + enc_str(o[1])
            if k == 'set_other':
                return [8]
            return [1 if k == 'set_qs' else 2] + enc_str(o[1])
        ct = case.get('ct', 'application/x-www-form-urlencoded')
        return ([6, 1 if case.get('ro') else 0] + enc_str(S(qs)) + enc_str(body) + enc_str(S(ct or ''))
                + enc_list(case['ops'], enc_op))
    if case['kind'] == 'seq':
        qs, body = seq_strings(case)
        return [4] + enc_str(S(qs)) + enc_str(body) + enc_list(case['order'], lambda a: [KIND_CODE[a]])
    via, qs, body = case_strings(case)
    if via == 'forms':
        return [1] + enc_str(body)
    if via == 'params':
        return [2] + enc_str(S(qs)) + enc_str(body)
    return [KIND_CODE[via]] + enc_str(S(qs))


def decode(out, case):
    r = Reader(out)
    if case['kind'] == 'prim':
        if case['op'] in ('utf8_encode', 'utf8_dec'):
            return dict(v=r.str() if r.bool() else None)
        return dict(v=r.str())
    def item(q):
        k = q.str()
        if q.int() == 0:
            return [k, ['s', q.str()]]
        return [k, ['l', q.list(lambda z: z.str())]]
    if case['kind'] == 'modes':
        tag = r.int()
        if tag != 0:
            return dict(status='model_tag_%d' % tag)
        if case['mode'] == 'append':
            return dict(status='ok', pairs=r.list(lambda q: [q.str(), q.str()]))
        return dict(status='ok', items=r.list(item))
    if case['kind'] == 'reuse':
        def one_q(q):
            tag = q.int()
            return q.list(item) if tag == 0 else 'model_tag_%d' % tag
        return dict(status='ok', responses=r.list(lambda q: q.list(one_q)))
    if case['kind'] == 'cachein':
        def cout(q):
            tag = q.int()
            return [0, q.int()] if tag == 0 else [tag]
        return dict(status='ok', out=r.list(cout))
    if case['kind'] == 'frame':
        tag = r.int()
        if tag == 0:
            return dict(status='ok', items=r.list(item), pos=r.int())
        if tag == 1:
            return dict(status='http_%d' % r.int(), pos=r.int())
        return dict(status='model_tag_%d' % tag)
    if case['kind'] == 'seq':
        def one(q):
            tag = q.int()
            return q.list(item) if tag == 0 else 'other' if tag == 5 else 'model_tag_%d' % tag
        names = [o[0] + ':' + o[1] for o in case['ops'] if o[0] in ('read', 'copy', 'attr')] if 'ops' in case \
            else case['order']
        return dict(status='ok', reads=[[a, d] for a, d in zip(names, r.list(one))])
    tag = r.int()
    if tag != 0:
        return dict(status='model_tag_%d' % tag)
    via = case_strings(case)[0]
    if via == 'direct':
        return dict(status='ok', pairs=r.list(lambda q: [q.str(), q.str()]))
    return dict(status='ok', items=r.list(item))


# --------------------------------------------------------------------------
# oracle: the property stated on the implementation, sharing nothing with the model
# --------------------------------------------------------------------------

def group(pairs):
    order, vals = [], {}
    for k, v in pairs:
        if k not in vals:
            order.append(k)
            vals[k] = []
        vals[k].append(v)
    return [[S(k), ['s', S(vals[k][0])] if len(vals[k]) == 1 else ['l', [S(x) for x in vals[k]]]] for k in order]


def oracle(case, obs):
    if case['kind'] == 'prim':
        op, arg = case['op'], case['arg']
        v = obs.get('v')
        if 'v' not in obs:
            return 'primitive %s escaped: %s' % (op, obs)
        if op == 'utf8_encode' and v is not None and S(bytes(v).decode('utf-8')) != arg:
            return 'utf-8 encode/decode is not the identity'
        if op in ('quote', 'quote_plus'):
            import urllib.parse as up
            back = up.unquote(T(v).replace('+', ' ')) if op == 'quote_plus' else up.unquote(T(v))
            if S(back) != arg:
                return 'unquote(%s(s)) != s' % op
        return None
    if case['kind'] == 'frame':
        return oracle_frame(case, obs)
    if case['kind'] in ('modes', 'reuse', 'cachein'):
        return oracle_misc(case, obs)
    if obs.get('status') != 'ok':
        return 'parsing raised %s' % obs.get('exc', obs)
    if case['kind'] == 'seq':
        return oracle_seq(case, obs)
    if case['kind'] == 'raw':
        for it in obs.get('items', []):
            if it[1][0] not in ('s', 'l') or (it[1][0] == 'l' and len(it[1][1]) < 2):
                return 'value of key %r is neither a str nor a list of >= 2 str' % T(it[0])
        return None
    pairs = [(T(k), T(v)) for k, v in case['pairs']]
    if any(k == '' for k, _ in pairs):
        return None                       # outside the property: keys are non-empty
    if case['via'] == 'direct':
        want = [[S(k), S(v)] for k, v in pairs]
        if obs['pairs'] != want:
            return 'parse_qsl(urlencode(pairs)) != pairs: got %d pairs for %d sent' % (len(obs['pairs']), len(want))
        return None
    want = group(pairs)
    if obs['items'] != want:
        return ('decoded mapping differs from what was sent: got %s, expected %s'
                % (short(obs['items']), short(want)))
    return None


def merge(qitems, fitems):
    """params: the query mapping, form values replacing query values of the same key, new form keys behind"""
    out = [list(it) for it in qitems]
    pos = {tuple(it[0]): i for i, it in enumerate(out)}
    for k, v in fitems:
        if tuple(k) in pos:
            out[pos[tuple(k)]] = [k, v]
        else:
            pos[tuple(k)] = len(out)
            out.append([k, v])
    return out


def chunk_lines_fit(data, buf):
    """is data a complete chunked body whose size lines (incl. CRLF) fit the buffer"""
    d, i = bytes(data), 0
    while True:
        j = d.find(b'\r\n', i)
        if j < 0 or j + 2 - i > buf:
            return False
        try:
            n = int(d[i:j].split(b';')[0], 16)
        except ValueError:
            return False
        if n == 0:
            return True
        if d[j + 2 + n:j + 4 + n] != b'\r\n':
            return False
        i = j + 4 + n


def oracle_misc(case, obs):
    if obs.get('status') != 'ok':
        return '%s: %s' % (case['kind'], obs)
    if case['kind'] == 'modes':
        if 'pairs' not in case or not all(k for k, _ in case['pairs']):
            return None
        ps = [(T(k), T(v)) for k, v in case['pairs']]
        d0 = [(T(k), T(v)) for k, v in case['d0']]
        if case['mode'] == 'append':
            want = [[S(k), S(v)] for k, v in d0 + ps]
            return None if obs['pairs'] == want else 'parse_qsl(append=) delivered %d pairs for %d' % (len(obs['pairs']), len(want))
        first = {}
        for k, v in d0:
            first[k] = v
        want = merge([[S(k), ['s', S(v)]] for k, v in first.items()], group(ps))
        return None if obs['items'] == want else 'parse_qsl(setitem=) into %s gave %s, expected %s' % (d0, short(obs['items']), short(want))
    if case['kind'] == 'reuse':
        for i in range(len(case['reqs'])):
            want = obs['baseline'][i]          # decoded before any handler touched anything in this process
            if obs['responses'][i] != want:
                return ('request #%d (%s, after handlers did %s to their own request data) decoded %s; '
                        'the text it carries decodes to %s' % (i + 1, case.get('via', 'app'), case.get('mut') or 'nothing',
                                                              [short(x) for x in obs['responses'][i]], [short(x) for x in want]))
        return None
    # cache_in: replay the documented behaviour independently
    cached, calls, want = None, 0, []
    for o in case['ops']:
        if o[0] == 'get':
            if cached is None:
                calls += 1
                if case['fails']:
                    want.append([4])
                    continue
                cached = [case['base'] + calls - 1]
            want.append([0, cached[0]])
        elif case['ro']:
            want.append([2])
        elif o[0] == 'set':
            cached = [o[1]]
            want.append([1])
        elif cached is None:
            want.append([3])
        else:
            cached = None
            want.append([1])
    if obs['out'] != want or obs['calls'] != calls:
        return 'cache_in(%s, read_only=%s): %s with %d getter calls, expected %s with %d' % (
            case['form'], case['ro'], obs['out'], obs['calls'], want, calls)
    return None


def oracle_frame(case, obs):
    st = obs.get('status')
    if st not in ('ok', 'http_413', 'http_400'):
        return 'urlencoded body through the framing gave %s' % obs
    text = bytes(case['text'])
    n, buf, maxb = len(text), case['buf'], case['maxb']
    legal = chunk_lines_fit(case['data'], buf) if case['chunked'] else case['cl'] == n
    if not legal:
        if not case['chunked'] and case['cl'] < 0 and st == 'ok' and obs['items'] != []:
            return 'no Content-Length and not chunked: no body may be read, forms = %s' % short(obs['items'])
        return None                       # truncated / mis-declared framing: C05 / C04 territory
    if n > buf or (maxb is not None and n > maxb):
        if st != 'http_413':
            return 'body of %d bytes with max_memfile_size=%d max_body_size=%s answered %s, expected 413' % (n, buf, maxb, st)
        return None
    if st != 'ok':
        return 'body of %d bytes within the limits (max_memfile_size=%d max_body_size=%s) answered %s' % (n, buf, maxb, st)
    if case.get('pairs') is not None and all(k for k, _ in case['pairs']):
        want = group([(T(k), T(v)) for k, v in case['pairs']])
    else:                                 # raw text: what the same bytes give unfragmented, Content-Length, no limits
        from ombott import Request
        env = environ('POST', '/', body=text, CONTENT_TYPE='application/x-www-form-urlencoded')
        env['CONTENT_LENGTH'] = str(n)
        want = dump_dict(Request(env).forms)
    if obs['items'] != want:
        return ('forms through %s framing (sched %s, buf %d) = %s, expected %s'
                % ('chunked' if case['chunked'] else 'Content-Length', case['sched'][:6], buf, short(obs['items']), short(want)))
    return None


def oracle_seq_ops(case, obs):
    qp, bp = case.get('qpairs'), case.get('bpairs')       # the pairs the request carries at this moment (None: raw)
    ct, ro = case.get('ct', 'application/x-www-form-urlencoded'), bool(case.get('ro'))
    n = 0
    history = []
    for got, want in obs.get('raw', []):
        if got != want:
            return 'request.body.read returned %d bytes, expected %d (the body the request carries)' % (len(got), len(want))
    for note in obs.get('notes', []):
        if note != 'keyerror':
            return note
    setters = sum(1 for o in case['ops'] if o[0] in ('set_qs', 'del_qs', 'set_body', 'set_ctype', 'set_other'))
    if ro and obs.get('notes', []).count('keyerror') != setters:
        return 'read-only environ: %d of %d assignments raised KeyError' % (obs['notes'].count('keyerror'), setters)
    for o in case['ops']:
        k = o[0]
        if k == 'read_body':
            history.append('body.read(%d)' % o[1])
        elif k in ('set_qs', 'del_qs', 'set_body', 'set_ctype', 'set_other'):
            history.append(k)
            if ro:
                continue
            if k == 'set_qs':
                qp = o[2]
            elif k == 'del_qs':
                qp = [] if qp is not None else None
            elif k == 'set_body':
                bp = o[2]
            elif k == 'set_ctype':
                ct = T(o[1])
        else:
            a = o[1]
            got = obs['reads'][n][1]
            want = obs['fresh'][n]
            if qp is not None and bp is not None:
                q = [(T(x), T(y)) for x, y in qp]
                b = [(T(x), T(y)) for x, y in bp]
                if all(x for x, _ in q + b) and (a == 'query' or ct in CT_URLENC):
                    want = group(q) if a == 'query' else group(b) if a == 'forms' else merge(group(q), group(b))
                    if k == 'attr':
                        want = [it for it in want if it[0] == o[2]]
                elif a != 'query' and ct in CT_OTHER:
                    want = 'other'            # multipart / JSON content types never reach the urlencoded parser
            if got != want:
                return ('%s #%d (%s) after %s returned %s, expected %s: the read does not decode what the '
                        'request carries at that moment' % (k, n + 1, a, '/'.join(history) or 'nothing',
                                                            short(got) if got != 'other' else got,
                                                            short(want) if want != 'other' else want))
            n += 1
            history.append(a)
    return None


def oracle_seq(case, obs):
    if 'ops' in case:
        return oracle_seq_ops(case, obs)
    want = dict(obs['fresh'])          # what each accessor returns on a request of its own
    if 'qpairs' in case:
        qp = [(T(k), T(v)) for k, v in case['qpairs']]
        bp = [(T(k), T(v)) for k, v in case['bpairs']]
        if all(k for k, _ in qp + bp):
            want = dict(query=group(qp), forms=group(bp))
            want['params'] = merge(want['query'], want['forms'])
    for n, (a, got) in enumerate(obs['reads']):
        if got != want[a]:
            return ('read #%d (%s) after %s returned %s, expected %s: a read depends on what was read before or '
                    'differs from what was sent' % (n + 1, a, '/'.join(x for x, _ in obs['reads'][:n]) or 'nothing',
                                                    short(got), short(want[a])))
    return None


def short(items):
    return repr([(T(k), T(v[1]) if v[0] == 's' else [T(x) for x in v[1]] if v[0] == 'l' else v) for k, v in items])[:300]


def nontrivial(case, obs):
    if case['kind'] == 'rt':
        keys = [tuple(k) for k, _ in case['pairs']]
        special = any(not (48 <= c <= 57 or 65 <= c <= 90 or 97 <= c <= 122) for k, v in case['pairs'] for c in k + v)
        return len(keys) >= 2 and (len(set(keys)) < len(keys) or special)
    if case['kind'] == 'raw':
        q = case['qs'] + (case.get('body') or [])
        return 37 in q or sum(1 for c in q if c in (38, 61)) >= 2
    if case['kind'] == 'frame':
        return len(case['text']) >= 2 and (bool(case['sched']) or case['chunked'])
    if case['kind'] == 'modes':
        return bool(case['d0']) and len(modes_qs(case)) > 2
    if case['kind'] == 'reuse':
        keys = [json_key(q, b) for q, b in case['reqs']]
        return len(keys) > len(set(keys)) and bool(case.get('mut'))
    if case['kind'] == 'cachein':
        return len(case['ops']) >= 3
    if case['kind'] == 'seq' and 'ops' in case:
        kinds = ['read' if o[0] in ('read', 'copy', 'attr') else o[0] for o in case['ops']]
        first_set = min([i for i, k in enumerate(kinds) if k != 'read'], default=None)
        return first_set is not None and 'read' in kinds[first_set:] and \
            ('read' in kinds[:first_set] or kinds[first_set] == 'read_body')
    if case['kind'] == 'seq':
        o = case['order']
        later = any(a in ('query', 'forms') and 'params' in o[:i] for i, a in enumerate(o))
        both = (case.get('qpairs') and case.get('bpairs')) or (case.get('qs') and case.get('body'))
        return bool(later and both)
    a = case['arg']
    flat = a if (not a or isinstance(a[0], int)) else [c for kv in a for s in kv for c in s]
    return any(c >= 128 or c == 37 for c in flat)


def key(case):
    import json
    return json.dumps(case, sort_keys=True)


def classify(case, obs):
    if case['kind'] == 'prim':
        return 'prim/%s/%s' % (case['op'], 'none' if obs.get('v', 0) is None else 'value')
    if case['kind'] == 'rt':
        keys = [tuple(k) for k, _ in case['pairs']]
        return 'rt/%s/%s/%s' % (case['via'], case['spelling'],
                                'repeated' if len(set(keys)) < len(keys) else 'distinct' if keys else 'empty')
    if case['kind'] in ('modes', 'reuse', 'cachein'):
        if case['kind'] == 'reuse':
            keys = [json_key(q, b) for q, b in case['reqs']]
            return 'reuse/%s/%s/%s/%s' % (case.get('via', 'app'), 'same-text-again' if len(keys) > len(set(keys)) else 'distinct',
                                          'mutating' if case.get('mut') else 'read-only', obs.get('status'))
        return '%s/%s/%s' % (case['kind'], case.get('mode') or case.get('form'), obs.get('status'))
    if case['kind'] == 'frame':
        n = len(case['text'])
        hdr = ('no-cl' if case['cl'] < 0 and not case['chunked'] else 'chunked+cl' if case['chunked'] and case['cl'] >= 0
               else 'chunked' if case['chunked'] else 'cl')
        if case.get('handler', 'plain') != 'plain' or case.get('hook') or case.get('touch'):
            hdr += '/%s%s%s' % (case.get('handler', 'plain'), '+hook' if case.get('hook') else '', '+touch' if case.get('touch') else '')
        return 'frame/%s%s/%s/%s/%s' % (hdr, '/ctype' if 'ctype' in case else '', 'pairs' if case.get('pairs') is not None else 'raw',
                                        'n<=buf' if n <= case['buf'] else 'n>buf', obs.get('status'))
        return 'frame/%s/%s/%s/%s' % ('chunked' if case['chunked'] else 'cl', 'pairs' if case.get('pairs') is not None else 'raw',
                                      'n<=buf' if n <= case['buf'] else 'n>buf', obs.get('status'))
    if case['kind'] == 'seq':
        shared = 'n/a'
        if 'qpairs' in case:
            shared = 'shared-key' if {tuple(k) for k, _ in case['qpairs']} & {tuple(k) for k, _ in case['bpairs']} \
                else 'disjoint'
        if 'ops' in case:
            ks = {o[0] for o in case['ops']}
            ct = case.get('ct', 'application/x-www-form-urlencoded')
            return 'seq-ops/%s/%s%s/%s/%s' % ('pairs' if 'qpairs' in case else 'raw',
                                              'ct-missing' if ct is None else 'ct-other' if ct in CT_OTHER else 'ct-urlenc',
                                              '/read-only' if case.get('ro') else '',
                                              '+'.join(sorted(ks - {'read'})) or 'reads-only', obs.get('status'))
        return 'seq/%s/%s/%s' % ('pairs' if 'qpairs' in case else 'raw', shared, obs.get('status'))
    q = case['qs']
    return 'raw/%s/%s/%s' % (case['via'], 'pct' if 37 in q else 'nopct', obs.get('status'))


def shrink(case):
    if case['kind'] == 'rt':
        ps = case['pairs']
        for i in range(len(ps)):
            yield dict(case, pairs=ps[:i] + ps[i + 1:])
        for i, (k, v) in enumerate(ps):
            for j in range(len(k)):
                if len(k) > 1:
                    yield dict(case, pairs=ps[:i] + [[k[:j] + k[j + 1:], v]] + ps[i + 1:])
            for j in range(len(v)):
                yield dict(case, pairs=ps[:i] + [[k, v[:j] + v[j + 1:]]] + ps[i + 1:])
        if case['via'] != 'direct':
            yield dict(case, via='direct')
    elif case['kind'] == 'frame':
        s = case['sched']
        for i in range(len(s)):
            yield dict(case, sched=s[:i] + s[i + 1:])
        if s:
            yield dict(case, sched=[])
    elif case['kind'] == 'seq':
        o = case.get('ops') or case['order']
        f = 'ops' if 'ops' in case else 'order'
        for i in range(len(o)):
            if len(o) > 1:
                yield dict(case, **{f: o[:i] + o[i + 1:]})
        if 'ops' in case and 'qpairs' in case:
            for i, op in enumerate(o):
                if op[0] in ('set_qs', 'set_body'):
                    for j in range(len(op[2])):
                        ps = op[2][:j] + op[2][j + 1:]
                        txt = pairs_text(ps, case['spelling'])
                        new = [op[0], S(txt.decode('ascii')) if op[0] == 'set_qs' else list(txt), ps] + op[3:]
                        yield dict(case, ops=o[:i] + [new] + o[i + 1:])
        for f in ('qpairs', 'bpairs', 'qs', 'body'):
            x = case.get(f)
            for i in range(len(x or [])):
                yield dict(case, **{f: x[:i] + x[i + 1:]})
    elif case['kind'] == 'raw':
        q = case['qs']
        for i in range(len(q)):
            yield dict(case, qs=q[:i] + q[i + 1:])
        b = case.get('body')
        if b:
            for i in range(len(b)):
                yield dict(case, body=b[:i] + b[i + 1:])
    elif case['kind'] in ('modes', 'reuse', 'cachein'):
        for f in ('d0', 'pairs', 'qs', 'reqs', 'ops'):
            x = case.get(f)
            for i in range(len(x or [])):
                yield dict(case, **{f: x[:i] + x[i + 1:]})
    else:
        a = case['arg']
        for i in range(len(a)):
            yield dict(case, arg=a[:i] + a[i + 1:])


def pred_body_replaced_after_read(case, what, m):
    """F34: a body of another length is installed after forms/params were read (content_length is cached at
    the first such read) and forms/params are read again"""
    if case.get('kind') != 'seq' or 'ops' not in case:
        return False
    cur = len(seq_strings(case)[1])
    cached = None
    stale = False
    for o in case['ops']:
        if o[0] == 'set_body':
            cur = len(o[1])
        elif o[0] == 'read' and o[1] in ('forms', 'params'):
            if cached is None:
                cached = cur
            elif cur != cached:
                stale = True
    return stale


def pred_chunked_with_content_length(case, what, m):
    """F35: a chunked request that also carries a Content-Length header"""
    return case.get('kind') == 'frame' and bool(case.get('chunked')) and case.get('cl', -1) >= 0


# Round-4 audit: everything public in the anchored code that can influence what C18 observes.
API_SURFACE = [
    ('helpers.parse_qsl(qs)  [container mode, return value]', 'covered by rt/raw via=direct'),
    ('helpers.parse_qsl(qs, append=)', 'covered by modes/append (non-empty target list; returns None)'),
    ('helpers.parse_qsl(qs, setitem=)', 'covered by rt/raw/seq through Request.query/forms and by modes/setitem '
                                        '(non-empty target dict, keys already present)'),
    ('helpers.parse_qsl(qs, append=, setitem=) both', 'covered by modes/both (setitem wins, append never called)'),
    ('helpers.parse_qsl(qs) with qs not a str (bytes/None)', 'excluded: callers pass str only (QUERY_STRING, touni(...))'),
    ('helpers.FormsDict item access / iteration order', 'covered by every query/forms/params observation (insertion order compared)'),
    ('helpers.FormsDict.copy', 'covered by seq op copy (type, identity, independence of the cached view)'),
    ('helpers.FormsDict.__getattr__', 'covered by seq op attr (present key, list value, missing name -> None, dunder -> '
                                      'AttributeError); names that are dict attributes are excluded: the dict method wins by design'),
    ('helpers.cache_in(attr) attribute storage', 'covered by cachein form=attr'),
    ('helpers.cache_in("store[ key ]") / cache_in(attr, key=)', 'covered by cachein form=key / key_kw and by every Request property'),
    ('helpers.cache_in read_only=True/False, fset, fdel', 'covered by cachein (set/del accepted, refused, nothing cached)'),
    ('helpers.cache_in getter raising AttributeError -> PropertyGetterError', 'covered by cachein fails=True'),
    ('BodyMixin.query / GET', 'covered by rt/raw via=query, seq, reuse (GET is the same property object)'),
    ('BodyMixin.forms / POST, urlencoded branch', 'covered by rt/raw via=forms, seq, frame, reuse'),
    ('BodyMixin.POST JSON branch / multipart branch', 'selection covered by seq op set_ctype + CT_OTHER; the parsers '
                                                      'themselves excluded: C07 / C12'),
    ('BodyMixin.content_type / ctype (case, parameters, missing)', 'covered by seq ct/set_ctype and frame ctype over CT_URLENC'),
    ('BodyMixin.content_length (missing, empty, numeric)', 'covered by frame cl=-1 / cl_empty / declared length != size; '
                                                           'non-numeric excluded: int() failure is C12'),
    ('BodyMixin.chunked + Content-Length together', 'covered by frame chunked+cl (finding F35)'),
    ('BodyMixin._get_body_string (rewind, caps, 413)', 'covered by frame (thresholds around the size) and seq op read_body'),
    ('BodyMixin.body / _body', 'covered by seq op read_body, frame; spooling to disk excluded: C13'),
    ('PropsMixin.params', 'covered by rt via=params_*, seq, reuse'),
    ('PropsMixin.query_string', 'covered by seq ops set_qs/del_qs (checked after every update)'),
    ('BaseRequest.__setitem__ (QUERY_STRING, wsgi.input, CONTENT_LENGTH, CONTENT_TYPE, HTTP_*, other keys, unchanged value)',
     'covered by seq ops set_qs/set_body/set_ctype/set_other'),
    ('BaseRequest.__setitem__ on environ["ombott.request.readonly"]', 'covered by seq ro=True (KeyError, nothing changes)'),
    ('BaseRequest.__delitem__', 'covered by seq op del_qs'),
    ('BaseRequest._on_env_changed', 'covered: every branch reached (coverage switch)'),
    ('BaseRequest.copy()', 'excluded: shallow environ copy shares the cached FormsDicts by design (documented); '
                           'not an urlencoding question'),
    ('BaseRequest._forms_factory override', 'excluded: customisation point; the property is about FormsDict'),
    ('config max_memfile_size / max_body_size (Ombott(dict), defaults)', 'covered by frame (constructor dict) and seq/rt '
                                                                         '(defaults); setup() excluded: C13'),
    ('Ombott.__call__ with generator handlers / before_request hooks (lazy first read of forms/params while the response '
     'streams, raw request.body read before)', 'covered by frame handler=gen/gen_late, hook, touch'),
    ('application object reused across requests', 'covered by reuse via=app (one Ombott, several __call__)'),
    ('several Request objects over the same raw text, returned containers mutated in place in between',
     'covered by reuse via=request/app with mut (baseline decoded before any mutation in the process)'),
    ('module-level state', 'none in the anchored code today (urllib.parse._hextobyte is a lazily built constant table); '
                           'a memo keyed by the raw text would be exposed by reuse'),
]

PREDICATES = {'body_replaced_after_read': pred_body_replaced_after_read,
              'chunked_with_content_length': pred_chunked_with_content_length}

MANIFEST = dict(
    text=('Proof: coq/props/C18.v, 12 theorems, all closed under the global context. C18_roundtrip: for ALL lists of '
          'pairs with non-empty keys and scalar text (any characters incl. "= & + % space", controls, Latin-1, '
          'non-BMP; any key repetition), urlencode (quote_plus and quote(safe="") spellings) followed by '
          'Request.query / Request.forms (latin1 step included) gives exactly group(pairs) = keys in first-occurrence '
          'order, single values as str, repeated keys as lists in submission order, and parse_qsl gives the pairs '
          'verbatim; C18_params for Request.params. C18_scanner_refines_split_spec: on EVERY string the index '
          'arithmetic of the hand-written scanner equals a declarative splitting spec. C18_total / C18_fuel_suffices: '
          'every string parses to a value, i strictly increases. The shared codecs are proved too: UTF-8 '
          'decode(encode(s)) = s proved symbolically for all scalar text, the strict decoder accepts only canonical '
          'encodings, unquote(quote(s)) = s, the model of _unquote_impl equals the split("%") formulation of the '
          'source. The hand-written model (coq/model/Qsl.v, coq/lib/Pct.v, coq/lib/Utf8.v) is tied to /repo and to '
          'CPython on every run by a differential correspondence (extracted OCaml + vm_compute) at Request.query, '
          'Request.forms, Request.params, parse_qsl and at the primitives (str.encode, bytes.decode strict/replace, '
          'urllib.parse quote/quote_plus/unquote/unquote_to_bytes/urlencode) and on sequences of reads of '
          'query/forms/params on ONE request in generated orders; C18_forms_through_framing composes the parser with the '
          'Content-Length / chunked readers and the size limits (models of C04/C05/C13): through every fragmentation and '
          'legal chunking forms = group(pairs) when the body fits max_memfile_size, 413 otherwise, tied by an end-to-end '
          'correspondence through Ombott.__call__ (C18_access_order_independent: no read depends '
          'on what was read before; C18_reads_follow_updates: after request[key] = value replaced the query string '
          'or the body, every read decodes what the request carries at that moment), and an independent oracle (10-line '
          'grouping) finds the concrete failing input when a tie breaks.'),
    note=('Trusted: Coq kernel + vm_compute; extraction (ExtrOcamlBasic only); the Python harness; that the '
          'hand-written models of urllib.parse.unquote/quote/urlencode and of the UTF-8 codec (errors=strict/replace) '
          'are what CPython does (tied by primitive-level correspondence incl. exhaustive byte strings over the '
          'decoder\'s boundary bytes in the thorough tier, not proved). Excluded by hypothesis: empty keys (the '
          'code drops them; "=v" is then read as key "v"), lone surrogates (cannot be url-encoded). Not modelled: '
          'body size limits, environ caching, JSON/multipart branches of POST.'),
    technique=('Coq proof (symbolic UTF-8 arithmetic with lia + div/mod equations, scanner invariant over '
               'prefix/suffix decompositions, closure-state invariant for list promotion) + model/implementation '
               'correspondence'),
    design_ref='DESIGN.md section 4, C18; section 3 (Utf8.v, Pct.v)',
)
