"""C05 — chunked transfer decoding is exact and rejects every truncation."""
from io import BytesIO

from props.common import FragStream, enc_str, enc_list, Reader, environ

ID = 'C05'
COQ_MODEL = 'model.Chunked'
COQ_CORR = 'corr_C05'
N_QUICK = 1400
N_THOROUGH = 6000
THOROUGH_EXHAUSTIVE = False
RULE = ('cases = corpus + generated chunked encodings (payload 0..60 bytes, random partition, hex size in random '
        'per-digit case with 0..3 leading zeros, extensions made of ; = CR LF(not after CR) and text, trailers / junk '
        'after the last-chunk line), buffer = longest size line + {0,1,7,64} or smaller (size line longer than the '
        'buffer: rejected by design), fragmentation schedules (full, 1-byte, random short reads), through '
        '_body_read(chunked=True) and through Ombott.__call__ (status 200/400/413, Request.body; 60% of the WSGI '
        'cases ALSO carry a CONTENT_LENGTH in {0, small, payload length, raw length, larger} and a Transfer-Encoding '
        'spelled chunked/Chunked/CHUNKED/"gzip, chunked", for legal and truncated encodings; the model side runs the '
        '_body glue body_read_env; the application is configured through the constructor, app.setup(cfg), '
        'setup() over constructor values, or a bare setup() with all defaults; CONTENT_TYPE absent / text / json / '
        'multipart (the markup parser is fed inside _body_read) / near-multipart; CONTENT_LENGTH in any spelling int() '
        'accepts (blanks, sign, leading zero, underscore, NBSP, empty, negative) and — as a KNOWN FINDING — spellings '
        'it rejects; Transfer-Encoding alphabets incl. latin-1 neighbours; earlier partial reads, Request.copy() before '
        'and after the read, a second Request over the same environ; kind=seq: 3..7 requests served by two shared '
        'application objects with different limits, interleaved); the malformed '
        'stream takes strict prefixes (cut in size line / payload / terminator / at chunk start), corrupted data '
        'terminators and single-byte substitutions of framing bytes of the same encodings, plus random bytes; '
        '12% of the encodings have size lines of 65..300 bytes (long extensions such as ;chunk-signature=<64 hex>, long '
        'runs of leading zeros) under buffers above that; 20% of the WSGI cases run under an application-supplied '
        'errors_map (only RequestError / only BodyParsingError / only BodySizeError / foreign classes / empty) through the '
        'constructor or setup(), with BaseRequest._raise in the model (wsgi_body); multipart bodies with an epilogue; '
        'kind=hex cases compare int(b.strip(),16) with lib/PyIntHex.v on numeral-like byte strings. thorough: every '
        'strict prefix and every substitution value at every framing position of 40 encodings. non-trivial = a decode '
        'case that issued >= 6 reads and had either >= 2 chunks or a short read; distinct by (data, buf, schedule '
        'prefix, via, max)')
TRUSTED = ['modelled, not verified: int(bytes,16) of CPython as coq/lib/PyIntHex.v (tied by the kind=hex '
           'correspondence cases); bytes.strip; the OS temporary file behind a spilled body; wsgi.input as '
           'coq/model/Stream.v (read(n) returns 1..n bytes, b"" only at end of data)']
ASSUMPTIONS = ['buffer size (max_memfile_size) >= the longest chunk-size line including its CRLF (longer lines are '
               'rejected by design)', 'wsgi.input.read(n) returns at most n bytes and b"" only at EOF']

CR, LF = 13, 10


# --------------------------------------------------------------------------
# generators
# --------------------------------------------------------------------------

def spell(rng, n, zeros=None):
    s = '%x' % n
    s = ''.join(ch.upper() if rng.random() < 0.4 else ch for ch in s)
    z = rng.choice([0, 0, 0, 1, 2, 3]) if zeros is None else zeros
    return ('0' * z + s).encode()


def gen_ext(rng, long_lines=False):
    if long_lines and rng.random() < 0.6:
        # a long but legal extension (e.g. AWS-style chunk signatures): size lines of 65..300 bytes
        return rng.choice([b';chunk-signature=' + b'%064x' % rng.getrandbits(256),
                           b';x=' + b'y' * rng.randrange(60, 280),
                           b';' + b'a=b;' * rng.randrange(16, 70)])
    if rng.random() < 0.55:
        return b''
    alpha = [b';', b'=', b'\r', b'\n', b'a', b'Z', b' ', b'"', b'\t', b'0']
    e = b''.join(rng.choice(alpha) for _ in range(rng.randrange(0, 9)))
    while b'\r\n' in e:
        e = e.replace(b'\r\n', b'\n\r')
    return b';' + e


def gen_encoding(rng, maxlen=60, long_ok=True):
    """returns dict(data, payload, lines=[(start,end)], terms=[(pos)], last_end, nchunks, maxline)"""
    ln = rng.choice([0, 1, 2, 3, 5, 8, 16, 17, 33]) if rng.random() < 0.4 else rng.randrange(0, maxlen + 1)
    payload = bytes(rng.choice([0, 10, 13, 48, 59, 255, rng.randrange(256)]) for _ in range(ln))
    # payloads that look like chunk framing are the interesting ones
    if ln >= 8 and rng.random() < 0.3:
        k = rng.randrange(0, ln - 5)
        payload = payload[:k] + b'\r\n0\r\n' + payload[k + 5:]
    mp_form = long_ok and rng.random() < 0.08
    if mp_form:
        # a multipart form whose closing delimiter is followed by an epilogue: all of it is the body
        payload = (b'--XyZ\r\nContent-Disposition: form-data; name="a"\r\n\r\nv\r\n--XyZ--\r\n'
                   + bytes(rng.choice([13, 10, 45, 88, rng.randrange(256)]) for _ in range(rng.randrange(0, 40))))
        ln = len(payload)
    cuts = sorted(set(rng.randrange(1, ln) for _ in range(rng.randrange(0, 5)))) if ln > 1 else []
    parts = [payload[a:b] for a, b in zip([0] + cuts, cuts + [ln])] if ln else []
    out = b''
    lines, terms = [], []
    long_lines = long_ok and rng.random() < 0.12
    if mp_form:
        parts = [payload[:7], payload[7:]] if len(payload) > 7 else [payload]
    for p in parts:
        zeros = rng.randrange(60, 250) if long_lines and rng.random() < 0.3 else None
        line = spell(rng, len(p), zeros) + gen_ext(rng, long_lines) + b'\r\n'
        lines.append([len(out), len(out) + len(line)])
        out += line + p
        terms.append(len(out))
        out += b'\r\n'
    line = spell(rng, 0, zeros=rng.choice([0, 0, 1, 2, 70] if long_lines else [0, 0, 1, 2])) + gen_ext(rng, long_lines) + b'\r\n'
    lines.append([len(out), len(out) + len(line)])
    out += line
    last_end = len(out)
    out += rng.choice([b'\r\n', b'\r\n', b'X-T: v\r\n\r\n', b'', b'\r', b'junk', b'5\r\nhello\r\n'])
    return dict(data=out, payload=payload, lines=lines, terms=terms, last_end=last_end, nchunks=len(parts),
                maxline=max(b - a for a, b in lines), mp_form=mp_form)


def gen_sched(rng, n):
    r = rng.random()
    if r < 0.25:
        return []
    if r < 0.4:
        return [0] * (n + 8)
    return [rng.choice([0, 0, 1, 2, 3, 7, 20]) for _ in range(rng.randrange(1, n + 8))]


def mk(enc, data, buf, sched, expect, note, via='func', maxb=None, payload=None, cl=None, te=None, conf='ctor',
       ctype=None, pre=(), emap=None, debug=False, accept=None, verb=None):
    c = dict(kind='dec', data=list(data), buf=buf, sched=sched, maxb=maxb, via=via, expect=expect, note=note,
             nchunks=enc['nchunks'] if enc else 0)
    if via == 'wsgi':
        # the request's own headers: CONTENT_LENGTH (None = absent) next to Transfer-Encoding
        c['cl'] = cl
        c['te'] = 'chunked' if te is None else te
        c['conf'] = conf
        c['ctype'] = ctype
        c['pre'] = list(pre)
        if emap is not None:
            c['emap'] = emap
        if debug:
            c['debug'] = True
        if accept:
            c['accept'] = accept
        if verb:
            c['verb'] = verb
        assert conf != 'setup_default' or (buf == DEFAULT_MEMFILE and maxb is None)
    if expect == 'exact':
        c['payload'] = list(enc['payload'] if payload is None else payload)
    return c


def expect_for(enc, buf, cut=None):
    """what the property demands for the encoding (optionally cut to a prefix)"""
    if cut is not None and cut < enc['last_end']:
        return 'reject'
    return 'reject' if enc['maxline'] > buf else 'exact'


def framing_positions(enc):
    pos = []
    for a, b in enc['lines']:
        pos.extend(range(a, b))
    for t in enc['terms']:
        pos.extend([t, t + 1])
    return pos


# application-supplied errors_map: entries [class id, status]; ids 0 RequestError, 1 BodySizeError,
# 2 BodyParsingError, 3 a class outside the family (ValueError)
EMAPS = [
    [[0, 400]],                               # only the family base
    [[0, 418]],
    [[2, 422]],                               # only the subclass that chunked decoding raises
    [[1, 413]],                               # the parsing error is not mapped at all: it escapes (the application's choice)
    [[0, 400], [1, 413], [2, 400], [3, 409]],  # the default map plus a foreign class
    [[2, 422], [0, 400]],
    [[3, 409]],
    [],
]
EMAP_CLASSES = {0: 'RequestError', 1: 'BodySizeError', 2: 'BodyParsingError'}


def build_errors_map(emap):
    from ombott import HTTPError
    from ombott.request_pkg import errors as rq_errors
    out = {}
    for k, code in emap:
        cls = getattr(rq_errors, EMAP_CLASSES[k]) if k in EMAP_CLASSES else ValueError
        out[cls] = HTTPError(code, 'custom %d' % code)
    return out


def expected_status(emap, k):
    """the documented rule of BaseRequest._raise: the exact class of the error, then the family base;
    None = no entry, the exception escapes"""
    d = dict((a, b) for a, b in emap)
    return d.get(k, d.get(0))


from props.bodyA_shared import TE_CHUNKED, TE_OTHER  # noqa: E402  (shared with C13)
VERBS = ['GET', 'HEAD', 'OPTIONS', 'TRACE', 'DELETE', 'PUT', 'PATCH', 'post', 'get', 'Put']
PRE_OPS = ['partial', 'copy', 'copy_after', 'second', 'chunked_prop', 'set_ctype', 'set_ctype2', 'set_cl', 'set_te',
           'set_other', 'again']


def spell_cl(rng, n):
    """spellings of an integer that int() accepts (latin-1 only: WSGI header values)"""
    return rng.choice([n, n, n, '%d' % n, ' %d ' % n, '+%d' % n, '0%d' % n, '\xa0%d' % n, '%d\n' % n,
                       ('%d' % n)[:1] + '_' + ('%d' % n)[1:] if n >= 10 else '%d' % n])


def gen_wsgi(rng, enc, data, buf, sched, conf, plain=False):
    """a request through Ombott.__call__: optionally a Content-Length (any spelling) next to the chunked coding,
    any CONTENT_TYPE (a multipart one makes _body feed the markup parser), earlier reads / copies of the request
    before the observed read; legal, truncated, mis-terminated and substituted encodings"""
    hdr = dict(conf=conf)
    if rng.random() < 0.6:
        n = rng.choice([0, 0, 1, 3, len(enc['payload']), len(data), len(data), len(data) + 5,
                        rng.randrange(0, len(data) + 2)])
        hdr.update(cl=spell_cl(rng, n) if rng.random() < 0.7 else rng.choice(['', '-3', '-1']),
                   te=rng.choice(TE_CHUNKED))
    if rng.random() < 0.35:
        hdr['ctype'] = rng.choice(['text', 'json', 'mp', 'mp', 'MP', 'mp_nob', 'mp_q'])
    if enc.get('mp_form'):
        hdr['ctype'] = 'mp'
    if rng.random() < 0.3 and conf != 'setup_default':
        hdr['debug'] = True                       # error pages in their debug flavour ...
    if rng.random() < 0.2:
        hdr['accept'] = 'application/json'        # ... HTML (default) or JSON
    if rng.random() < 0.3:
        hdr['verb'] = rng.choice(VERBS)           # a chunked body is a chunked body under every verb
    if rng.random() < 0.2 and conf != 'setup_default':
        hdr['emap'] = rng.choice(EMAPS)             # an application-supplied errors_map
    if rng.random() < 0.3:
        hdr['pre'] = [rng.choice(PRE_OPS) for _ in range(rng.randrange(1, 3))]
    r = rng.random()
    if r < 0.4:
        return mk(enc, data, buf, sched, expect_for(enc, buf), 'legal', 'wsgi', **hdr)
    if r < 0.75:
        cut = rng.randrange(0, enc['last_end']) if rng.random() < 0.7 else rng.choice(
            [t for t in enc['terms']] + [a for a, b in enc['lines']])
        if isinstance(hdr.get('cl'), int):
            hdr['cl'] = rng.choice([hdr['cl'], cut, 0])
        return mk(enc, data[:cut], buf, sched, expect_for(enc, buf, cut), 'prefix', 'wsgi', **hdr)
    if r < 0.87 and enc['terms']:
        t = rng.choice(enc['terms']) + rng.randrange(2)
        new = rng.choice([x for x in (0, 10, 13, 48, 32, rng.randrange(256)) if x != data[t]])
        return mk(enc, data[:t] + bytes([new]) + data[t + 1:], buf, sched, 'reject', 'badterm', 'wsgi', **hdr)
    if r < 0.95 or 'cl' in hdr or plain:
        fp = framing_positions(enc)
        t = rng.choice(fp)
        new = rng.choice([0, 10, 13, 32, 43, 45, 48, 49, 59, 95, 102, 120, 255, rng.randrange(256)])
        return mk(enc, data[:t] + bytes([new]) + data[t + 1:], buf, sched, 'any', 'subst', 'wsgi', **hdr)
    return mk(enc, data, buf, sched, 'any', 'not-chunked', 'wsgi', cl=rng.choice([0, 3, len(data)]),
              te=rng.choice(TE_OTHER), conf=conf)


def gen_seq(rng):
    """3..7 requests on two application objects with different limits, interleaved"""
    apps = [[rng.choice(['ctor', 'setup', 'setup_over', 'kw', 'kw_setup']), rng.choice([8, 12, 20, 64]), None, None],
            [rng.choice(['ctor', 'setup', 'kw', 'kw_split']), rng.choice([9, 16, 33]), rng.choice([None, 0, 5, 12]),
             rng.choice([None, None] + EMAPS)]]               # the second application may bring its own errors_map
    items = []
    for _ in range(rng.randrange(3, 8)):
        k = rng.randrange(2)
        conf, buf, maxb, emap = apps[k]
        enc = gen_encoding(rng, maxlen=30)
        while enc['maxline'] > buf:
            enc = gen_encoding(rng, maxlen=30)
        it = gen_wsgi(rng, enc, enc['data'], buf, gen_sched(rng, len(enc['data'])), conf, plain=True)
        it['maxb'] = maxb
        if maxb is not None:
            it['expect'] = 'any'
        it.pop('emap', None)
        it.pop('debug', None)
        if emap is not None:
            it['emap'] = emap
        it['app'] = k
        items.append(it)
    return dict(kind='seq', apps=apps, items=items)


def empty_size_variants(enc):
    """corruptions that leave a size FIELD empty (the hex digits gone, replaced by blanks, only an extension left, a
    doubled CRLF behind a chunk): such an encoding has no terminating zero-size chunk where it stops — it must be
    refused, not end the body there"""
    data = enc['data']
    out = []
    for a, b in enc['lines']:
        line = data[a:b]
        k = 0
        while k < len(line) and line[k:k + 1] in b'0123456789abcdefABCDEF':
            k += 1
        for rep in (b'', b' ', b'\t', b' \t '):
            out.append(data[:a] + rep + line[k:] + data[b:])
        if line[k:k + 1] != b';':
            out.append(data[:a] + b';x' + line[k:] + data[b:])
    for t in enc['terms']:
        out.append(data[:t + 2] + b'\r\n' + data[t + 2:])          # a doubled CRLF behind the chunk data
    return out


def gen_empty_size(rng, via=None):
    enc = gen_encoding(rng, maxlen=30, long_ok=False)
    d2 = rng.choice(empty_size_variants(enc))
    via = via or rng.choice(['func', 'func', 'wsgi'])
    return mk(enc, d2, enc['maxline'] + rng.choice([1, 7, 64]), gen_sched(rng, len(d2)), 'reject', 'emptysize', via)


def gen_cl_garbage(rng):
    """finding (C12-content-length-not-int, seen from C05): a Content-Length int() rejects"""
    enc = gen_encoding(rng, maxlen=12)
    return mk(enc, enc['data'], enc['maxline'] + 1, [], 'exact', 'legal', 'wsgi',
              cl=rng.choice(['abc', '1e3', '12abc', '1.0', '0x10', '1__2', '--1']), te='chunked')


def gen_dec(rng):
    enc = gen_encoding(rng)
    data = enc['data']
    r = rng.random()
    buf = enc['maxline'] + rng.choice([0, 0, 1, 7, 64])
    if r < 0.06 and enc['maxline'] > 3:
        buf = rng.randrange(1, enc['maxline'])
    sched = gen_sched(rng, len(data))
    via = 'wsgi' if rng.random() < 0.4 else 'func'
    if via == 'wsgi':
        # how the application got its configuration (the errors_map must reach the request either way)
        conf = rng.choice(['ctor', 'ctor', 'setup', 'setup', 'setup_over', 'setup_default', 'kw', 'kw_split', 'kw_setup', 'kw_only'])
        if conf == 'setup_default':
            buf = DEFAULT_MEMFILE
        return gen_wsgi(rng, enc, data, buf, sched, conf)
    r = rng.random()
    if r < 0.38:
        return mk(enc, data, buf, sched, expect_for(enc, buf), 'legal', via)
    if r < 0.62:
        # strict prefix: choose among structurally interesting cut points
        cands = [rng.randrange(0, len(data))] if data else [0]
        for a, b in enc['lines']:
            cands += [a, rng.randrange(a, b), b - 1]
        for t in enc['terms']:
            cands += [t - 1, t, t + 1]
        cut = rng.choice([c for c in cands if 0 <= c < len(data)] or [0])
        return mk(enc, data[:cut], buf, sched, expect_for(enc, buf, cut), 'prefix', via)
    if r < 0.75 and enc['terms']:
        t = rng.choice(enc['terms']) + rng.randrange(2)
        old = data[t]
        new = rng.choice([x for x in (0, 10, 13, 48, 32, rng.randrange(256)) if x != old])
        d2 = data[:t] + bytes([new]) + data[t + 1:]
        ex = 'reject'
        return mk(enc, d2, buf, sched, ex, 'badterm', via)
    if r < 0.92:
        fp = framing_positions(enc)
        t = rng.choice(fp)
        new = rng.choice([0, 10, 13, 32, 43, 45, 48, 49, 59, 95, 102, 120, 255, rng.randrange(256)])
        d2 = data[:t] + bytes([new]) + data[t + 1:]
        return mk(enc, d2, buf, sched, 'any', 'subst', via)
    n = rng.randrange(0, 30)
    junk = bytes(rng.choice([13, 10, 48, 49, 59, 97, 102, 45, 43, 95, 120, 32, rng.randrange(256)]) for _ in range(n))
    return mk(None, junk, rng.randrange(1, 12), sched, 'any', 'random', via)


HEX_ALPHA = [32, 9, 10, 13, 11, 12, 43, 45, 48, 48, 120, 88, 95, 95, 49, 57, 97, 102, 65, 70, 103, 71, 0, 128, 28, 133]


def gen_hex(rng):
    r = rng.random()
    if r < 0.3:
        n = rng.choice([0, 1, 9, 10, 15, 16, 255, 256, 4095, 65535, rng.randrange(1 << 40)])
        return dict(kind='hex', b=list(spell(rng, n)), value=n)
    return dict(kind='hex', b=[rng.choice(HEX_ALPHA) for _ in range(rng.randrange(0, 8))])


def gen(rng, n):
    for i in range(n):
        if i % 20 == 13:
            yield gen_seq(rng)
        elif i % 200 == 57:
            yield gen_cl_garbage(rng)
        elif i % 16 == 3:
            yield gen_empty_size(rng)
        elif i % 7 == 6:
            yield gen_hex(rng)
        else:
            yield gen_dec(rng)


def corpus():
    def enc_of(data, payload, nchunks=1):
        return dict(payload=payload, nchunks=nchunks)
    out = []
    # F5 witnesses.  (a) a truncated body (cut before the last chunk) that the unrepaired code accepts as b'abc'
    # when the first payload read returns 3 bytes: it subtracted the REQUESTED size
    trunc = b'8\r\nabc\r\n0\r\n\r\n'
    for via in ('func', 'wsgi'):
        out.append(mk(dict(nchunks=1), trunc, 8, [0, 0, 0, 2], 'reject', 'prefix', via))
    # (b) a legal body rejected under short reads (payload read short, terminator CRLF split over two reads)
    legal = b'8\r\nabcdefgh\r\n0\r\n\r\n'
    out.append(mk(dict(nchunks=1, payload=b'abcdefgh'), legal, 8, [0, 0, 0, 2], 'exact', 'legal'))
    out.append(mk(dict(nchunks=1, payload=b'abcdefgh'), legal, 8, [0, 0, 0, 20, 0, 0], 'exact', 'legal'))
    out.append(mk(dict(nchunks=1, payload=b'abcdefgh'), legal, 8, [0] * 40, 'exact', 'legal', 'wsgi'))
    # boundaries
    out.append(mk(dict(nchunks=0, payload=b''), b'0\r\n\r\n', 3, [], 'exact', 'legal'))
    out.append(mk(dict(nchunks=0, payload=b''), b'0\r\n\r\n', 2, [], 'reject', 'legal'))          # line longer than buf
    out.append(mk(dict(nchunks=0), b'', 4, [], 'reject', 'prefix'))
    out.append(mk(dict(nchunks=0), b'0\r', 4, [], 'reject', 'prefix'))
    out.append(mk(dict(nchunks=1), b'3\r\nabc', 4, [], 'reject', 'prefix'))
    out.append(mk(dict(nchunks=1), b'3\r\nabc\r', 4, [], 'reject', 'prefix'))
    out.append(mk(dict(nchunks=1), b'3\r\nabc\r\n', 4, [], 'reject', 'prefix'))
    out.append(mk(dict(nchunks=1), b'3\r\nabcXX0\r\n\r\n', 4, [], 'reject', 'badterm'))
    out.append(mk(dict(nchunks=1), b'3\r\nabc\rX0\r\n\r\n', 4, [], 'reject', 'badterm'))
    out.append(mk(dict(nchunks=1), b'3\r\nabc\n\n0\r\n\r\n', 4, [], 'reject', 'badterm'))
    out.append(mk(dict(nchunks=1, payload=b'abc'), b'003;a=\r;\n\r\r\nabc\r\n00;x\r\n\r\n', 12, [0, 1] * 20, 'exact', 'legal'))
    out.append(mk(dict(nchunks=2, payload=bytes(range(27))), b'1B\r\n' + bytes(range(27)) + b'\r\n0\r\n', 4, [4, 0, 2] * 9,
                  'exact', 'legal'))
    # chunked requests that also carry a Content-Length (0, small, the raw length, larger): still de-chunked,
    # and a truncated one is still refused (seeded change C05/change1: "chunked and content_length < 0")
    for cl in (0, 3, 8, len(legal), len(legal) + 5):
        out.append(mk(dict(nchunks=1, payload=b'abcdefgh'), legal, 8, [], 'exact', 'legal', 'wsgi', cl=cl))
        out.append(mk(dict(nchunks=1, payload=b'abcdefgh'), legal, 8, [0, 2, 1] * 9, 'exact', 'legal', 'wsgi', cl=cl,
                      te='gzip, Chunked'))
    for cl in (0, 3, 6, len(trunc), len(trunc) + 5):
        out.append(mk(dict(nchunks=1), trunc, 8, [], 'reject', 'prefix', 'wsgi', cl=cl))
        out.append(mk(dict(nchunks=1), b'3\r\nabc', 8, [], 'reject', 'prefix', 'wsgi', cl=cl))
    out.append(mk(dict(nchunks=0), b'', 4, [], 'reject', 'prefix', 'wsgi', cl=0))
    out.append(mk(dict(nchunks=1), legal, 8, [], 'any', 'not-chunked', 'wsgi', cl=len(legal), te='identity'))
    # numerals Python accepts beyond plain hex digits (sign, 0x, underscores, surrounding blanks): 'any'
    for line in (b'0x3', b'+3', b'0_3', b' 3 ', b'\n3', b'-3', b'-0', b'0x_3', b'3_', b'0x', b'', b'1\n2'):
        out.append(mk(dict(nchunks=1), line + b'\r\nabc\r\n0\r\n\r\n', 8, [], 'any', 'subst'))
    out.append(mk(dict(nchunks=1), b'ffffffffffffffffffffffff\r\nabc', 32, [], 'any', 'random'))
    # size limit on a chunked body
    out.append(mk(dict(nchunks=1), b'8\r\nabcdefgh\r\n0\r\n\r\n', 4, [], 'any', 'legal', maxb=5))
    out.append(mk(dict(nchunks=1), b'8\r\nabcdefgh\r\n0\r\n\r\n', 4, [], 'any', 'legal', 'wsgi', maxb=5))
    for b in (b'', b'0', b'1f', b'0x1F', b'0x', b'0x_1f', b'0x__1f', b'_1f', b'1_f', b'1__f', b'1f_', b'+1f', b'-1f',
              b'+-1', b'- 1', b'+', b' 1f ', b'\t\n\r\x0b\x0c1f\x0b', b'\x1c1', b'1 f', b'0_x1', b'-0x1f', b'00x1',
              b'1\x002', b'\x801', b'0b1', b'-_1', b'0x_1_2', b'0X_', b'-0'):
        out.append(dict(kind='hex', b=list(b)))
    # applications configured through app.setup(): the errors_map must reach the request object
    # (seeded change C05/change6: setup() handed the raw dict to Request.setup -> bare exceptions -> 500)
    for conf in CONFS:
        b = DEFAULT_MEMFILE if conf == 'setup_default' else 8
        out.append(mk(dict(nchunks=1, payload=b'abcdefgh'), legal, b, [], 'exact', 'legal', 'wsgi', conf=conf))
        out.append(mk(dict(nchunks=1), trunc, b, [], 'reject', 'prefix', 'wsgi', conf=conf))
        out.append(mk(dict(nchunks=1), b'3\r\nabcXX0\r\n\r\n', b, [], 'reject', 'badterm', 'wsgi', conf=conf))
        out.append(mk(dict(nchunks=1), b'zz\r\nabc\r\n0\r\n\r\n', b, [], 'any', 'subst', 'wsgi', conf=conf))
    # audit round: CONTENT_TYPE (a multipart one feeds every part to the markup parser inside _body_read), raw
    # Content-Length spellings, earlier reads / copies, Transfer-Encoding alphabets
    for ct in ('mp', 'MP', 'mp_nob', 'mp_q', 'json', 'text'):
        out.append(mk(dict(nchunks=1, payload=b'abcdefgh'), legal, 8, [0, 2] * 9, 'exact', 'legal', 'wsgi', ctype=ct))
        out.append(mk(dict(nchunks=1), trunc, 8, [], 'reject', 'prefix', 'wsgi', ctype=ct))
    for clr in ('', ' 5 ', '+5', '05', '\xa05', '5\n', '2_0', '-3'):
        out.append(mk(dict(nchunks=1, payload=b'abcdefgh'), legal, 8, [], 'exact', 'legal', 'wsgi', cl=clr))
    for pre in (['partial'], ['copy'], ['copy_after'], ['second'], ['chunked_prop'], ['partial', 'copy'], ['second', 'partial']):
        out.append(mk(dict(nchunks=1, payload=b'abcdefgh'), legal, 4, [1] * 30, 'exact', 'legal', 'wsgi', pre=pre))
        out.append(mk(dict(nchunks=1), trunc, 8, [], 'reject', 'prefix', 'wsgi', pre=pre))
    for te in TE_CHUNKED:
        out.append(mk(dict(nchunks=1, payload=b'abcdefgh'), legal, 8, [], 'exact', 'legal', 'wsgi', te=te, cl=3))
    for te in TE_OTHER:
        out.append(mk(dict(nchunks=1), legal, 8, [], 'any', 'not-chunked', 'wsgi', te=te, cl=len(legal)))
    # object reuse: 413 / 400 / 200 / 400 / 413 / 200 on shared applications
    seq_items = []
    for k, (d, ex, note) in enumerate([(legal, 'any', 'legal'), (trunc, 'reject', 'prefix'), (legal, 'exact', 'legal'),
                                       (b'3\r\nabcXX', 'reject', 'badterm'), (legal, 'any', 'legal'),
                                       (legal, 'exact', 'legal'), (b'', 'reject', 'prefix')]):
        app_i = 1 if k in (0, 4) else 0
        it = mk(dict(nchunks=1, payload=b'abcdefgh'), d, 8, [], ex, note, 'wsgi', maxb=5 if app_i else None,
                conf='setup' if app_i else 'ctor')
        it['app'] = app_i
        seq_items.append(it)
    out.append(dict(kind='seq', apps=[['ctor', 8, None, None], ['setup', 8, 5, None]], items=seq_items))
    # round 10: an empty size field (digits gone / blanks / only an extension / doubled CRLF) never ends the body
    for d_ in (b'3\r\nabc\r\n\r\n', b'3\r\nabc\r\n;x\r\n', b'3\r\nabc\r\n \r\n', b'3\r\nabc\r\n\t\r\n3\r\ndef\r\n0\r\n\r\n',
               b'3\r\nabc\r\n\r\n3\r\ndef\r\n0\r\n\r\n', b'\r\n', b';\r\n\r\n'):
        for via in ('func', 'wsgi'):
            out.append(mk(dict(nchunks=1), d_, 8, [], 'reject', 'emptysize', via))
    # round 10: the verb does not matter: a chunked body is decoded (and a truncated one refused) under any method
    for vb in VERBS:
        out.append(mk(dict(nchunks=1, payload=b'abcdefgh'), legal, 8, [], 'exact', 'legal', 'wsgi', verb=vb))
        out.append(mk(dict(nchunks=1), trunc, 8, [], 'reject', 'prefix', 'wsgi', verb=vb))
    # round 8: debug=True error pages (HTML and JSON) for cut / garbled chunked bodies: still a client error
    for d_, note_ in ((trunc, 'prefix'), (b'3\r\nabcXX0\r\n\r\n', 'badterm'), (b'', 'prefix'), (b'zz\r\n', 'prefix')):
        for acc in (None, 'application/json'):
            for conf in ('ctor', 'setup'):
                out.append(mk(dict(nchunks=1), d_, 8, [], 'reject' if d_ != b'zz\r\n' else 'any', note_ if d_ != b'zz\r\n' else 'subst',
                              'wsgi', debug=True, accept=acc, conf=conf))
    out.append(mk(dict(nchunks=1, payload=b'abcdefgh'), legal, 8, [], 'exact', 'legal', 'wsgi', debug=True))
    # round 8: read, rewrite a header through Request.__setitem__, read again — also after a FAILED read (fix F43)
    for op in ('set_ctype', 'set_ctype2', 'set_cl', 'set_te', 'set_other', 'again'):
        out.append(mk(dict(nchunks=1, payload=b'abcdefgh'), legal, 8, [2] * 20, 'exact', 'legal', 'wsgi', pre=[op]))
        out.append(mk(dict(nchunks=1, payload=b'3\r\nabc\r\n0\r\n\r\n'), b'd\r\n3\r\nabc\r\n0\r\n\r\n\r\n0\r\n\r\n', 8, [], 'exact', 'legal',
                      'wsgi', pre=[op]))                    # a payload that is itself a chunked encoding
        out.append(mk(dict(nchunks=1), trunc, 8, [], 'reject', 'prefix', 'wsgi', pre=[op]))
        out.append(mk(dict(nchunks=1), b'8\r\nabcdefgh\r\n0\r\n\r\n'[:7] , 8, [], 'reject', 'prefix', 'wsgi', pre=[op, 'set_ctype']))
    # round 5: size lines of 65..300 bytes (long extension, long run of leading zeros) under a larger buffer
    sig = b';chunk-signature=' + b'0123456789abcdef' * 4
    longs = [b'8' + sig + b'\r\nabcdefgh\r\n0' + sig + b'\r\n\r\n',
             b'0' * 100 + b'8\r\nabcdefgh\r\n' + b'0' * 70 + b'\r\n\r\n',
             b'8;' + b'a=b;' * 60 + b'\r\nabcdefgh\r\n0\r\n\r\n']
    for d_ in longs:
        for b_, via_ in ((300, 'func'), (300, 'wsgi'), (DEFAULT_MEMFILE, 'wsgi')):
            out.append(mk(dict(nchunks=1, payload=b'abcdefgh'), d_, b_, [0, 5, 1] * 99, 'exact', 'legal', via_,
                          conf='setup_default' if b_ == DEFAULT_MEMFILE else 'ctor'))
    out.append(mk(dict(nchunks=1), longs[0], 80, [], 'reject', 'legal', 'func'))       # 84-byte line, buffer 80
    # round 5: application-supplied errors_map (only the family base / only the subclass / foreign classes / empty)
    for em in EMAPS:
        for conf in ('ctor', 'setup'):
            out.append(mk(dict(nchunks=1), trunc, 8, [], 'reject', 'prefix', 'wsgi', conf=conf, emap=em))
            out.append(mk(dict(nchunks=1, payload=b'abcdefgh'), legal, 8, [], 'exact', 'legal', 'wsgi', conf=conf, emap=em))
        out.append(mk(dict(nchunks=1), legal, 4, [], 'any', 'legal', 'wsgi', maxb=5, emap=em))
    # round 5: a multipart body whose closing delimiter is followed by an epilogue — the body is all of it
    form = b'--XyZ\r\nContent-Disposition: form-data; name="a"\r\n\r\nv\r\n--XyZ--\r\n' + b'EPILOGUE' * 5
    out.append(mk(dict(nchunks=2, payload=form), b'%x\r\n' % 60 + form[:60] + b'\r\n%x\r\n' % (len(form) - 60) + form[60:]
                  + b'\r\n0\r\n\r\n', 8, [3] * 60, 'exact', 'legal', 'wsgi', ctype='mp'))
    # finding: Content-Length that int() rejects on a chunked request -> 500
    out.append(mk(dict(nchunks=1, payload=b'abcdefgh'), legal, 8, [], 'exact', 'legal', 'wsgi', cl='abc'))
    out.append(mk(dict(nchunks=1), legal, 4, [], 'any', 'legal', 'wsgi', maxb=5, conf='setup'))
    out.append(mk(dict(nchunks=1), legal, 4, [], 'any', 'legal', 'wsgi', maxb=5, conf='setup_over'))
    return out


def thorough():
    import random
    rng = random.Random('C05/thorough')
    for _ in range(40):
        enc = gen_encoding(rng, maxlen=20, long_ok=False)
        for d2 in empty_size_variants(enc):
            for sched in ([], [0] * (len(d2) + 4)):
                yield mk(enc, d2, enc['maxline'] + 3, sched, 'reject', 'emptysize')
    # size lines of 65..300 bytes: every third strict prefix, buffer = the longest line and the 100 KiB default
    n_long = 0
    while n_long < 4:
        enc = gen_encoding(rng, maxlen=12)
        if enc['maxline'] <= 64:
            continue
        n_long += 1
        data = enc['data']
        for buf in (enc['maxline'], DEFAULT_MEMFILE):
            for cut in range(0, len(data) + 1, 3):
                yield mk(enc, data[:cut], buf, [], expect_for(enc, buf, cut), 'prefix' if cut < len(data) else 'legal')
    for _ in range(40):
        enc = gen_encoding(rng, maxlen=24, long_ok=False)
        data = enc['data']
        for buf in (enc['maxline'], enc['maxline'] + 5):
            for sched in ([], [0] * (len(data) + 4), gen_sched(rng, len(data))):
                for cut in range(len(data)):
                    yield mk(enc, data[:cut], buf, sched, expect_for(enc, buf, cut), 'prefix')
        if _ < 12:
            for cl in (0, 2, len(data)):
                for cut in range(len(data) + 1):
                    yield mk(enc, data[:cut], enc['maxline'], [], expect_for(enc, enc['maxline'], cut),
                             'prefix' if cut < len(data) else 'legal', 'wsgi', cl=cl)
        buf = enc['maxline'] + 1
        terms = set(enc['terms']) | set(t + 1 for t in enc['terms'])
        for t in framing_positions(enc):
            for new in range(256):
                if new == data[t]:
                    continue
                d2 = data[:t] + bytes([new]) + data[t + 1:]
                yield mk(enc, d2, buf, [1, 0, 2] * len(data), 'reject' if t in terms else 'any',
                         'badterm' if t in terms else 'subst')


# --------------------------------------------------------------------------
# implementation side
# --------------------------------------------------------------------------

DEFAULT_MEMFILE = 100 * 1024
CONFS = ('ctor', 'setup', 'setup_over', 'kw', 'kw_split', 'kw_setup', 'kw_only', 'setup_default')


def make_app(conf, buf, maxb, emap=None, debug=False):
    """the application configured the ways the API offers: through the constructor, through
    app.setup(config) on a default app, through setup() overriding constructor values, and through a bare
    setup() (all defaults: max_memfile_size 100 KiB, no max_body_size)"""
    from ombott import Ombott
    cfg = dict(max_memfile_size=buf, max_body_size=maxb)
    if emap is not None:
        cfg['errors_map'] = build_errors_map(emap)
    if debug:
        cfg['debug'] = True                     # the debug flavour of the HTML / JSON error page
    if conf != 'setup_default':
        from props.bodyA_shared import build_app
        return build_app(conf, cfg)
    assert conf == 'setup_default' and buf == DEFAULT_MEMFILE and maxb is None
    app = Ombott(dict(max_memfile_size=5, max_body_size=2))
    app.setup()
    return app

def run_impl(case):
    if case['kind'] == 'hex':
        try:
            return dict(kind='hex', value=int(bytes(case['b']).strip(), 16))
        except ValueError:
            return dict(kind='hex', value=None)
    if case['kind'] == 'seq':
        return run_seq(case)
    from ombott.request_pkg.body_mixin import _body_read
    from ombott.request_pkg.errors import BodySizeError, BodyParsingError
    st = FragStream(case['data'], case['sched'])
    if case['via'] == 'func':
        try:
            body = _body_read(st.read, case['buf'], chunked=True, max_body_size=case['maxb'])
        except BodySizeError:
            return dict(status='too_large', reqs=st.log, pos=st.pos)
        except BodyParsingError:
            return dict(status='parse_error', reqs=st.log, pos=st.pos)
        spilled = not isinstance(body, BytesIO)
        body.seek(0)
        return dict(status='ok', body=list(body.read()), spilled=spilled, reqs=st.log, pos=st.pos)
    app, holder = app_with_handler(case.get('conf', 'ctor'), case['buf'], case['maxb'], case.get('emap'),
                                   bool(case.get('debug')))
    return call_wsgi(app, holder, case, st)


def rewrite(rq, op):
    """header rewrites through Request.__setitem__ that leave the (already buffered) body alone"""
    if op == 'set_ctype':
        rq['CONTENT_TYPE'] = 'multipart/form-data; boundary=QQ'
    elif op == 'set_ctype2':
        rq['CONTENT_TYPE'] = 'application/json'
    elif op == 'set_cl':
        rq['CONTENT_LENGTH'] = '1'
    elif op == 'set_te':
        rq['HTTP_TRANSFER_ENCODING'] = 'identity'
    elif op == 'set_other':
        rq['HTTP_X_ANYTHING'] = 'v'
        rq['QUERY_STRING'] = 'a=1'


def app_with_handler(conf, buf, maxb, emap=None, debug=False):
    """an application with the echo route; [holder] carries the per-request inputs / observations of the
    handler, so that ONE application object can serve a whole sequence of cases"""
    app = make_app(conf, buf, maxb, emap, debug)
    holder = {}

    def handler():
        from ombott import HTTPError
        case, seen, st = holder['case'], holder['seen'], holder['stream']
        rq = app.request
        for op in case.get('pre', ()):
            if op == 'partial':                 # an earlier partial read of the same body object
                rq.body.read(3)
            elif op == 'copy':                  # observe through a copy of the request
                rq = rq.copy()
            elif op == 'copy_after':            # read, then observe through a copy made afterwards
                rq.body.read()
                rq = rq.copy()
            elif op == 'second':                # a second Request object over the same environ
                from ombott import Request
                rq = Request(rq.environ, config=app.config)
            elif op == 'chunked_prop':          # the public properties themselves
                seen['props'] = [rq.chunked, rq.content_length]
        rewrites = [op for op in case.get('pre', ()) if op.startswith('set_')]
        try:
            b = rq.body
        except HTTPError as e1:
            # a failed read is final (fix F43): after any header rewrite through Request.__setitem__ the next
            # access fails the same way and reads nothing more from the stream
            n_reads = len(st.log)
            for op in rewrites:
                rewrite(rq, op)
            if rewrites or 'again' in case.get('pre', ()):
                try:
                    rq.body
                    seen['second_read_succeeded'] = True
                except HTTPError as e2:
                    seen['second_read_other'] = (e2.status_code != e1.status_code) or len(st.log) != n_reads
            raise e1
        seen['spilled'] = not isinstance(b, BytesIO)
        c1 = b.read()
        n_reads = len(st.log)
        for op in rewrites:                     # read, rewrite a header through Request.__setitem__, read again
            rewrite(rq, op)
        if rewrites and rq.body.read() != c1:
            seen['rewrite_changed_body'] = True
        # the application's own request object sees the same cached body — unless the observing request is a
        # copy made BEFORE the body was buffered: copy() is shallow, both would share one unread stream and only
        # one of them can consume it (as in bottle); then only the copy is observed
        shares = rq.environ is app.request.environ or 'ombott.request.body' in app.request.environ
        c2 = app.request.body.read() if shares else c1
        c3 = rq.body.read()
        seen['stable'] = c1 == c2 == c3 and len(st.log) == n_reads
        seen['body'] = c1                       # (a HEAD response carries no body: observe what the handler got)
        return c1
    app.route('/b', method='ANY', callback=handler)       # any verb, any spelling of it
    return app, holder


CTYPES = {None: None, 'text': 'text/plain', 'json': 'application/json',
          'mp': 'multipart/form-data; boundary=XyZ', 'MP': 'Multipart/Form-Data; boundary=XyZ',
          'mp_nob': 'multipart/form-data; boundary=', 'mp_q': 'multipart/mixed; charset=x; boundary=a;b'}


def cl_text(cl):
    return cl if isinstance(cl, str) else str(cl)


def call_wsgi(app, holder, case, st):
    seen = {}
    holder.update(case=case, seen=seen, stream=st)
    env = environ(case.get('verb', 'POST'), '/b', **{'wsgi.input': st})
    if case.get('te', 'chunked'):
        env['HTTP_TRANSFER_ENCODING'] = case.get('te', 'chunked')
    if case.get('cl') is not None:
        env['CONTENT_LENGTH'] = cl_text(case['cl'])
    if CTYPES[case.get('ctype')] is not None:
        env['CONTENT_TYPE'] = CTYPES[case['ctype']]
    if case.get('accept'):
        env['HTTP_ACCEPT'] = case['accept']       # JSON or HTML flavour of the error page
    out = {}

    def start_response(status, headers, exc_info=None):
        out['status'] = status
    content = b''.join(app(env, start_response))
    code = int(out['status'].split()[0])
    if env['wsgi.errors'].getvalue():
        return dict(status='traceback_on_wsgi_errors', code=code)
    if seen.get('second_read_succeeded') or seen.get('second_read_other'):
        return dict(status='unstable', why='after a failed read and a header rewrite the next access %s' % (
            'succeeded' if seen.get('second_read_succeeded') else 'failed differently or read on'))
    if code == 200:
        if seen.get('rewrite_changed_body'):
            return dict(status='unstable', why='the body changed after a header rewrite')
        if not seen.get('stable'):
            return dict(status='unstable')
        return dict(status='ok', body=list(seen['body']), spilled=seen['spilled'], reqs=st.log, pos=st.pos)
    st_name = {400: 'parse_error', 413: 'too_large'}.get(code, 'http_%d' % code)
    if case.get('emap') is not None:
        st_name = 'http_%d' % code              # a supplied errors_map: the status itself is the observation
    return dict(status=st_name, reqs=st.log, pos=st.pos)


def run_seq(case):
    """kind=seq: several requests served by the SAME application objects (one Request object per app, the
    shared HTTPError instances of errors_map), two applications with different limits interleaved"""
    apps = [app_with_handler(*a) for a in case['apps']]
    obs = []
    for it in case['items']:
        app, holder = apps[it['app']]
        obs.append(call_wsgi(app, holder, it, FragStream(it['data'], it['sched'])))
    return dict(kind='seq', items=obs)


def encode(case):
    if case['kind'] == 'hex':
        return [1] + enc_str(case['b'])
    if case['kind'] == 'seq':
        out = [3]
        for it in case['items']:
            e = encode(it)
            out += [len(e)] + e
        return out
    if case['via'] == 'wsgi':
        # through the _body glue: the RAW Content-Length value (flag 0 = header absent) and Transfer-Encoding
        cl = case.get('cl')
        head = ([0 if cl is None else 1, case['buf'], 0 if case['maxb'] is None else 1, case['maxb'] or 0]
                + enc_str(b'' if cl is None else cl_text(cl).encode('latin1'))
                + enc_str(case.get('te', 'chunked').encode('latin1')))
        tail = enc_str(case['data']) + enc_list(case['sched'], lambda k: [k])
        if case.get('emap') is not None:        # BaseRequest._raise over the supplied errors_map, in the model
            return [4] + head + enc_list(case['emap'], lambda e: list(e)) + tail
        return [2] + head + tail
    return ([0, case['buf'], 0 if case['maxb'] is None else 1, case['maxb'] or 0]
            + enc_str(case['data']) + enc_list(case['sched'], lambda k: [k]))


def decode(out, case):
    r = Reader(out)
    if case['kind'] == 'hex':
        tag = r.int()
        return dict(kind='hex', value=r.int() if tag else None)
    if case['kind'] == 'seq':
        obs = []
        for it in case['items']:
            n = r.int()
            sub = r.a[r.i:r.i + n]
            r.i += n
            obs.append(decode(sub, it))
        return dict(kind='seq', items=obs)
    tag = r.int()
    if tag == 0:
        sp = r.bool()
        body = r.str()
        reqs = r.list(lambda q: [q.int(), q.int()])
        return dict(status='ok', body=body, spilled=sp, reqs=reqs, pos=r.int())
    if tag in (1, 2):
        reqs = r.list(lambda q: [q.int(), q.int()])
        return dict(status='too_large' if tag == 1 else 'parse_error', reqs=reqs, pos=r.int())
    if tag == 5:                # mapped through a supplied errors_map
        code = r.int()
        reqs = r.list(lambda q: [q.int(), q.int()])
        return dict(status='http_%d' % code, reqs=reqs, pos=r.int())
    if tag == 6:                # no entry: the bare exception escapes
        return dict(status='traceback_on_wsgi_errors', code=500)
    if tag == 8:                # int(CONTENT_LENGTH) raises ValueError: escapes as a 500 with a traceback
        return dict(status='traceback_on_wsgi_errors', code=500)
    return dict(status='model_tag_%d' % tag)


# --------------------------------------------------------------------------
# the property, stated on the implementation
# --------------------------------------------------------------------------

def cl_not_int(case):
    cl = case.get('cl')
    if not isinstance(cl, str) or cl == '':
        return False
    try:
        int(cl)
        return False
    except ValueError:
        return True


def oracle(case, obs):
    if case['kind'] == 'seq':
        for i, (it, o) in enumerate(zip(case['items'], obs.get('items') or [])):
            f = oracle(it, o)
            if f:
                return 'request %d of a sequence on shared application objects: %s' % (i, f)
        if len(obs.get('items') or []) != len(case['items']):
            return 'sequence not completed: %s' % (obs,)
        return None
    if case['kind'] == 'hex':
        if 'value' in case and obs.get('value') != case['value']:
            return 'int(%r, 16) = %r, expected %d' % (bytes(case['b']), obs.get('value'), case['value'])
        return None
    st = obs.get('status')
    if case.get('emap') is not None and st != 'ok':
        # an application-supplied errors_map: exact class, then the family base RequestError; no entry = the
        # application chose to let it escape
        want_parse, want_size = expected_status(case['emap'], 2), expected_status(case['emap'], 1)
        got = obs.get('code', None) if st == 'traceback_on_wsgi_errors' else int(st.split('_')[1]) if st.startswith('http_') else st
        if cl_not_int(case):
            return None
        if case['expect'] == 'exact' and (case['maxb'] is None or len(case['payload']) <= case['maxb']):
            return 'legal chunked encoding answered %s under errors_map %s' % (got, case['emap'])
        ok = set()
        if case['expect'] != 'exact':
            ok.add(500 if want_parse is None else want_parse)
        if case['maxb'] is not None:
            ok.add(500 if want_size is None else want_size)
        if got not in ok:
            return 'malformed chunked body answered %s; errors_map %s maps its error (BodyParsingError, else RequestError) to %s' % (
                got, case['emap'], sorted(ok))
        return None
    allowed = ('ok', 'parse_error') + (('too_large',) if case['maxb'] is not None else ())
    if st not in allowed:
        if cl_not_int(case):
            return 'chunked request whose Content-Length is not an integer (%r) answered %s' % (case['cl'], obs)
        return 'chunked body caused %s instead of acceptance or a client error%s' % (
            obs, ' (application configured through %s)' % case['conf'] if case.get('conf', 'ctor') != 'ctor' else '')
    if st == 'too_large':
        return None
    buf = case['buf']
    for n, p in obs['reqs']:
        if n > max(buf, 1):
            return 'read(%d) larger than the buffer %d' % (n, buf)
    ex = case['expect']
    if ex == 'exact':
        want = bytes(case['payload'])
        if case['maxb'] is not None and len(want) > case['maxb']:
            return 'body above max_body_size accepted' if st == 'ok' else None
        if st != 'ok':
            return 'legal chunked encoding of %d bytes in %d chunks rejected' % (len(want), case['nchunks'])
        if bytes(obs['body']) != want:
            return 'decoded body (%d bytes) is not the concatenation of the chunk payloads (%d bytes)' % (
                len(obs['body']), len(want))
        if obs['spilled'] != (len(want) > buf):
            return 'spooling flag %s for %d bytes with threshold %d' % (obs['spilled'], len(want), buf)
    elif ex == 'reject':
        if st == 'ok':
            return '%s accepted as a complete body of %d bytes' % (
                {'prefix': 'truncated encoding', 'badterm': 'chunk data not followed by CRLF',
                 'emptysize': 'encoding with an empty chunk-size field',
                 'legal': 'size line longer than the buffer'}.get(case['note'], case['note']), len(obs['body'])) + (
                ' (request also carried Content-Length: %s)' % case['cl'] if case.get('cl') is not None else '')
    return None


def nontrivial(case, obs):
    if case['kind'] == 'seq':
        return len(case['items']) >= 3 and len(set(o.get('status') for o in obs.get('items', []))) >= 2
    if case['kind'] != 'dec':
        return False
    reqs = obs.get('reqs') or []
    if len(reqs) < 6:
        return False
    short = any(reqs[i + 1][1] < reqs[i][1] + reqs[i][0] for i in range(len(reqs) - 1))
    return short or case.get('nchunks', 0) >= 2


def key(case):
    if case['kind'] == 'hex':
        return ('hex', tuple(case['b']))
    if case['kind'] == 'seq':
        return ('seq', tuple(key(it) for it in case['items']))
    return (tuple(case['data'][:80]), len(case['data']), case['buf'], tuple(case['sched'][:8]), case['via'],
            case['maxb'], case.get('cl'), case.get('te'), case.get('conf'), case.get('ctype'), case.get('verb'),
            tuple(case.get('pre', ())), str(case.get('emap')))


def classify(case, obs):
    if case['kind'] == 'seq':
        return 'seq/%d requests/%s' % (len(case['items']), '+'.join(sorted(set(str(o.get('status'))
                                                                             for o in obs.get('items', [])))))
    if case['kind'] == 'hex':
        return 'hex/%s' % ('value' if obs.get('value') is not None else 'ValueError')
    via = case['via'] + ('+CL' if case.get('cl') is not None else '') + (
        '' if case.get('conf', 'ctor') == 'ctor' else '+' + case['conf']) + (
        '+ctype' if case.get('ctype') else '') + ('+pre' if case.get('pre') else '') + (
        '+emap' if case.get('emap') is not None else '')
    return '%s/%s/%s/%s/%s' % (via, case['note'], case['expect'],
                               'sched' if case['sched'] else 'full-reads', obs.get('status'))


def shrink(case):
    if case['kind'] == 'seq':
        its = case['items']
        for i in range(len(its)):
            if len(its) > 1:
                yield dict(case, items=its[:i] + its[i + 1:])
        return
    if case['kind'] != 'dec':
        return
    s = case['sched']
    for i in range(len(s)):
        yield dict(case, sched=s[:i] + s[i + 1:])
    if s:
        yield dict(case, sched=[])
    if case['via'] != 'func':
        yield dict(case, via='func')
    if case['expect'] != 'exact':
        d = case['data']
        # dropping trailing bytes keeps 'reject' (still lacks the last chunk) and 'any'
        if case['note'] in ('prefix', 'random') and d:
            yield dict(case, data=d[:-1])


def _pred_cl_not_int(case, what, m):
    """the defect of finding C12-content-length-not-int, seen from C05: BodyMixin.content_length raises
    ValueError although the request is chunked"""
    if case.get('kind') == 'seq':
        return any(cl_not_int(it) for it in case['items'])
    return case.get('kind') == 'dec' and case.get('via') == 'wsgi' and cl_not_int(case)


PREDICATES = {'content_length_not_int': _pred_cl_not_int}

MANIFEST = dict(
    text=('Proof: theorems in coq/props/C05.v (Coq, closed under the global context) state for ALL lists of chunks '
          '(non-empty payloads, size spelled in hex with any case and leading zeros, extensions without CRLF), any '
          'bytes after the last-chunk line, every buffer size not smaller than the longest size line and EVERY read '
          'fragmentation: the decoder returns exactly the concatenated payloads and leaves the stream right after the '
          'last-chunk line; every strict prefix that lacks the complete last-chunk line is rejected; chunk data not '
          'followed by CRLF is rejected; every byte string whatsoever yields acceptance or a parsing error (never '
          'out of fuel, no other outcome).  The model (coq/model/Chunked.v, lib/PyIntHex.v) is tied to /repo on every '
          'run by a differential correspondence on _body_read(chunked=True), Ombott.__call__ and int(b.strip(),16).'),
    note=('Trusted: Coq kernel + vm_compute; extraction (ExtrOcamlBasic only); the Python harness; the stream model. '
          'Modelled not verified: CPython int(bytes,16) and bytes.strip (lib/PyIntHex.v), the OS temporary file.'),
    technique='Coq proof (closed-form loop invariants for all read schedules, hex round trip) + model/implementation '
              'correspondence',
    design_ref='DESIGN.md section 4, C05',
)


# --------------------------------------------------------------------------
# audit (round 4): what of the anchored code can influence the observation, and which case kind exercises it
# --------------------------------------------------------------------------
API_SURFACE = [
    ('_iter_chunked(read, buff_size)', 'covered by dec/func and dec/wsgi (every line, VERIF_COVERAGE: 38/38)'),
    ('_body_read(read, buff_size, *, chunked)', 'covered by dec/func'),
    ('_body_read(..., content_length=)', 'covered by dec/wsgi+CL (ignored under chunked: C05_chunked_overrides_content_length) '
                                         'and not-chunked cases'),
    ('_body_read(..., max_body_size=)', 'covered by corpus maxb cases and kind=seq (413 between 400s); C13 owns the limit'),
    ('_body_read(..., markup=)', 'covered by dec/wsgi+ctype mp/mp_q (every part is fed to MultipartMarkup.parse); the markup '
                                 'itself is C06/C07'),
    ('BodyMixin.chunked', "covered by dec/wsgi te alphabets (case, substring, latin-1 neighbours, blanks, absent); excluded: code "
                          "points above U+00FF (U+212A KELVIN SIGN lower-cases to 'k'; not a WSGI header value, PEP 3333)"),
    ('BodyMixin.content_length', 'covered by dec/wsgi cl spellings int() accepts (blanks, sign, zero, underscore, NBSP, empty, '
                                 'negative); spellings it rejects: KNOWN FINDING C05-content-length-not-int; excluded: decimal '
                                 'digits above U+00FF (not latin-1)'),
    ('BodyMixin.body', 'covered by every dec/wsgi case: read, read again through the property (rewound), earlier partial read'),
    ('BodyMixin._body (cache in environ, wsgi.input replaced)', "covered by pre ops 'second' (second Request over the environ), "
                                                                "'copy_after' (copy shares the buffered body) and the no-further-read check"),
    ('Request.copy() before the body is read', 'covered by pre op copy (observed through the copy only); excluded: reading through '
                                               'the copy AND the original — copy() is shallow, both share one unread stream '
                                               '(same as bottle), the second reader finds it consumed'),
    ('config debug + error page flavour (HTML default / JSON via Accept)', 'covered by debug / accept on reject cases: the status '
                                                                           'class must stay 4xx'),
    ('Request.__setitem__ (CONTENT_TYPE, CONTENT_LENGTH, HTTP_*, QUERY_STRING) between two body accesses', 'covered by pre ops '
     'set_*: same body after the rewrite; after a FAILED read the next access fails the same way and reads nothing (F43); '
     "excluded: rewriting 'wsgi.input' itself — that replaces the body by design"),
    ('environ REQUEST_METHOD', 'covered by verb (GET HEAD OPTIONS TRACE DELETE PUT PATCH, lower / mixed case) on legal and malformed cases'),
    ('environ CONTENT_TYPE', 'covered by ctype None/text/json/multipart/Multipart/empty boundary/boundary with ;  — the body '
                             'bytes do not depend on it; excluded: boundary containing CR (InvalidBoundaryError -> 400, C12)'),
    ("environ['wsgi.input'] missing", 'excluded: not a valid WSGI environ (KeyError)'),
    ('wsgi.input.read short reads / early EOF', 'covered by every case (FragStream schedules: full, 1-byte, random)'),
    ('BaseRequest._raise + config.errors_map', 'covered by dec/wsgi reject cases under conf ctor/setup/setup_over/setup_default'),
    ('Ombott.__init__(config) / Ombott.setup(config) / setup()', 'covered by conf ctor / setup / setup_over / setup_default'),
    ('DefaultConfig(src, **kw) / SimpleConfig.get_from: source mapping + keyword fall-backs', 'covered by conf kw / kw_split / '
                                                                                               'kw_setup / kw_only'),
    ('config max_memfile_size', 'covered (buffer = longest line + {0,1,7,64}, smaller, 100 KiB default)'),
    ('config max_body_size', 'covered by corpus + kind=seq; C13'),
    ('config errors_map supplied by the application', 'covered by emap cases (only RequestError / only BodyParsingError / only '
                                                      'BodySizeError / foreign classes / empty; ctor and setup): _raise is in '
                                                      'the model (wsgi_body, C05_truncation_mapped_by_family)'),
    ('size lines longer than 64 bytes', 'covered: 12% of the encodings (long extensions, long runs of zeros, 65..300 bytes)'),
    ('one application / Request object serving many requests, shared HTTPError instances', 'covered by kind=seq '
                                                                                            '(C05_response_function_of_request)'),
    ('two applications alive at once', 'covered by kind=seq (apps with different limits interleaved); process-wide isolation is C10'),
    ('threads', 'excluded: C08'),
]

# --------------------------------------------------------------------------
# dev-only: line coverage of the anchored functions  (VERIF_COVERAGE=1 ./check C05 --no-coq)
# --------------------------------------------------------------------------
COVERAGE_TARGETS = {
    'ombott/request_pkg/body_mixin.py': ['_iter_chunked', '_body_read', 'BodyMixin._body', 'BodyMixin.body',
                                         'BodyMixin.content_length', 'BodyMixin.chunked'],
    'ombott/request_pkg/request.py': ['BaseRequest._raise', 'BaseRequest.setup', 'BaseRequest.__new__'],
    'ombott/ombott.py': ['Ombott.setup', 'Ombott.__init__'],
}
from props.bodyA_cov import traced  # noqa: E402
run_impl = traced(ID, run_impl, COVERAGE_TARGETS)
