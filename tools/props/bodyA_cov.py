"""Dev-only line coverage of a property's anchored functions (cluster bodyA).

    VERIF_COVERAGE=1 ./check Cxx --no-coq

`traced(run_impl, TARGETS)` wraps a module's run_impl: while it runs, sys.settrace
records the executed lines of the named functions only.  At exit the lines of
those functions that no case reached are printed on stderr and the whole report
is written to /tmp/verif_cov_<ID>.json.  TARGETS = {relative file: [qualified
function names]}, e.g. {'ombott/request_pkg/body_mixin.py': ['_iter_chunked',
'BodyMixin._body']}.  Nothing here runs unless VERIF_COVERAGE is set."""
import ast
import atexit
import json
import os
import sys


def _func_nodes(tree):
    out = {}

    def walk(node, prefix):
        for ch in ast.iter_child_nodes(node):
            if isinstance(ch, (ast.FunctionDef, ast.AsyncFunctionDef)):
                out[prefix + ch.name] = ch
                walk(ch, prefix + ch.name + '.')
            elif isinstance(ch, ast.ClassDef):
                walk(ch, prefix + ch.name + '.')
    walk(tree, '')
    return out


def _code_lines(code):
    lines = set(ln for _, _, ln in code.co_lines() if ln is not None)
    for c in code.co_consts:
        if hasattr(c, 'co_lines'):
            pass            # nested functions are separate targets
    return lines


def _find_code(module_code, name, lo, hi):
    """the code object of function `name` whose first line lies in [lo, hi]"""
    stack = [module_code]
    while stack:
        c = stack.pop()
        for k in c.co_consts:
            if hasattr(k, 'co_lines'):
                if k.co_name == name and lo <= k.co_firstlineno <= hi:
                    return k
                stack.append(k)
    return None


class Coverage:
    def __init__(self, pid, repo, targets):
        self.pid = pid
        self.want = {}          # (file, lineno) -> qualified function
        self.keys = {}          # (realpath, co_name) -> [(lo, hi)]
        self.hit = set()
        self.src = {}
        for rel, names in targets.items():
            path = os.path.realpath(os.path.join(repo, rel))
            text = open(path).read()
            self.src[path] = text.split('\n')
            tree = ast.parse(text)
            mod = compile(text, path, 'exec')
            nodes = _func_nodes(tree)
            for q in names:
                node = nodes[q]
                lo = min([node.lineno] + [d.lineno for d in node.decorator_list])
                hi = node.end_lineno
                code = _find_code(mod, node.name, lo, hi)
                body_lo = node.body[0].lineno
                for ln in _code_lines(code):
                    # the def/decorator lines and a leading docstring are not behaviour
                    if ln < body_lo:
                        continue
                    first = node.body[0]
                    if isinstance(first, ast.Expr) and isinstance(getattr(first, 'value', None), ast.Constant) \
                            and isinstance(first.value.value, str) and first.lineno <= ln <= first.end_lineno:
                        continue
                    self.want[(path, ln)] = q
                self.keys.setdefault((path, node.name), []).append((lo, hi))

    def _local(self, frame, event, arg):
        if event == 'line':
            self.hit.add((self._path, frame.f_lineno))
        return self._local

    def tracer(self, frame, event, arg):
        if event != 'call':
            return None
        co = frame.f_code
        fn = co.co_filename
        rp = self._rp.get(fn)
        if rp is None:
            rp = self._rp[fn] = os.path.realpath(fn)
        rng = self.keys.get((rp, co.co_name))
        if not rng:
            return None
        if not any(lo <= co.co_firstlineno <= hi for lo, hi in rng):
            return None

        def local(fr, ev, a, _p=rp):
            if ev == 'line':
                self.hit.add((_p, fr.f_lineno))
            return local
        self.hit.add((rp, frame.f_lineno))
        return local

    _rp = {}

    def report(self):
        total = len(self.want)
        reached = len([k for k in self.want if k in self.hit])
        missing = sorted(k for k in self.want if k not in self.hit)
        per = {}
        for k, q in self.want.items():
            a = per.setdefault(q, [0, 0])
            a[1] += 1
            a[0] += k in self.hit
        sys.stderr.write('COVERAGE %s: %d/%d lines of the anchored functions reached\n' % (self.pid, reached, total))
        for q, (h, t) in sorted(per.items()):
            sys.stderr.write('   %-34s %d/%d\n' % (q, h, t))
        for path, ln in missing:
            sys.stderr.write('   UNREACHED %s:%d [%s]: %s\n' % (os.path.basename(path), ln, self.want[(path, ln)],
                                                              self.src[path][ln - 1].strip()))
        with open('/tmp/verif_cov_%s.json' % self.pid, 'w') as f:
            json.dump(dict(property=self.pid, reached=reached, total=total,
                           per_function={q: v for q, v in per.items()},
                           unreached=[[os.path.basename(p), ln, self.want[(p, ln)], self.src[p][ln - 1].strip()]
                                      for p, ln in missing]), f, indent=1)


def traced(pid, run_impl, targets):
    if os.environ.get('VERIF_COVERAGE') != '1':
        return run_impl
    repo = os.environ.get('VERIF_REPO', '/repo')
    cov = Coverage(pid, repo, targets)
    atexit.register(cov.report)

    def wrapper(case):
        old = sys.gettrace()
        sys.settrace(cov.tracer)
        try:
            return run_impl(case)
        finally:
            sys.settrace(old)
    return wrapper
