"""C10 — application objects in one process are independent of each other."""
import json

from props import sched

sched.cov_register(__name__.split('.')[-1])      # dev-only: VERIF_COVERAGE=1

ID = 'C10'
COQ_MODEL = 'model.TsProps'
COQ_CORR = 'corr_C10'
N_QUICK = 850
N_THOROUGH = 6000
THOROUGH_EXHAUSTIVE = False
VM_CASES = 30
RULE = ('two kinds of cases. (ops) sequences of 4..45 commands over 2..3 Request and 2..3 Response objects on 1..3 real '
        'threads handed a baton one command at a time (__init__, attribute get/set/del on every thread-local '
        'property, headers.dict get/set, header item writes, environ reads/writes, Request.copy(), Response(), '
        'commands on objects whose __init__ has not run), compared command by command with the model; '
        '(arr) arrangements of 2..3 real applications, optionally including the module-level default app, serving '
        'real WSGI calls whose scripted handlers nest calls into other applications, copy the request, build '
        'applications while serving, set headers/status/cookies, on 1..3 threads under the controlled scheduler '
        '(0..3 pre-emptions at sys.settrace line steps); every look at app.request/app.response is recorded next '
        'to what that call\'s own request/response holds. non-trivial = (ops) two objects of one class are '
        'initialised and one of them is read after the other was initialised or written; (arr) at least two '
        'applications take part in one thread\'s call tree, or two threads run. distinct by the full case')
TRUSTED = ['NOT in the model (oracle-level only): state of ombott that is process-wide and not kept in a ts_props store — '
           'the class-level pre-built responses of DefaultConfig.errors_map, the module-level status-line table, the '
           'filter cache; the arrangements compare every application with a baseline served in a forked child of a '
           'process that has only imported ombott, and check absolute expectations (headers seen by @error handlers, '
           'status lines of unlisted codes)',
           'modelled, not verified: CPython threading.local (an attribute set by a thread exists for that thread only), '
           'slot descriptors, property/__getattr__ fallback order, dict insertion order — tied by the correspondence only',
           'the model treats dicts created by a thread as private to it (a dict reference cannot travel between threads '
           'inside the model); the harness names every dict after the first thread that sees it, so a shared dict shows '
           'up as a disagreement',
           'tools/props/sched.py: baton hand-over between real threads; sys.settrace line events as pre-emption points']
ASSUMPTIONS = ['each command / each line step runs to completion while its thread holds the baton (no pre-emption '
               'inside one attribute access: GIL, bytecode atomicity of getattr/setattr on threading.local)',
               'an object is initialised for the first time by the thread that constructs it, before any other thread '
               'can reach it (the constructor call includes __init__)']


# ---------------------------------------------------------------------------
# cases
# ---------------------------------------------------------------------------

# tools/check.py: a case cut off by its wall-clock limit is judged by oracle() here (sched.judge re-runs it with
# generous limits and reports a hang only when that is inconclusive again), not by the generic rule
JUDGES_HANG = True

def _ops(cmds):
    return dict(kind='ops', cmds=cmds)


def _call(app, tok, script, **kw):
    d = dict(app=app, tok=tok, qs='q=%sq' % tok, script=script)
    d.update(kw)
    return d


def _arr(napps, calls, default=False, start=0, switches=()):
    return dict(kind='arr', napps=napps, default=default, calls=calls, start=start,
                switches=[list(s) for s in switches])


# applications built, given routes and used on several threads at once: every single pre-emption is tried on every run
BUILD_SCENARIOS = [
    dict(napps=1, default=False, calls=[dict(construct=True, routes=True, tok='N0'), dict(construct=True, routes=True, tok='N1')]),
]


def corpus():
    S, I = (lambda s: ['s', s]), (lambda i: ['i', i])
    nested = _call(1, 'tB', [['see'], ['hdr', 'X-B', 'tBh'], ['see']])
    out = [
        # the F13 witness: Init A; Set A x 1; Init B; Get A x
        _ops([[0, 'init_req', 0, S('/a')], [0, 'set', 0, 0, 1, I(1)], [0, 'init_req', 1, S('/b')], [0, 'get', 0, 0, 1]]),
        _ops([[0, 'new_resp', 0], [0, 'set', 1, 0, 4, I(1)], [0, 'new_resp', 1], [0, 'get', 1, 0, 4]]),
        _ops([[0, 'init_req', 0, S('/a')], [0, 'init_req', 1, S('/b')], [0, 'env_get', 0, 0], [0, 'req_get', 0, 0],
              [0, 'env_get', 1, 0]]),
        # copy does not redirect the original
        _ops([[0, 'init_req', 0, S('/a')], [0, 'copy', 0, 1], [0, 'env_set', 1, 0, S('/hijack')], [0, 'env_get', 0, 0],
              [0, 'env_get', 1, 0], [0, 'attr_items', 0, 1, 0]]),
        # two objects on two threads
        _ops([[0, 'init_req', 0, S('/a')], [0, 'new_resp', 0], [0, 'init_req', 1, S('/b')], [0, 'new_resp', 1],
              [1, 'init_req', 0, S('/a1')], [1, 'init_resp', 0], [2, 'init_req', 1, S('/b2')], [2, 'init_resp', 1],
              [1, 'hdr_set', 0, 4, S('one')], [2, 'hdr_set', 1, 4, S('two')], [1, 'env_get', 0, 0],
              [2, 'env_get', 1, 0], [1, 'hdr_items', 0], [2, 'hdr_items', 1], [0, 'env_get', 0, 0], [0, 'hdr_items', 0]]),
        # objects whose __init__ never ran
        _ops([[0, 'get', 0, 0, 0], [0, 'set', 0, 0, 1, I(3)], [0, 'get', 1, 0, 1], [0, 'set', 1, 0, 1, I(3)],
              [0, 'hget', 0], [0, 'init_resp', 0], [0, 'get', 1, 0, 2], [0, 'init_req', 1, S('/x')], [0, 'get', 0, 0, 0]]),
        # headers.dict follows _headers only through __init__
        _ops([[0, 'new_resp', 0], [0, 'set', 1, 0, 2, ['f']], [0, 'hdr_set', 0, 4, S('v')], [0, 'attr_items', 1, 0, 2],
              [0, 'hset_headers', 0], [0, 'hdr_set', 0, 5, S('w')], [0, 'attr_items', 1, 0, 2], [0, 'hdr_items', 0]]),
        # Response() run again on a shared object wipes the other thread's header dict
        _ops([[0, 'new_resp', 0], [1, 'init_resp', 0], [1, 'hget', 0], [0, 'new_resp', 0], [1, 'hget', 0], [1, 'get', 1, 0, 2]]),
        # arrangements (each one a way in which F13 showed)
        _arr(2, [_call(0, 'tA', [['see'], ['call', nested], ['see']])]),
        _arr(2, [_call(0, 'tA', [['see'], ['call', nested], ['see']])], default=True),
        _arr(1, [_call(0, 'tA', [['see'], ['copy'], ['see']])]),
        _arr(1, [_call(0, 'tA', [['see'], ['new_app'], ['see'], ['hdr', 'X-A', 'tAh'], ['see']])]),
        _arr(2, [_call(0, 'tA', [['see'], ['hdr', 'X-A', 'tAh'], ['see']]),
                 _call(1, 'tC', [['see'], ['status', 201], ['see']])], start=0, switches=[[500, 1]]),
        _arr(2, [_call(0, 'tA', [['see'], ['see']]), dict(construct=True)], start=0, switches=[[600, 1]]),
        # a front application hands a copy of its request to a backend; the environ carries the read-only flag
        _arr(2, [_call(0, 'tA', [['see'], ['call_copy', 1, [['see'], ['hdr', 'X-B', 'tAcch']]], ['see']], readonly=True)]),
        _arr(2, [_call(1, 'tA', [['see'], ['call_copy', 0, [['see']]], ['see'], ['copy'], ['see']])], default=True),
        # state that is process-wide and not thread-local must not carry anything from one application to another:
        # (a) the pre-built 400 of errors_map (class-level, shared by every application): A answers a JSON client,
        #     then B's @error(400) handler looks at B.response.headers
        dict(_arr(2, [_call(0, 'tA', [['body_read']], method='POST', form='{"tA": bad', json_bad=True,
                            accept='application/json'),
                      _call(1, 'tC', [['see'], ['body_read']], method='POST', form='{"tC": bad', json_bad=True,
                            pad='zzzzzz')], start=0, switches=[]), max_body=30),
        dict(_arr(2, [_call(0, 'tA', [['call', _call(1, 'tB', [['body_read']], method='POST', form='f=tBf' + 'y' * 40,
                                                       too_big=True, accept='application/json')],
                                      ['see'], ['body_read']], method='POST', form='f=tAf' + 'y' * 40, too_big=True)]),
             max_body=30),
        # (b) status lines: a custom phrase for a code no table lists, then the bare number in another application
        _arr(2, [_call(0, 'tA', [['status', '797 Tea Break'], ['see'],
                                 ['call', _call(1, 'tB', [['status', 797], ['see']])], ['see']])]),
        _arr(2, [_call(1, 'tA', [['status', '796 Tea Break'], ['see']]), _call(0, 'tC', [['status', 796], ['see']])],
             default=True, start=0, switches=[]),
        _arr(2, [_call(0, 'tA', [['status', 599], ['see'], ['call', _call(1, 'tB', [['status', '599 Custom'], ['see']])],
                                 ['status', 599], ['see']])]),
        # copies of a response with a header given twice, built without and with a class, and redirect() after it:
        # compared with the same call served alone only (what copy() does there is an observation, DESIGN 0.6)
        _arr(2, [_call(0, 'tA', [['hdr_append', 'X-C', 'tAc1'], ['hdr_append', 'X-C', 'tAc2'], ['cookie', 'k', 'tAk'],
                                 ['resp_copy'], ['see'], ['resp_copy', 'http'], ['see'], ['redirect', '?to=tA']])], default=True),
        # the same signed cookie (mutable payload, shared secret) decoded by two applications: each changes its own value
        _arr(2, [_call(0, 'tA', [['sess_mutate'], ['call', _call(1, 'tB', [['sess_mutate'], ['see']], signed=True)], ['see']],
                       signed=True)]),
        _arr(2, [_call(0, 'tA', [['sess_mutate'], ['see']], signed=True), _call(1, 'tC', [['sess_mutate'], ['see']], signed=True)],
             default=True, start=0, switches=[]),
        # listeners and the stock cache invalidation belong to ONE request object: another application's changes are
        # not heard, and taking the stock listener off a copy leaves everybody's invalidation in place
        _arr(2, [_call(0, 'tA', [['listen_around', [['call', _call(1, 'tB', [['req_set', 'QUERY_STRING', 'n=tBn'], ['see'],
                                                                             ['req_del']])], ['see']]], ['see']])]),
        _arr(2, [_call(0, 'tA', [['copy_off'], ['call', _call(1, 'tB', [['req_set', 'QUERY_STRING', 'n=tBn'], ['see']])],
                                 ['req_set', 'QUERY_STRING', 'n=tAn'], ['see']])], default=True),
        # (c) a request whose body was read is copied and forwarded; the other application's hook replaces the input of
        #     ITS request; the first application reads its body and forms again
        _arr(2, [_call(0, 'tA', [['form_see'], ['call_copy', 1, [['see']], {'hook_input': True}], ['see'], ['form_see']],
                       method='POST', form='f=tAf&g=tAg')]),
        _arr(2, [_call(1, 'tA', [['body_read'], ['call_copy', 0, [], {'hook_input': True}], ['body_read'], ['see']],
                       method='POST', form='f=tAf')], default=True),
        # (d) an application built with its own configuration (before, or while another one serves) leaves the
        #     error answers and limits of the others alone
        dict(_arr(2, [_call(0, 'tA', [['see'], ['new_app', 'errors_map422'], ['see'],
                                      ['call', _call(1, 'tB', [['body_read']], method='POST', form='{"tB": bad',
                                                     json_bad=True)], ['see'], ['body_read']],
                            method='POST', form='["tA"]', json_nonobj=True, accept='application/json')]), max_body=30),
        dict(_arr(2, [dict(construct=True, cfg='errors_map_size'),
                      _call(1, 'tC', [['see'], ['body_read']], method='POST', form='f=tCf' + 'y' * 40, too_big=True)],
                  default=True, start=0, switches=[]), max_body=30),
        dict(_arr(2, [dict(construct=True, cfg='max_body5'),
                      _call(0, 'tC', [['form_see'], ['see']], method='POST', form='f=tCf&g=tCg')],
                  start=0, switches=[]), max_body=30),
        # the API of the shared objects used from nested applications: every application keeps its own view
        _arr(2, [_call(0, 'tA', [['hdr_append', 'X-A', 'tAa1'], ['ext'], ['req_set', 'QUERY_STRING', 'n=tAn'], ['see'],
                                 ['call', _call(1, 'tB', [['hdr_append', 'X-A', 'tBa'], ['ext'], ['hdr_clear'],
                                                          ['req_set', 'HTTP_COOKIE', 'c2=tBc2'], ['see'], ['ret', 'resp_obj']])],
                                 ['see'], ['hdr_append', 'X-A', 'tAa2'], ['hdr_copy'], ['listen'], ['see']],
                       cookie='c=tAc')], default=True),
        _arr(2, [_call(1, 'tA', [['see'], ['new_app', 'errors_map422', 'setup'], ['see'],
                                 ['call', _call(0, 'tB', [], route='nope404')], ['see'],
                                 ['call', _call(0, 'tD', [['see']], method='HEAD')], ['ret', 'gen_bytes']])]),
        # two applications are built and given routes on two threads (F40: the rule parser was one per process)
        _arr(2, [dict(construct=True, routes=True, tok='N0'), dict(construct=True, routes=True, tok='N1'),
                 _call(0, 'tE', [['see'], ['new_app', 'routes'], ['see']])], start=0, switches=[[262, 1], [400, 2]]),
        dict(kind='batch', build=0, preempt=1),
        # static_file() in a nested application while the outer (default) application's request is conditional
        _arr(2, [_call(0, 'tA', [['see'], ['call', _call(1, 'tB', [['ret', 'static']])], ['see']], conditional=True)],
             default=True),
        _arr(2, [_call(0, 'tA', [['ret', 'static']])], default=True),
        # witness of the listed finding C10-listeners-shared: two threads on the SAME application (another application's
        # changes are never heard: see the listen_around cases above)
        _arr(2, [_call(1, 'tA', [['listen_around', [['yield_to', 1], ['see']]]]), _call(1, 'tC', [['req_set', 'HTTP_X_T', 'tCxt'], ['req_del']])],
             start=0, switches=[]),
        # an application configured from another one's config namespace (constructor / setup, same thread / other thread)
        # whose options are then changed in place: the first one keeps its options and its body limit
        dict(_arr(2, [_call(0, 'tA', [['see'], ['new_app_from', 'ctor'], ['see'], ['form_see'], ['new_app_from', 'setup'],
                                      ['see'], ['form_see']], method='POST', form='f=tAf&g=tAg')]), max_body=30),
        dict(_arr(2, [_call(1, 'tA', [['see'], ['form_see'], ['see']], method='POST', form='f=tAf&g=tAg'),
                      dict(construct=True, from_app=1, mode='setup')], default=True, start=1, switches=[]), max_body=30),
        # filtered wildcards and the rule without wildcards in nested applications
        _arr(2, [_call(0, 'tA', [['see'], ['call', _call(1, 'tB', [['see'], ['args_write'], ['see']], route='static', inject=True)],
                                 ['see'], ['args_write'], ['see']], route='static')]),
        _arr(2, [_call(0, 'tA', [['call', _call(1, 'tB', [['see']], route='rex')], ['see']], route='rex', inject=True)],
             default=True),
        # the cached header view belongs to the request that built it: a copy / a forwarded copy whose headers change
        # leaves the original's view alone
        _arr(2, [_call(0, 'tA', [['see'], ['copy'], ['see'], ['call_copy', 1, [['req_set', 'HTTP_X_T', 'tAccxt'], ['see']]],
                                 ['see'], ['ext'], ['see']], xt='tAxt0', cookie='c=tAc')]),
        dict(_arr(2, [_call(1, 'tA', [['ext'], ['see'], ['call', _call(0, 'tB', [['see'], ['ext'], ['see']], xt='tBxt0')], ['see']])],
             default=True), ctx_copy=True),
        # user attributes set before a copy is made / forwarded, and set again on the copy and by the other application
        _arr(2, [_call(0, 'tA', [['ext'], ['see'], ['copy'], ['see'], ['call_copy', 1, [['ext'], ['see']]], ['see']])]),
        # a cookie on the default application's response, then a nested application redirects and re-sets / deletes
        # that cookie on the redirect response (a copy): the outer response keeps its own cookie
        _arr(2, [_call(0, 'tA', [['cookie', 'sid', 'tAsid'], ['see'],
                                 ['call', _call(1, 'tB', [['redirect_cookie', '?to=tB', 'sid', 'set']])], ['see']])], default=True),
        _arr(2, [_call(0, 'tA', [['cookie', 'sid', 'tAsid'],
                                 ['call', _call(1, 'tB', [['redirect_cookie', '?to=tB', 'sid', 'delete']])], ['see']])], default=True),
        # redirect() works for the default application ...
        _arr(2, [_call(0, 'tA', [['see'], ['redirect', '?to=tA']])], default=True),
        # ... and (finding C10-redirect-default-app) reads the default application's request from any other one
        _arr(2, [_call(0, 'tA', [['see'], ['call', _call(1, 'tB', [['redirect', '?to=tB']])], ['see']])], default=True),
        _arr(3, [_call(1, 'tA', [['call', _call(2, 'tB', [['call', _call(0, 'tD', [['see']])], ['see']])], ['see'],
                                 ['form_see']], method='POST', form='f=tAf', cookie='c=tAc')], default=True),
    ]
    return out


_VALS = [['n'], ['i', 0], ['i', 1], ['i', 7], ['i', 1234], ['s', ''], ['s', '/a'], ['s', '/b/c'], ['s', 'x'], ['f']]


def _gen_ops(rng, malformed):
    nthreads = rng.choice([1, 1, 2, 2, 3])
    nreq = rng.choice([2, 2, 3])
    nresp = rng.choice([2, 2, 3])
    cmds = []
    if not malformed:
        for n in range(nreq):
            if rng.random() < 0.85:
                cmds.append([0, 'init_req', n, ['s', '/p%d' % n]])
        for n in range(nresp):
            if rng.random() < 0.85:
                cmds.append([0, 'new_resp', n])
    L = rng.randrange(4, 40)
    while len(cmds) < L:
        t = rng.randrange(nthreads)
        r = rng.random()
        v = rng.choice(_VALS)
        sv = ['s', rng.choice(['a', 'b', 'long value', ''])]
        if r < 0.10:
            cmds.append([t, 'init_req', rng.randrange(nreq), rng.choice([['s', '/q%d' % rng.randrange(5)], v])])
        elif r < 0.13:
            cmds.append([t, 'init_req0', rng.randrange(nreq)])
        elif r < 0.20:
            cmds.append([t, 'init_resp', rng.randrange(nresp)])
        elif r < 0.23:
            cmds.append([t, 'new_resp', rng.randrange(nresp + (1 if rng.random() < 0.3 else 0))])
        elif r < 0.40:
            c = rng.randrange(2)
            cmds.append([t, 'get', c, rng.randrange(nreq if c == 0 else nresp), rng.randrange(2 if c == 0 else 5)])
        elif r < 0.55:
            c = rng.randrange(2)
            cmds.append([t, 'set', c, rng.randrange(nreq if c == 0 else nresp), rng.randrange(2 if c == 0 else 5), v])
        elif r < 0.58:
            c = rng.randrange(2)
            cmds.append([t, 'del', c, rng.randrange(nreq if c == 0 else nresp), rng.randrange(2 if c == 0 else 5)])
        elif r < 0.62:
            cmds.append([t, 'hget', rng.randrange(nresp)])
        elif r < 0.64:
            cmds.append([t, rng.choice(['hset_fresh', 'hset_headers']), rng.randrange(nresp)])
        elif r < 0.72:
            cmds.append([t, 'hdr_set', rng.randrange(nresp), rng.randrange(3, 7), sv])
        elif r < 0.77:
            cmds.append([t, 'hdr_items', rng.randrange(nresp)])
        elif r < 0.82:
            c = rng.randrange(2)
            cmds.append([t, 'attr_items', c, rng.randrange(nreq if c == 0 else nresp), 0 if c == 0 else 2])
        elif r < 0.88:
            cmds.append([t, rng.choice(['env_get', 'req_get']), rng.randrange(nreq), rng.choice([0, 0, 1, 2, 7])])
        elif r < 0.93:
            cmds.append([t, 'env_set', rng.randrange(nreq), rng.choice([0, 1, 7]), v])
        else:
            cmds.append([t, 'copy', rng.randrange(nreq), rng.randrange(nreq + 1)])
    return _ops(cmds)


CFG_KINDS = ['errors_map422', 'errors_map_size', 'max_body5', 'memfile7']
UNLISTED = [299, 599, 797, 798, 796, 720, 731, 742, 753, 764]


def _body_kw(rng, tok, app, default):
    """a request whose body cannot be read: answered from the process-wide pre-built 400 / 413 of errors_map"""
    kind = rng.choice(['chunked_bad', 'json_bad', 'too_big'])
    if kind == 'too_big' and default and app == 0:
        kind = 'chunked_bad'          # the default application is built by ombott itself, without a body limit
    # (a malformed JSON body stays below the body limit of 30 bytes, the other two go over it)
    kw = dict(method='POST', form='{"%s": bad' % tok if kind == 'json_bad' else 'f=%sf' % tok + 'y' * 40,
              pad='z' * rng.choice([0, 2, 9]))
    kw[kind] = True
    if rng.random() < 0.5:
        kw['accept'] = 'application/json'
    return kw


def _end_in_body_error(script):
    while script and script[-1][0] in ('abort', 'boom', 'gen', 'redirect', 'redirect_cookie', 'see', 'ret', 'bad_status'):
        script = script[:-1]
    return [a for a in script if a[0] != 'form_see'] + [['body_read']]


def _gen_script(rng, tok, napps, depth, counter, busy=(), default=False):
    """`busy` = applications already serving on this thread's call stack: a handler never calls back into one of
    them (a re-entrant call re-initialises that application's request for this thread — one cell per application
    and thread — which is not what C10 is about)"""
    script = []
    free = [j for j in range(napps) if j not in busy]
    for _ in range(rng.randrange(1, 6)):
        r = rng.random()
        if r < 0.3:
            script.append(['see'])
        elif r < 0.45:
            script.append(['hdr', rng.choice(['X-A', 'X-B', 'X-C']), tok + 'h%d' % rng.randrange(3)])
        elif r < 0.5:
            code = rng.choice([201, 202, 404, 418] + UNLISTED)
            script.append(['status', code if rng.random() < 0.6 else '%d %s phrase' % (code, tok)])
        elif r < 0.56:
            script.append(['cookie', rng.choice(['k', 'm']), tok + 'k'])
        elif r < 0.76 and depth < 2 and free:
            counter[0] += 1
            sub = tok + 'n%d' % counter[0]
            j = rng.choice(free)
            sub_script = _gen_script(rng, sub, napps, depth + 1, counter, tuple(busy) + (j,), default)
            kw = {}
            if rng.random() < 0.25:
                kw = _body_kw(rng, sub, j, default)
                sub_script = _end_in_body_error(sub_script)
            elif rng.random() < 0.3:
                kw = dict(signed=True)
                sub_script.insert(rng.randrange(len(sub_script)), ['sess_mutate'])
            if not kw and rng.random() < 0.15:
                # the outer response has a cookie; the nested handler redirects and re-sets / deletes that cookie on
                # the redirect response it raises
                script.append(['cookie', 'sid', tok + 'sid'])
                sub_script = [a for a in sub_script if a[0] not in ('abort', 'boom', 'gen', 'redirect', 'ret', 'bad_status')]
                sub_script.append(['redirect_cookie', '?to=' + sub, 'sid', rng.choice(['set', 'delete'])])
            nested = ['call', _call(j, sub, sub_script, **kw)]
            if rng.random() < 0.3:
                # this application's listener stays registered while the other application serves and changes ITS environ
                nested[1]['script'] = [['req_set', 'HTTP_X_T', sub + 'xt']] + nested[1]['script']
                script.append(['listen_around', [nested, ['see']]])
            else:
                script.append(nested)
            script.append(['see'])
        elif r < 0.80 and depth < 2 and free:
            # a copy of this request handed to another application (nested call on the copy's environ)
            j = rng.choice(free)
            if rng.random() < 0.6:
                script.append(['form_see'])       # this request's body is read (and buffered) before it is copied
            cc = ['call_copy', j, [['see']] * rng.randrange(0, 2) + [['hdr', 'X-B', tok + 'cch']] * rng.randrange(0, 2)]
            if rng.random() < 0.5:
                # the other application changes a header of the request IT serves (the forwarded copy)
                cc[2] = [['req_set', 'HTTP_X_T', tok + 'ccxt'], ['see']] + cc[2]
            if rng.random() < 0.6:
                # user attributes: set here before the copy is made, set again by the application that serves the copy
                script.append(['ext'])
                cc[2] = cc[2] + [['ext'], ['see']]
            if rng.random() < 0.5:
                cc.append({'hook_input': True})   # the other application's hook gives ITS request a new input stream
            script.append(cc)
            script.append(['see'])
            if rng.random() < 0.7:
                script.append(['form_see'])
        elif r < 0.86:
            script.append(['copy'])
            script.append(['see'])
        elif r < 0.91:
            na = ['new_app'] + ([rng.choice(CFG_KINDS + ['routes', 'routes'])] if rng.random() < 0.7 else [])
            if len(na) == 2 and na[1] != 'routes' and rng.random() < 0.4:
                na.append('setup')                # configured through Ombott.setup() after construction
            script.append(na)
            script.append(['see'])
        elif r < 0.94:
            # another application configured from THIS one's config namespace, then changed in place
            script.append(['new_app_from', rng.choice(['ctor', 'setup'])])
            script.append(['see'])
            if rng.random() < 0.5:
                script.append(['form_see'])
        elif r < 0.97:
            # the mapping interfaces of response.headers / request, listeners, ext attributes
            script.extend(sched.gen_api_actions(rng, tok, True))
        else:
            script.append(['form_see'])
    r = rng.random()
    if r < 0.12:
        script.append(sched.gen_terminal(rng, tok))
    elif r < 0.20:
        script.append(['abort', rng.choice([400, 403, 404, 500])])
    elif r < 0.25:
        script.append(['boom'])
    elif r < 0.33:
        script.append(['gen', rng.randrange(1, 4)])
    elif r < 0.38:
        script.append(['redirect', '?to=' + tok])
    elif r < 0.42:
        script.append(['ret', 'static'])
    else:
        script.append(['see'])
    return script


def _gen_arr(rng):
    napps = rng.choice([2, 2, 3])
    nthreads = rng.choice([1, 1, 2, 2, 3])
    default = rng.random() < 0.5
    cfg = sorted(c for c in ('debug', 'nocatch', 'domain') if rng.random() < 0.12)
    calls = []
    for i in range(nthreads):
        if nthreads > 1 and rng.random() < 0.15:
            c = dict(construct=True, cfg=rng.choice(CFG_KINDS)) if rng.random() < 0.5 else dict(construct=True)
            if rng.random() < 0.35:
                c = dict(construct=True, from_app=rng.randrange(napps), mode=rng.choice(['ctor', 'setup']))
            if rng.random() < 0.6:
                c.update(routes=True, tok='N%d' % i)      # ... and gives it routes and uses it
            calls.append(c)
            continue
        tok = 't%s' % 'ACE'[i]
        kw = {}
        if rng.random() < 0.3:
            kw = dict(method='POST', form='f=%sf' % tok)
        if rng.random() < 0.3:
            kw['cookie'] = 'c=%sc' % tok
        if rng.random() < 0.3:
            kw['readonly'] = True         # the (legal) 'ombott.request.readonly' flag in the environ
        if rng.random() < 0.35:
            kw['xt'] = tok + 'xt0'        # a request header (read through the cached header view in every see)
        if rng.random() < 0.3:
            kw['signed'] = True           # the same signed cookie (mutable payload, shared secret) for every application
        if rng.random() < 0.25:
            kw['conditional'] = True      # If-Modified-Since / Range on this request (they matter to static_file only)
        j = rng.randrange(napps)
        script = _gen_script(rng, tok, napps, 0, [0], (j,), default)
        if kw.get('conditional') and script[-1] == ['ret', 'static']:
            script[-1] = ['see']
        if kw.get('signed'):
            script.insert(rng.randrange(len(script)), ['sess_mutate'])
        if kw.get('readonly'):
            # no input replacement / header change through the request on a read-only environ
            script = [[a[0], a[1], [b for b in a[2] if b[0] != 'req_set']] if a[0] == 'call_copy' else a for a in script]
        if rng.random() < 0.2:
            kw = _body_kw(rng, tok, j, default)
            script = _end_in_body_error(script)
        elif rng.random() < 0.2:
            # rules with filtered wildcards / without wildcards (no copy forwarded: the other application's rule differs)
            kw.update(sched.gen_wild_kind(rng))
            script = [a for a in script if a[0] != 'call_copy']
            if rng.random() < 0.5:
                script.insert(rng.randrange(len(script)), ['args_write'])
        elif rng.random() < 0.12 and not kw.get('readonly'):
            # requests the framework answers by itself (404 / 405 / 404-hook / undecodable path), HEAD, domain_map
            extra = sched.gen_call_kind(rng, cfg, default and j == 0)
            kw.update(extra)
            if extra.get('domain'):
                script = [a for a in script if a[0] not in ('call_copy', 'redirect')]
        calls.append(_call(j, tok, script, **kw))
    switches = []
    if nthreads > 1:
        for _ in range(rng.randrange(0, 4)):
            switches.append([rng.randrange(1, 1000), rng.randrange(nthreads)])
    return dict(_arr(napps, calls, default=default, start=rng.randrange(nthreads), switches=switches), max_body=30, cfg=cfg,
                ctx_copy=rng.random() < 0.25)


def gen(rng, n):
    for i in range(n):
        r = rng.random()
        if r < 0.6:
            yield _gen_ops(rng, malformed=False)
        elif r < 0.72:
            yield _gen_ops(rng, malformed=True)
        else:
            yield _gen_arr(rng)


def thorough():
    """every arrangement shape of the corpus under every single pre-emption point (stride 7), both start threads"""
    import random
    rng = random.Random('C10/thorough')
    for _ in range(40):
        base = _gen_arr(rng)
        if len(base['calls']) < 2:
            continue
        for pm in range(10, 1000, 45):
            for to in range(len(base['calls'])):
                for start in range(len(base['calls'])):
                    yield dict(base, start=start, switches=[[pm, to], [rng.randrange(1, 1000), start]])


# ---------------------------------------------------------------------------
# implementation, model, comparison
# ---------------------------------------------------------------------------

def _static_tie():
    """the attribute tables of the model are the decorator arguments of the code"""
    from ombott import Request, Response
    got = [sorted(sched.ts_props_of(Request)), sorted(sched.ts_props_of(Response))]
    return got == [sorted(sched.REQ_ATTRS), sorted(sched.RESP_ATTRS)], got


def _run_impl(case):
    ok, got = _static_tie()
    if not ok:
        return dict(kind=case['kind'], tie='ts_props names differ from the model: %s' % got)
    if case['kind'] == 'ops':
        return dict(kind='ops', outs=sched.run_ops(case['cmds']))
    if case['kind'] == 'batch':
        return sched.run_batch(case, dict(kind='arr', **BUILD_SCENARIOS[case['build']]))
    obs = sched.run_arrangement(case)
    obs['kind'] = 'arr'
    return obs


def run_impl(case):
    obs = _run_impl(case)
    first = sched.COMPLAINTS.get(json.dumps(case, sort_keys=True))
    if first and isinstance(obs, dict):
        obs['first_complaint'] = first       # (a replay file is written from a re-run: keep what was said first)
    return obs


def oracle(case, obs):
    # wall-clock limits are not verdicts: see sched.judge
    return sched.judge(case, obs, _run_impl, _oracle)


def encode(case):
    if case['kind'] == 'ops':
        return sched.encode_ops(case['cmds'])
    if case['kind'] == 'batch':
        return sched.encode_ops([])
    # the traffic recorded on the thread-local stores while the arrangement ran (run_impl ran before)
    return sched.encode_ops(sched.trace_cmds(case) or [])


def decode(out, case):
    if case['kind'] == 'ops':
        return dict(kind='ops', outs=sched.decode_ops(out, case['cmds']))
    if case['kind'] == 'batch':
        return dict(kind='batch', outs=sched.decode_ops(out, []))
    return dict(kind='arr', outs=sched.decode_ops(out, sched.trace_cmds(case) or []))


def project(obs, case):
    if case['kind'] == 'ops':
        return obs
    if case['kind'] == 'batch':
        return dict(kind='batch', outs=[])
    # what every access to the thread-local stores returned while the real requests were served, to be
    # predicted by the model from the recorded sequence of accesses
    return dict(kind='arr', outs=obs.get('trace_outs', []))


def ops_failure(cmds, outs):
    """C10 on a command trace, stated without the model: what thread t reads from attribute a of object o is what t
    itself last wrote there, whatever happened to other objects or on other threads in between."""
    last = {}
    for cmd, out in zip(cmds, outs):
        t, name, args = cmd[0], cmd[1], cmd[2:]
        if name == 'set':
            c, n, a, v = args
            if out == ['unit'] and v[0] != 'f':
                last[(t, c, n, a)] = ['val', v]
                if c == 0 and a == 0:
                    last.pop((t, c, n, 1), None)
            else:
                last.pop((t, c, n, a), None)
                if c == 0 and a == 0:
                    last.pop((t, c, n, 1), None)
        elif name == 'del':
            c, n, a = args
            last.pop((t, c, n, a), None)
        elif name in ('init_req', 'init_req0', 'copy', 'new_resp', 'init_resp'):
            c = 0 if name in ('init_req', 'init_req0', 'copy') else 1
            n = args[1] if name == 'copy' else args[0]
            for k in [k for k in last if k[0] == t and k[1] == c and k[2] == n]:
                del last[k]
            if name == 'new_resp':
                pass
        elif name == 'get':
            c, n, a = args
            want = last.get((t, c, n, a))
            if want is not None and out != want:
                return ('thread %d reads %s of %s %d = %s but the last value it wrote there is %s'
                        % (t, sched.ATTRS[c][a], ['request', 'response'][c], n, out, want))
    return None


def _oracle(case, obs):
    if obs.get('tie'):
        return obs['tie']
    if obs.get('hang') is True and case['kind'] == 'ops':
        return 'hang'
    if 'escaped' in obs:
        return 'harness escape: %s %s' % (obs['escaped'], obs.get('msg'))
    if case['kind'] == 'ops':
        return ops_failure(case['cmds'], obs['outs'])
    if case['kind'] == 'batch':
        if obs.get('failures'):
            st, sw, f = obs['failures'][0]
            return 'schedule start=%s switches=%s: %s' % (st, sw, f)
        return None if obs.get('ran') else 'batch ran no schedule'
    return sched.arrangement_failure(case, obs)


def nontrivial(case, obs):
    if case['kind'] == 'batch':
        return obs.get('ran', 0) > 0
    if case['kind'] == 'ops':
        inited = {}
        for cmd in case['cmds']:
            name, args = cmd[1], cmd[2:]
            if name in ('init_req', 'init_req0', 'copy'):
                inited.setdefault(0, set()).add(args[1] if name == 'copy' else args[0])
            elif name in ('new_resp', 'init_resp'):
                inited.setdefault(1, set()).add(args[0])
            elif name in ('get', 'attr_items') and len(inited.get(args[0], ())) >= 2:
                return True
            elif name in ('env_get', 'req_get') and len(inited.get(0, ())) >= 2:
                return True
            elif name in ('hget', 'hdr_items') and len(inited.get(1, ())) >= 2:
                return True
        return False
    if len(case['calls']) >= 2:
        return True
    apps = set()

    def walk(c):
        if c.get('construct'):
            return
        apps.add(c['app'])
        for a in c['script']:
            if a[0] == 'call':
                walk(a[1])
            elif a[0] == 'listen_around':
                for b in a[1]:
                    if b[0] == 'call':
                        walk(b[1])
            elif a[0] == 'call_copy':
                apps.add(a[1])
            elif a[0] == 'new_app':
                apps.add('new')
    walk(case['calls'][0])
    return len(apps) >= 2


def key(case):
    return json.dumps(case, sort_keys=True)


def classify(case, obs):
    if case['kind'] == 'batch':
        return 'batch/build%d/preempt=%d/schedules=%s' % (case['build'], case['preempt'], obs.get('ran'))
    if case['kind'] == 'ops':
        nt = len({c[0] for c in case['cmds']})
        errs = sum(1 for o in obs.get('outs', []) if o and o[0] in ('attr', 'key', 'bad'))
        return 'ops/threads=%d/%s' % (nt, 'with-errors' if errs else 'no-errors')
    kinds = set()

    def walk(c, depth):
        if c.get('construct'):
            kinds.add('construct-thread')
            return
        for a in c['script']:
            if a[0] == 'call':
                kinds.add('nested')
                walk(a[1], depth + 1)
            elif a[0] in ('copy', 'new_app', 'new_app_from', 'args_write', 'abort', 'boom', 'gen', 'call_copy', 'redirect', 'body_read', 'ret', 'ext',
                          'listen', 'req_set') or a[0].startswith('hdr_'):
                kinds.add(a[0])
        if c.get('readonly'):
            kinds.add('readonly')
    for c in case['calls']:
        walk(c, 0)
    return 'arr/threads=%d/preempt=%d/%s/%s' % (len(case['calls']), len(obs.get('switches') or []),
                                              'default-app' if case.get('default') else 'own-apps',
                                              '+'.join(sorted(kinds)) or 'plain')


def shrink(case):
    if case['kind'] == 'batch':
        c = sched.BATCH_FAIL.get(json.dumps(case, sort_keys=True))
        if c:
            yield c
        return
    if case['kind'] == 'ops':
        cmds = case['cmds']
        for i in range(len(cmds)):
            yield dict(case, cmds=cmds[:i] + cmds[i + 1:])
        return
    calls = case['calls']
    if case.get('switches'):
        yield dict(case, switches=case['switches'][:-1])
    if len(calls) > 1:
        for i in range(len(calls)):
            yield dict(case, calls=calls[:i] + calls[i + 1:], switches=[], start=0)

    def variants(call):
        if call.get('construct'):
            return
        s = call['script']
        for i in range(len(s)):
            yield dict(call, script=s[:i] + s[i + 1:])
            if s[i][0] == 'call':
                for sub in variants(s[i][1]):
                    yield dict(call, script=s[:i] + [['call', sub]] + s[i + 1:])
    for i, c in enumerate(calls):
        for v in variants(c):
            yield dict(case, calls=calls[:i] + [v] + calls[i + 1:])
    if case.get('default'):
        yield dict(case, default=False)


def _redirect_outside_default_app(case, what, m):
    """the failure is about redirect() and the case calls it from a handler of an application that is not the
    module-level default application"""
    if case.get('kind') != 'arr' or 'redirect()' not in str(what):
        return False

    def walk(c):
        if c.get('construct'):
            return False
        for a in c['script']:
            if a[0] in ('redirect', 'redirect_cookie') and not (case.get('default') and c['app'] == 0):
                return True
            if a[0] == 'call' and walk(a[1]):
                return True
            if a[0] == 'listen_around' and any(b[0] == 'call' and walk(b[1]) for b in a[1]):
                return True
        return False
    return any(walk(c) for c in case['calls'])


def _static_outside_default_app(case, what, m):
    """the failure is about static_file() and the case calls it from a handler of an application that is not the
    module-level default application"""
    if case.get('kind') != 'arr' or 'static_file()' not in str(what):
        return False

    def walk(c):
        if c.get('construct'):
            return False
        for a in c['script']:
            if a == ['ret', 'static'] and not (case.get('default') and c['app'] == 0):
                return True
            if a[0] == 'call' and walk(a[1]):
                return True
            if a[0] == 'listen_around' and any(b[0] == 'call' and walk(b[1]) for b in a[1]):
                return True
        return False
    return any(walk(c) for c in case['calls'])


def _call_index(case):
    """token -> (thread index, application index, nesting depth) for every call of an arrangement"""
    out = {}

    def walk(c, ti, depth):
        if c.get('construct'):
            return
        out.setdefault(c['tok'], []).append((ti, c['app'], depth))
        for a in c['script']:
            if a[0] == 'call':
                walk(a[1], ti, depth + 1)
            elif a[0] == 'call_copy':
                out.setdefault(c['tok'] + 'cc', []).append((ti, a[1], depth + 1))
            elif a[0] == 'listen_around':
                for b in a[1]:
                    if b[0] == 'call':
                        walk(b[1], ti, depth + 1)
    for ti, c in enumerate(case.get('calls', [])):
        walk(c, ti, 0)
    return out


def _listener_in_handler(case, what, m):
    """exactly the listed finding: a listener registered inside a handler heard environ changes made by requests that
    OTHER THREADS serve on the SAME application object (the listeners of one request object are shared by its threads).
    Anything a listener hears from another application, from a copy, or from a nested call is a different failure."""
    import re
    what = str(what)
    if case.get('kind') != 'arr' or '(listen)' not in what or 'foreign tokens:' not in what:
        return False
    mm = re.search(r'call (\S+) \(listen\).*foreign tokens: ([^;]*);', what)
    if not mm:
        return False
    idx = _call_index(case)
    mine = idx.get(mm.group(1))
    foreign = mm.group(2).split()
    if not mine or not foreign:
        return False
    # (a token may name several calls: two copies forwarded by one handler)
    for tok in foreign:
        if not any(o[0] != me[0] and o[1] == me[1] for me in mine for o in idx.get(tok, [])):
            return False
    return True


PREDICATES = {'redirect_outside_default_app': _redirect_outside_default_app,
              'listener_registered_in_handler': _listener_in_handler,
              'static_file_outside_default_app': _static_outside_default_app}

# ---------------------------------------------------------------------------
# audit tables (round 4): what of the anchored API the cases exercise, and which process-wide state they would notice
# ---------------------------------------------------------------------------
# "arr" = arrangement of real WSGI calls (sched.py, scripted handlers), "ops" = command sequences on real objects
# compared with the model, "batch" = every single-pre-emption schedule of a scenario.

API_SURFACE = [
    # common_helpers.ts_props
    ('ts_props: init_wrapper (first / repeated __init__, per thread)', 'covered by ops init_req/init_req0/new_resp/init_resp, arr (every request)'),
    ('ts_props: fget / fset / fdel of every generated property', 'covered by ops get/set/del on all 2+5 attributes; arr store traffic replayed in the model'),
    ('ts_props: store_name slot unset (object without __init__)', 'covered by ops on raw objects (malformed stream)'),
    # common_helpers.HeaderDict
    ('HeaderDict.__init__ / dict property (get, set)', 'covered by ops new_resp/hget/hset_fresh/hset_headers'),
    ('HeaderDict.__setitem__/__getitem__/__delitem__/__contains__/__len__/__iter__/__repr__', 'covered by arr hdr, hdr_del, every see (hdr_map)'),
    ('HeaderDict.keys/values/items/get/pop/popitem (proxy)', 'keys/values/items/get: covered by every see; pop/popitem: excluded: same proxy lambda as get (one code path, common_helpers.proxy), not used by the framework'),
    ('HeaderDict.append (absent / single / list)', 'covered by arr hdr_append x1..3'),
    ('HeaderDict.clear(*names) / clear()', 'covered by arr hdr_clear'),
    ('HeaderDict.update / setdefault (str, list)', 'covered by arr hdr_update, hdr_setdefault, _cast Content-Length default'),
    ('HeaderDict.copy (list values copied)', 'covered by arr hdr_copy, redirect (BaseResponse.copy)'),
    ('proxy()', 'covered through HeaderDict.keys/values/items/get'),
    ('cached_property.__get__ (instance, class access)', 'covered by Ombott._hooks in every request, type(app)._hooks in set-up'),
    ('cached_property: AttributeError in getter -> PropertyGetterError', 'excluded: not reachable through Ombott._hooks, the only cached_property of the anchored classes'),
    # response.py
    ('BaseResponse.__new__/__init__ (defaults)', 'covered by ops new_resp/init_resp, arr every request'),
    ('BaseResponse.__init__(body, status, headers dict, **more_headers)', 'covered by arr ret resp_obj/resp_raise/gen_raises_resp, abort'),
    ('BaseResponse.status setter: int, "NNN phrase", unlisted codes, refused values', 'covered by arr status (numbers, strings, 797..), bad_status'),
    ('BaseResponse.status_line / status_code / headerlist', 'covered by every see and every response record'),
    ('BaseResponse.copy(cls)', 'covered by arr redirect (C10)'),
    ('BaseResponse.set_cookie', 'covered by arr cookie; options (max_age, expires, ...) excluded: C15'),
    ('BaseResponse.delete_cookie / charset / content_length / expires', 'excluded: C14/C15 (header values), no per-thread or per-application state of their own'),
    ('HTTPResponse.apply (status, headers, cookies, body)', 'covered by arr abort/boom/body_read/ret resp_* and the @error handlers that look at app.response'),
    ('Response.__slots__ (no instance dict)', 'covered by the fingerprint of non-thread-local state in every arr case'),
    # request.py
    ('BaseRequest.__new__/__init__(environ | None, config=)', 'covered by ops init_req/init_req0, arr every request, copy'),
    ('BaseRequest.setup(config)', 'covered by arr new_app cfg setup (C10)'),
    ('BaseRequest._raise (errors_map hit / miss)', 'covered by arr body_read kinds (hit), boom (miss)'),
    ('BaseRequest._on_env_changed (every key class)', 'covered by arr req_set QUERY_STRING/HTTP_*/CONTENT_TYPE, hook_input (wsgi.input, CONTENT_LENGTH)'),
    ('BaseRequest.on / off / emit / returned unsubscriber', 'covered by arr listen (finding C08/C10-listeners-shared)'),
    ('BaseRequest.copy', 'covered by ops copy, arr copy / call_copy (plain, read-only environ, buffered body, hooks)'),
    ('BaseRequest.get / keys / __iter__ / __len__ / __getitem__', 'covered by ops req_get/env_get, every see (req_map_ok)'),
    ('BaseRequest.__setitem__ (read-only, same value, change) / __delitem__', 'covered by arr req_set (readonly refused, same value), req_del'),
    ('BaseRequest.__getattr__ / __setattr__ (slots, ext attributes, descriptors)', 'covered by ops on raw objects, arr ext; descriptor-valued ext attributes excluded: not used by the framework'),
    ('BaseRequest.__repr__', 'covered by every see (repr_has_path)'),
    # ombott.py
    ('Ombott.__init__(config dict | None)', 'covered by arr make_apps cfg (max30, debug, nocatch, domain), new_app cfg kinds, construct threads'),
    ('Ombott.setup(config)', 'covered by arr new_app cfg setup (C10)'),
    ('Ombott.add_hook / on (direct, decorator) / remove_hook / emit / _hooks', 'covered by make_apps set-up and every request (before/after hooks look at app.request/app.response)'),
    ('Ombott.on_route / remove_route_hook / route hooks in Ombott.handler', 'covered by make_apps set-up, route_hook record of every /r request'),
    ('Ombott.error(code) / error(404, rule)', 'covered by make_apps (400/403/413/418 handlers, /h partial hook), arr body_read/abort/loop418, route h404hook'),
    ('Ombott.handler: 404, 405 (+Allow), partial 404 hook', 'covered by arr route nope404/g405/h404hook'),
    ('Ombott._handle: undecodable path, HTTPResponse, Exception, MemoryError', 'covered by arr route badpath, abort/ret resp_raise, boom, ret raise_mem'),
    ('Ombott._cast: every output type', 'covered by arr text, gen, ret none/file(+file_wrapper)/gen_empty/gen_blank_first/gen_bytes/gen_int/gen_raises_*/resp_obj/loop418'),
    ('Ombott.wsgi: domain_map, HEAD / 1xx / 204 / 304, last-resort page, catchall off, debug', 'covered by arr domain, method HEAD, status 204/304, ret bad_charset with cfg debug/nocatch'),
    ('Ombott.default_error_handler (HTML / JSON)', 'covered by arr abort/boom/body_read with and without Accept: application/json'),
    ('Globals / default_app / module-level route, request, response', 'covered by arr default=True (C10)'),
    ('redirect()', 'covered by arr redirect (C10; finding C10-redirect-default-app)'),
    ('abort()', 'covered by arr abort'),
    ('static_file() (reads Globals.request)', 'covered by arr ret static (C10; finding C10-static-file-default-app); ranges/dates themselves: C16/C17'),
    ('config keys: catchall, debug, domain_map, app_name_header, errors_map, max_body_size, max_memfile_size, allow_x_script_name',
     'covered: catchall, debug, domain_map+app_name_header (case cfg), errors_map, max_body_size, max_memfile_size (new_app / construct cfg); allow_x_script_name excluded: read per request from config, C-none'),
    ('Ombott.run / server_adapters', 'excluded: no request or response state'),
]

# every piece of class-level or module-level mutable state reachable from two applications or two threads
SHARED_STATE = [
    ('DefaultConfig.errors_map (class level) and its pre-built HTTPError instances', 'process', 'noticed: arr body_read kinds across apps/threads + forked baseline (seeds C08-1, C08-5, C10-3, C10-6)'),
    ('RequestConfig.errors_map = {} / DefaultConfig.domain_map = {} (class-level default dicts)', 'process', 'noticed if filled: arr new_app/construct cfg kinds then error-path requests on other apps'),
    ('response._HTTP_STATUS_LINES / HTTP_CODES (alias of http.client.responses, extended at import)', 'process', 'noticed: arr status numeric/custom phrase incl. unlisted codes, forked baseline (seed C10-4)'),
    ('Route.parser (one Parser per process, keeps _rule/_stream while parsing)', 'process', 'noticed: batch build0 (two threads registering routes) — defect F40'),
    ('FilterFactory._filter_cache / FilterFactory.filters', 'process', 'noticed if entries got mixed: construct routes kinds use int and re filters and probe them; cache writes of equal values are benign'),
    ('error_render._html_lns (template lines, filled on first use)', 'process', 'noticed: every arr runs in a fresh forked process, so the first error page is rendered under the schedule and compared with the baseline'),
    ('body_mixin._iter_chunked locals (were module level in seed C05-5)', 'call', 'noticed: batch race1 (two chunked uploads, every single pre-emption)'),
    ('Globals.app / request / response, module-level ombott.request/response/route', 'process', 'noticed: arr default=True; redirect/static_file findings'),
    ('Request.__listeners__ (plain slot of the shared request object)', 'application', 'noticed: arr listen + fingerprint; finding *-listeners-shared'),
    ('Request.config / Ombott.config / router / _route_hooks / error_handlers / _hooks', 'application', 'noticed: fingerprint of identity and sizes before/after every arr case (seed C08-6)'),
    ('Request.__mixins_special__, _as_mixins; BaseResponse.bad_headers; Ombott.__hook_names/__hook_reversed', 'process', 'read-only after import: no case kind needed; a write would show in headerlist / hook order of every case'),
    ('HeaderProperty descriptors, WSGIHeaderDict.cgikeys, FormsDict.re_attr_key, FieldStorage._patt, MULTIPART_BOUNDARY_PATT, end_headers_patt', 'process', 'immutable (compiled patterns, frozen sets used read-only): no cross-talk possible; parsing itself is C06/C07/C12'),
    ('server_adapters.server_names / adapters', 'process', 'excluded: not on the request path'),
    ('threading.local stores (_ts_props, HeaderDict._ts)', 'thread', 'the subject of the model: ops + replayed store traffic'),
]

MANIFEST = dict(
    text=('Proof: theorems C10_instance_independent and C10_nested_calls (Coq, closed under the global context) state for '
          'ALL schedules, ALL thread programs (resumptions that may branch on everything they read), all objects, threads '
          'and attributes that what a thread reads from a thread-local property of a request/response object is what '
          'that same thread last wrote to that same object (or what its __init__ put there), whatever is initialised, '
          'copied, constructed or written on other objects or by other threads in between; C10_dict_reads_follow_updates and '
          'C10_copy_is_a_different_dict state the same for the dicts behind them (several reads interleaved with updates; '
          'Request.copy / HeaderDict.copy never alias the original). '
          'C10_shared_closure_refuted records defect F13 (fixed): with the accessor that reads the closure variable of '
          'the class, [Init A; Set A x 1; Init B; Get A x] does not return 1. The hand-written model '
          '(coq/model/TsProps.v) is tied to /repo on every run by a differential correspondence on real Request / '
          'Response / HeaderDict objects driven on real threads, and an independent oracle runs arrangements of real '
          'applications (nested calls, copy, construction while serving, default app, several threads under a '
          'controlled scheduler).'),
    note=('Trusted: Coq kernel + vm_compute; extraction (ExtrOcamlBasic only); the Python harness and scheduler. '
          'Modelled not verified: threading.local, slots/property/__getattr__ resolution, dict order. Runtime, not '
          'modelled: atomicity of one attribute access (GIL).'),
    technique='Coq proof (frame invariant over an interleaving semantics of resumption threads) + model/implementation correspondence + scheduler-driven oracle',
    design_ref='DESIGN.md section 4, C10; Appendix A.8',
)
