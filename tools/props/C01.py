"""C01 — route resolution equals the plain rule-by-rule semantics."""
import itertools

from props import routerC_lib as L

ID = 'C01'
COQ_MODEL = 'model.Router'
COQ_CORR = 'corr_C01'
N_QUICK = 1200
N_THOROUGH = 6000
THOROUGH_EXHAUSTIVE = True
VM_CASES = 25
RULE = ('case = a fresh application + 2..9 registrations (rules built from a segment pool that forces shared and split '
        'prefixes, wildcard siblings, literal+wildcard and two wildcards in one segment, plain/int/float/re/path '
        'wildcards in every syntax flavour, random order, duplicates, conflicting filters => rejected adds, several '
        'rules on one pattern with different names) followed by 4..9 probes (paths instantiated from the rules, then '
        'mutated: separators dropped/doubled, empty segments, extension, truncation, CR/LF/NUL/non-ASCII/Arabic-Indic '
        'digits) resolved directly (Ombott.to_route) and through Ombott.__call__; a separate malformed stream feeds '
        'random rule-like text. thorough adds all subsets of size <= 3 of a 14-rule universe x all paths of <= 3 '
        'segments over a 6-symbol alphabet. non-trivial = at least two accepted rules share their first segment and a '
        'probe reached a handler through at least one wildcard; distinct by (rules, probe paths)')
TRUSTED = ['section variable: filt : fid -> str -> option (value * nat) — the compiled filter as a function of the '
           'remaining path returning no selector (Python re and the int/float converters are not modelled; the '
           'correspondence samples the real filter on every suffix of the probe path)',
           'modelled, not verified: the rule parser (Parser/SymStream) is exercised by the correspondence only: rule '
           'TEXT goes to the implementation, the triple returned by Route.parse_rule goes to the model; `rex` '
           'selectors are excluded; str.strip("/"), str.upper on ASCII']
ASSUMPTIONS = ['no rule uses a rex selector', 'wildcard names are distinct within a rule',
               'rule text contains no CR', 'method names are ASCII']


def _adds(rules, h0=0):
    return [dict(op='add', rule=r, methods=['GET'], h=h0 + i) for i, r in enumerate(rules)]


def _probes(paths, verb='GET'):
    return [dict(op='dispatch', path=p, verb=verb) for p in paths]


def corpus():
    cs = []
    # F1 witnesses: CR in the path must be wildcard text / rejected by the int filter
    cs.append(dict(cmds=_adds(['/foo/:x/bar', '/n/<v:int>']) + _probes(['/foo/\r/bar', '/n/\r', '/n/5', '/foo/a/bar', '/foo/\r\r/bar'])))
    cs.append(dict(cmds=_adds(['/a/<x>/c', '/a/b/d']) + _probes(['/a/\r/c', '/a/b/c', '/a/b/d', '/a/\r/d'])))
    # F2 witness: two rules on one pattern keep their own names
    cs.append(dict(cmds=[dict(op='add', rule='/u/<a>', methods=['GET'], h=1),
                         dict(op='add', rule='/u/<b>', methods=['POST'], h=2),
                         dict(op='add', rule='/u/:c', methods=['PUT'], h=3)]
                   + [dict(op='dispatch', path='/u/7', verb=v) for v in ('GET', 'POST', 'PUT', 'HEAD', 'DELETE')]))
    # literal before wildcard with backtracking; prefix splits
    cs.append(dict(cmds=_adds(['/ab', '/abc', '/abd', '/a/<x>', '/a/<x>/c', '/a/b/c', '/a/b'])
                   + _probes(['/ab', '/abc', '/abd', '/abe', '/a', '/a/b', '/a/b/c', '/a/q/c', '/a/b/d', '/a//c', '/a/', 'a/b/', '//a/b//'])))
    # two look_back entries live at once: the deepest wildcard must be retried first (LIFO)
    cs.append(dict(cmds=_adds(['/a/b/d', '/a/<y>/c', '/<x>/b/c', '/<x>/<y>/c', '/a/b/<z>/e'])
                   + _probes(['/a/b/c', '/a/q/c', '/q/b/c', '/q/q/c', '/a/b/d', '/a/b/q', '/a/b/q/e'])))
    # a rule whose methods were all removed still owns its path: 405 (empty Allow), not the wildcard sibling, not 404
    cs.append(dict(cmds=_adds(['/item/new', '/item/<id>', '/item/<id>/x'])
                   + [dict(op='remove_method', rule='/item/new', methods=['GET']), dict(op='remove_via', rule='/item/<id>/x', verb='GET')]
                   + _probes(['/item/new', '/item/5', '/item/5/x', '/item/new/x'])
                   + [dict(op='resolve_route', path='/item/new'), dict(op='resolve_route', path='/item/5/x')]))
    # two rules behind one filtered wildcard, continuing with different characters; one removed again: the wildcard node
    # (no route of its own) keeps its filter and its other child
    cs.append(dict(cmds=_adds(['/u/<id:int>/edit', '/u/<id:int>.json']) + [dict(op='remove', rule='/u/<id:int>.json')]
                   + _probes(['/u/5', '/u/5.json', '/u/007', '/u/5/edit', '/u/x/edit'])))
    cs.append(dict(cmds=_adds(['/u/<id:float>.json', '/u/<id:float>/edit', '/u/<id:float>-x']) + [dict(op='remove', rule='/u/<id:float>/edit'),
                                                                                             dict(op='remove', rule='/u/<id:float>-x')]
                   + _probes(['/u/5', '/u/5.json', '/u/2.5.json', '/u/5/edit', '/u/5-x', '/u/x.json'])
                   + _adds(['/u/<id:float>/edit'], h0=7) + _probes(['/u/5/edit', '/u/5.json'])))
    # line-boundary characters in the text a wildcard has to take ('.' stops at LF; '$' tolerates one trailing LF)
    cs.append(dict(cmds=_adds(['/static/<name:path>', '/n/<k:int>', '/w/<x>', '/f/<p:path>/end', '/s/<v:re:[a-c]+>'])
                   + _probes(['/static/a\nb', '/static/a/b\n', '/static/\n', '/static/a/b', '/static/a\n\n', '/static/a\x85b', '/static/a\u2028b',
                              '/static/a\x0bb', '/n/12\n', '/n/\n12', '/w/a\nb', '/w/a\n', '/f/a\nb/end', '/f/a/end\n', '/s/ab\n', '/s/a\nb'])))
    # decomposed characters (letter + combining mark, ANGSTROM SIGN, Hangul jamo) reach the router as sent, not composed
    cs.append(dict(cmds=_adds(['/wiki/<page>', '/u/<c:re:.>', '/café', '/k/\u00c5', '/k/<x>/z'])
                   + _probes(['/wiki/cafe\u0301', '/wiki/café', '/u/e\u0301', '/u/é', '/cafe\u0301', '/café', '/k/\u212b', '/k/A\u030a', '/k/\u00c5',
                              '/k/\u1100\u1161/z', '/u/\u1100\u1161', '/u/\uac00'])))
    # conflicting filters: the second add is rejected
    cs.append(dict(cmds=_adds(['/a/<x:int>', '/a/<x>', '/a/<y:int>/z', '/a/<x:re:[a-c]+>'])
                   + _probes(['/a/12', '/a/zz', '/a/12/z', '/a/ab', '/a/١٢', '/a/-3/z', '/a/1.5'])))
    # path filter before a literal; wildcard followed by text in one segment; two wildcards in a segment
    cs.append(dict(cmds=_adds(['/p/<x:path>/e', '/p/<x:path>', '/<x>end', '/<a>-<b>', '/f/<a:int>.<b:int>'])
                   + _probes(['/p/q/r/e', '/p/q/r', '/p/e', '/p//e', '/vend', '/end', '/a-b', '/-', '/a-b-c', '/f/1.2', '/f/1.x'])))
    # root rule, empty path, wildcard at end of path is not tried
    cs.append(dict(cmds=_adds(['/', '/<x>', '/a/<x>']) + _probes(['/', '', '//', '/a', '/a/', '/a//', '/v'])))
    # empty regex match, float conversion, anonymous wildcards
    cs.append(dict(cmds=_adds(['/r/<x:re:[a-c]*>/t', '/fl/<v:float>', '/an/<:int>/<y>/:'])
                   + _probes(['/r//t', '/r/ab/t', '/r/x/t', '/fl/1.50', '/fl/-2', '/fl/3.', '/an/5/w/q', '/an/5//q', '/an/5/w'])))
    # filters are matched once at the cursor on the REMAINING text path[i:]: a regex that looks at its own start
    # (^, \A, \b, look-behind) or end ($) must not see the text in front of the cursor / be anchored to offset 0
    cs.append(dict(cmds=_adds(['/items/<id:re:^[0-9]+$>', '/n/<k:re:(?<=/)[0-9]+>', '/w/x<v:re:(?<!x)[a-c]+>',
                               '/b/a<v.re(\\b[a-c]+)>', '/s/<v:re:\\A[a-c]+>/t', '/d/7<v:re:(?<![0-9])[0-9]+>',
                               '/e/<v:re:[a-c]+$>'])
                   + _probes(['/items/42', '/items/4x', '/n/7', '/w/xab', '/w/ab', '/b/abc', '/s/ab/t', '/s/ab',
                              '/d/75', '/d/7', '/e/abc', '/e/ab/c', '/e/abx'])))
    # a path wildcard looks ahead for the WHOLE literal that follows it (up to the next wildcard), not for a part of it
    cs.append(dict(cmds=_adds(['/doc/<p:path>/end/:y', '/w/<p.path()>/edit/<rev:int>', '/q/{p:path}/x/y', '/z/<p:path>.tar.gz'])
                   + _probes(['/doc/a/end/endive', '/doc/a/b/end/end', '/doc/a/end/b', '/doc/end/end/end', '/w/a/edit/edit/3',
                              '/w/a/editor/edit/4', '/q/a/x/x/y', '/q/a/xy/x/y', '/q/a/x/y/x/y', '/z/a.tar/b.tar.gz',
                              '/z/a.tar.gz.tar.gz'])))
    # `re` wildcards whose regex is spelled like the mask of int / float, in both creation orders, each starting from an
    # empty process-wide filter cache: the re ones hand TEXT ('007', '1.50'), int / float hand numbers
    cs.append(dict(fresh_cache=True,
                   cmds=_adds(['/zip/<code:re:-?\\d+>', '/n/<v:int>', '/amt/<a.re(-?\\d+(\\.\\d+)?)>', '/fl/<f:float>'])
                   + _probes(['/zip/007', '/n/007', '/amt/1.50', '/fl/1.50', '/zip/-3', '/n/-3'])))
    cs.append(dict(fresh_cache=True,
                   cmds=_adds(['/n/<v:int>', '/zip/<code.re(-?\\d+)>', '/fl/<f:float>', '/amt/<a:re:-?\\d+(\\.\\d+)?>'])
                   + _probes(['/zip/007', '/n/007', '/amt/1.50', '/fl/1.50', '/zip/-3', '/n/-3'])))
    # adjacent wildcards, wildcard that swallows nothing in the middle
    cs.append(dict(cmds=_adds(['/w/<a><b>', '/w/<a:int><b>/k']) + _probes(['/w/x', '/w/12ab/k', '/w/12/k', '/w/'])))
    return cs


def _family(rng):
    """one literal rule of 2..4 segments + variants with subsets of its segments replaced by wildcards (and one
    final literal changed): several look_back entries are live at once and only the LIFO order gives the best rule"""
    k = rng.randrange(2, 5)
    lits = [rng.choice(['a', 'b', 'c', 'ab', 'x.y']) for _ in range(k)]
    out = []
    masks = rng.sample(range(1, 2 ** k), min(2 ** k - 1, rng.randrange(2, 6)))
    for mask in [0] + masks:
        segs = []
        for i in range(k):
            if mask >> i & 1:
                segs.append([('W', 'p%d' % i, rng.choice(['plain', 'plain', 'plain', 're']))])
            else:
                segs.append([('L', lits[i])])
        if mask == 0 or rng.random() < 0.3:
            segs[-1] = [('L', rng.choice(['d', 'zz']))]       # the all-literal branch dead-ends
        out.append((L.render_rule(rng, segs), segs))
    return out, '/' + '/'.join(lits)


def _path_family(rng):
    """/pre/<p:path> followed by a literal of >= 2 segments and/or a further wildcard; request paths contain text that
    only STARTS like (a part of) that literal"""
    pre = rng.choice(['doc', 'w', 'q'])
    l1 = rng.choice(['end', 'edit', 'x', 'a.b'])
    tail = rng.choice([[('L', l1), ('L', rng.choice(['y', l1, 'z']))], [('L', l1), ('W', 'y', rng.choice(['plain', 'int']))],
                       [('L', l1), ('L', 'k'), ('W', 'y', 'plain')]])
    segs = [[('L', pre)], [('W', 'p', 'path')]] + [[t] for t in tail]
    rule = L.render_rule(rng, segs)
    paths = []
    for _k in range(5):
        mid = '/'.join(rng.choice(['a', 'b', l1, l1 + 'ive', l1[:1], 'k']) for _j in range(rng.randrange(1, 4)))
        end = '/'.join((t[1] if t[0] == 'L' else rng.choice(['7', l1, l1 + 'ive', 'v'])) for t in tail)
        paths.append('/%s/%s/%s' % (pre, mid, rng.choice([end, end + 'x', l1 + '/' + end, end + '/' + l1])))
    return rule, segs, paths


def _prefix_family(rng):
    """2..3 rules sharing /pre/<wildcard> and going on with literal text that starts with different characters
    ('/edit', '.json', '-x', ...): the wildcard node has no route of its own and several literal children. One rule is
    removed again (pruning + compaction at the wildcard node), sometimes registered anew; then every rule is probed."""
    pre = rng.choice(['u', 'w', 'doc'])
    kind = rng.choice(['int', 'int', 'float', 're', 'plain'])
    conts = rng.sample([[[('L', '.json')]], [[], [('L', 'edit')]], [[('L', '-x')]], [[('L', 'x')]], [[], [('L', 'e')], [('W', 'y', 'plain')]],
                        [[('L', '.j')], [('L', 'k')]]], rng.randrange(2, 4))
    rules = []
    for ct in conts:
        segs = [[('L', pre)], [('W', 'id', kind)] + list(ct[0])] + [list(s) for s in ct[1:]]
        rules.append((L.render_rule(rng, segs), segs))
    if rng.random() < 0.2:
        segs = [[('L', pre)], [('W', 'id', kind)]]
        rules.append((L.render_rule(rng, segs), segs))          # the wildcard node holds a route itself
    order = list(rules)
    rng.shuffle(order)
    cmds = [dict(op='add', rule=r, methods=['GET'], h=i) for i, (r, _s) in enumerate(order)]
    for _k in range(rng.randrange(1, 3)):
        victim = rng.choice(rules)
        cmds.append(dict(op='remove', rule=victim[0]))
        if rng.random() < 0.3:
            cmds.append(dict(op='add', rule=victim[0], methods=['GET'], h=20 + _k))
    paths = []
    for _r, sg in rules:
        p = L.instantiate(rng, sg)
        paths += [p, L.mutate_path(rng, p)]
    v = rng.choice(['5', '007', '2.5', 'ab'])
    paths += ['/%s/%s' % (pre, v), '/%s/%s.json' % (pre, v), '/%s/%s/edit' % (pre, v), '/%s/%s-x' % (pre, v)]
    return cmds + _probes(paths)


def gen(rng, n):
    n_mal = n // 12
    for _ in range(n - n_mal):
        if rng.random() < 0.07:
            yield dict(cmds=_prefix_family(rng))
            continue
        if rng.random() < 0.08:
            rule, segs, paths = _path_family(rng)
            other = L.gen_rule(rng)
            yield dict(cmds=_adds([rule, other[0]]) + _probes(paths + [L.instantiate(rng, other[1])]))
            continue
        if rng.random() < 0.3:
            base, hit = _family(rng)
            order = list(base)
            rng.shuffle(order)
            cmds = [dict(op='add', rule=r, methods=['GET'], h=i) for i, (r, _s) in enumerate(order)]
            if rng.random() < 0.5:
                # one rule of the family (most often the all-literal one) loses ALL its methods: it still is the route
                # its path selects (405 with an empty Allow) and must not hand the request to a wildcard sibling
                victim = base[0][0] if rng.random() < 0.6 else rng.choice(base)[0]
                cmds.append(rng.choice([dict(op='remove_method', rule=victim, methods=['GET']),
                                        dict(op='remove_method', rule=victim, methods='GET'),
                                        dict(op='remove_via', rule=victim, verb='GET')]))
            paths = [hit] + [L.mutate_path(rng, hit) for _k in range(3)] + [L.mutate_path(rng, L.instantiate(rng, sg))
                                                                          for _r, sg in rng.sample(base, min(3, len(base)))]
            yield dict(cmds=cmds + _probes(paths))
            continue
        base = [L.gen_rule(rng) for _ in range(rng.randrange(2, 7))]
        # force sharing: extend / vary existing rules
        for _k in range(rng.randrange(0, 4)):
            r, segs = rng.choice(base)
            segs2 = [list(s) for s in segs]
            m = rng.random()
            if m < 0.35:
                segs2.append([('L', rng.choice(L.LITS))])
            elif m < 0.55:
                usedn = {it[1] for sg in segs2 for it in sg if it[0] == 'W'}
                free = [x for x in ('u', 'w', 'u3', 'w3') if x not in usedn]
                segs2.append([('W', free[0], rng.choice(['plain', 'int']))])
            elif m < 0.8 and segs2:
                i = rng.randrange(len(segs2))
                segs2[i] = [('L', rng.choice(L.LITS))]
            else:
                # same abstract rule in another flavour and other names (same pattern => shared Route)
                segs2 = [[(it if it[0] == 'L' else ('W', (it[1] + '2') if it[1] else None, it[2])) for it in s] for s in segs2]
            base.append((L.render_rule(rng, segs2), segs2))
        order = list(base)
        rng.shuffle(order)
        if rng.random() < 0.3:
            order.append(rng.choice(base))            # duplicate registration
        cmds = []
        for i, (r, segs) in enumerate(order):
            ms = rng.choice([['GET'], ['GET'], ['GET', 'POST'], ['ANY'], ['post'], ['PUT']])
            cmds.append(L.vary_add(rng, dict(op='add', rule=r, methods=ms, h=i, overwrite=rng.random() < 0.2)))
        for _k in range(rng.randrange(4, 10)):
            r, segs = rng.choice(base)
            p = L.mutate_path(rng, L.instantiate(rng, segs))
            if rng.random() < 0.12:
                cmds.append(dict(op='resolve_route', path=p))        # resolve(path) without methods -> the Route
            else:
                cmds.append(dict(op='dispatch', path=p,
                                 verb=rng.choice(['GET', 'GET', 'GET', 'POST', 'HEAD', 'PUT'])))
        case = dict(cmds=cmds)
        if rng.random() < 0.15:
            case['fresh_cache'] = True          # as in a fresh process: the creation order of the filters is this case's
        if rng.random() < 0.1:
            # a second application operated in between (shared class-level filter cache and parser object)
            other = [L.gen_rule(rng) for _k in range(3)]
            case['twin'] = ([dict(op='add', rule=r2, methods=['GET'], h=90 + k) for k, (r2, _s) in enumerate(other)]
                            + [dict(op='dispatch', path=L.instantiate(rng, s2), verb='GET') for _r, s2 in other])
        yield case
    for _ in range(n_mal):
        # malformed stream: rule-like text; only parseable ones are kept as cases, the
        # oracle checks the others raise RouteSyntaxError (see malformed_ok)
        txt = '/' + ''.join(rng.choice(['a', 'b', '/', '<', '>', ':', '{', '}', 'x', '(', ')', 'int', 're', '.', '[', ']', '\\'])
                            for _k in range(rng.randrange(1, 12)))
        yield dict(cmds=[dict(op='add', rule='/ok/<x>', methods=['GET'], h=0),
                         dict(op='add', rule=txt, methods=['GET'], h=1, malformed=True),
                         dict(op='dispatch', path='/ok/1', verb='GET'),
                         dict(op='dispatch', path=txt.replace('<', 'v').replace('>', ''), verb='GET')], malformed=True)


UNIVERSE = ['/a', '/ab', '/a/b', '/a/<x>', '/a/<x>/c', '/a/b/c', '/<x>', '/<x>/b', '/a/<x:int>', '/b/<x:path>/c',
            '/<x>b', '/a/<x>/<y>', '/b/<x:path>', '/']
ALPHA = ['a', 'b', 'c', 'ab', '1', '']


def thorough():
    paths = ['/' + '/'.join(t) for k in range(0, 4) for t in itertools.product(ALPHA, repeat=k)]
    for k in (1, 2, 3):
        for rules in itertools.combinations(UNIVERSE, k):
            # '/a/<x>' and '/a/<x:int>' conflict: the second is rejected, which is part of the check
            for chunk in range(0, len(paths), 400):
                yield dict(cmds=_adds(list(rules)) + _probes(paths[chunk:chunk + 400]))


def _parse_ok(rule):
    from ombott.router.radirouter import Route
    from ombott.router.errors import RouteSyntaxError
    try:
        Route.parse_rule(rule)
        return True
    except (RouteSyntaxError, AssertionError, KeyError, IndexError, ValueError, TypeError, Exception):
        return False


def _sanitize(case):
    """drop registrations whose rule text the real parser rejects (malformed stream)"""
    if not case.get('malformed'):
        return case
    cmds = [c for c in case['cmds'] if not (c.get('malformed') and not _usable(c['rule']))]
    return dict(case, cmds=cmds)


def _usable(rule):
    """parseable, no rex selector, distinct names, known filters"""
    from ombott.router.radirouter import Route
    try:
        pattern, params, filters, _a, _b = Route.parse_rule(rule)
    except Exception:
        return False
    if len(set(params)) != len(params) or pattern.count('\r') != len(filters):
        return False
    if pattern.startswith('/'):      # RadiRouter._match asserts this (rule '//...'): developer error
        return False
    for f in filters:
        if f is not None:
            try:
                if f('abc')[2] is not None or f('')[2] is not None:
                    return False
            except Exception:
                return False
    return '[' not in rule


def run_impl(case):
    return L.run_script(_sanitize(case))


def project(obs, case):
    return L.strip(obs)


def encode(case):
    return L.encode(_sanitize(case))


def decode(out, case):
    return L.decode(out, _sanitize(case))


def oracle(case, obs):
    try:
        return L.traced(_oracle, case, obs)
    except Exception as e:           # every call into the implementation ends as an observation, never as a crash
        import traceback
        tb = traceback.extract_tb(e.__traceback__)
        where = ['%s:%d %s' % (fr.filename.rsplit('/', 1)[-1], fr.lineno, fr.name) for fr in tb[-3:]]
        return 'the oracle\'s own use of the implementation (replay / fresh router) raised %s: %s [%s]' % (
            type(e).__name__, str(e)[:200], '; '.join(where))


import re as _re

_TOKEN = _re.compile(r'<[^>]*>|\{[^}]*\}|:[A-Za-z_]\w*|:')
_INNER = _re.compile(r'^(?:(?P<name>[A-Za-z_]\w*)?(?:[:.](?P<f1>int|float|path|re)(?:\(\))?(?::(?P<a1>.*)|\((?P<a2>.*)\))?)?'
                     r'|(?P<f2>int|float|path|re)\((?P<a3>.*)\))$')


def _independent_filters(rule):
    """the filters of a rule derived from its TEXT only (the generator's syntax flavours), as the rule-by-rule
    semantics defines them: int = -?\\d+ -> int, float = -?\\d+(\\.\\d+)? -> float, re:RX = RX, and a path wildcard =
    `.+` up to (look-ahead) the WHOLE literal text that follows it in the rule up to the next wildcard, or to the end
    of the path if nothing follows.  Returns None when the text is not in the known flavours."""
    toks = list(_TOKEN.finditer(rule))
    out = []
    for k, t in enumerate(toks):
        txt = t.group()
        if txt.startswith(':'):
            out.append(None)
            continue
        m = _INNER.match(txt[1:-1])
        if not m:
            return None
        kind = m.group('f1') or m.group('f2')
        arg = m.group('a1') if m.group('a1') is not None else m.group('a2') if m.group('a2') is not None else m.group('a3')
        if kind is None:
            out.append(None)
        elif kind == 'int':
            out.append(_mk(r'-?\d+', int))
        elif kind == 'float':
            out.append(_mk(r'-?\d+(\.\d+)?', float))
        elif kind == 're':
            if arg is None:
                return None
            out.append(_mk(arg, None))
        else:
            nxt = toks[k + 1].start() if k + 1 < len(toks) else len(rule)
            lit = rule[t.end():nxt]
            out.append(_mk('.+(?=%s)' % _re.escape(lit) if lit else '.+$', None))
    return out


def _mk(rx, conv):
    c = _re.compile(rx)

    def f(s):
        m = c.match(s)
        if not m:
            return None, 0, None
        return (conv(m.group()) if conv else m.group()), m.end(), None
    return f


_SMOKE = []


def _smoke():
    """once per run: documented failure modes of the anchored API that no generated script can reach through
    RadiRouter (RadiDict used on its own: list params, exclusive wildcards, double registration), parser errors with
    fixed seeds, and an undecodable PATH_INFO (400, no routing)"""
    from ombott import Ombott
    from ombott.router.radidict import RadiDict, RadiDictKeyError
    from ombott.router.radirouter import Route
    from ombott.router.errors import RouteSyntaxError
    from props.common import environ
    rd = RadiDict()
    rd.add('a/\r', 1, ['x'])
    if rd.get('a/v')[0] != 1:
        return 'RadiDict.add with a list of names: lookup fails'
    try:
        rd.add('a/\r', 2, ['x'])
        return 'RadiDict.add twice on one pattern (overwrite=False) did not raise'
    except RadiDictKeyError:
        pass
    rd.add('a/\r', 3, ['x'], overwrite=True)
    if rd.get('a/v')[0] != 3:
        return 'RadiDict.add(overwrite=True) did not replace the data'
    rd.add('lit', 5)
    try:
        rd.add('lit', 6)
        return 'RadiDict.add twice on a literal pattern did not raise'
    except RadiDictKeyError:
        pass
    ex = RadiDict(is_exclusive=True)
    ex.add('e/\r', 1, ['x'])
    for pat, prm in (('e/lit', None), ('e/\r/z', {'x': [False, None]})):
        try:
            ex.add(pat, 2, prm)
            return 'exclusive wildcard: adding %r beside/below it did not raise' % pat
        except (RadiDictKeyError, IndexError) as e:
            # IndexError: the message formatting indexes prm_keys[prm_idx + e.param_idx] with no names given -
            # standalone RadiDict only (RadiRouter never uses exclusive wildcards); reported, not part of C01
            str(e)
    ex2 = RadiDict()
    ex2.add('e/lit', 1)
    try:
        ex2.add('e/\r', 2, {'x': [True, None]})
        return 'adding an exclusive wildcard beside existing keys did not raise'
    except (RadiDictKeyError, IndexError) as e:
        str(e)
    for bad in ('/<x.int!>', '/<x.re(a)[]>', '/<x!>', '/<x.re(a', '/a/<', '/<:', '/{x>', '/<x.re(a)[1]>'):
        try:
            Route.parse_rule(bad)
        except RouteSyntaxError:
            continue
        except Exception as e:
            return 'rule %r: %s instead of RouteSyntaxError' % (bad, type(e).__name__)
    app = Ombott()
    seen = []
    app.add_route('/<x>', 'GET', lambda **kw: seen.append(kw) or 'ok')
    got = {}
    body = app(environ('GET', '/\xff\xfe'), lambda st, hd, ei=None: got.update(status=st))
    list(body)
    if not got.get('status', '').startswith('400') or seen:
        return 'undecodable PATH_INFO: status %s, handler calls %s (expected 400, no routing)' % (got.get('status'), seen)
    return None


def _oracle(case, obs):
    """plain rule-by-rule matcher with the real filters, against what the application did"""
    if not _SMOKE:
        _SMOKE.append(_smoke())
        if _SMOKE[0]:
            return _SMOKE[0]
    from ombott.router.radirouter import Route
    from ombott.router.errors import RouteSyntaxError
    if case.get('malformed'):
        for c in case['cmds']:
            if c.get('malformed') and not _usable(c['rule']):
                try:
                    Route.parse_rule(c['rule'])
                except (RouteSyntaxError, KeyError):
                    pass
                except Exception as e:
                    if type(e).__name__ not in ('error', 'AssertionError', 'IndexError', 'TypeError'):
                        return 'malformed rule %r escaped as %s' % (c['rule'], type(e).__name__)
    case = _sanitize(case)
    if not isinstance(obs, list) or len(obs) != len(case['cmds']):
        return 'harness: %s' % (obs,)
    table = {}      # pattern -> dict(flat, filters, methods={M: (h, names)}, rule)
    for c, o in zip(case['cmds'], obs):
        if c['op'] == 'add':
            pattern, params, filters, _a, _b = Route.parse_rule(c['rule'])
            fl = L.flat_pattern(pattern, filters)
            ms = [m.upper() for m in (c['methods'] if isinstance(c['methods'], list) else [c['methods']])]
            clash = [p for p, e in table.items() if L.conflict(fl, e['flat'])]
            same = [p for p, e in table.items() if e['flat'] == fl]
            if o == 1:
                if not clash:
                    return 'registration of %r rejected for a filter mismatch although no registered rule has another filter at that position' % c['rule']
                continue
            if clash:
                return 'registration of %r accepted although %r has a different filter at the same position' % (c['rule'], clash[0])
            ent = table[same[0]] if same else None
            taken = ent is not None and any(m in ent['methods'] for m in ms)
            if o == 5:
                if c.get('overwrite') or not taken:
                    return 'registration of %r %s rejected as already registered, but it is not' % (c['rule'], ms)
                continue
            if o != 0:
                return 'registration of %r failed with code %s' % (c['rule'], o)
            if taken and not c.get('overwrite'):
                return 'registration of %r %s accepted although the method is taken' % (c['rule'], ms)
            if ent is None:
                ind = _independent_filters(c['rule'])
                if ind is not None and len(ind) != len(filters):
                    return 'rule %r: %d wildcards in the text, the parser made %d' % (c['rule'], len(ind), len(filters))
                ent = table[pattern] = dict(flat=fl, filters=filters, ifilters=ind if ind is not None else filters,
                                            methods={}, rule=c['rule'], pattern=pattern)
            for m in ms:
                ent['methods'][m] = (c['h'], params)
        elif c['op'] == 'remove':
            table.pop(Route.parse_rule(c['rule'])[0], None)        # the route held under exactly this pattern, if any
        elif c['op'] in ('remove_method', 'remove_via'):
            pattern, _p, filters, _a, _b = Route.parse_rule(c['rule'])
            fl = L.flat_pattern(pattern, filters)
            same = [e for e in table.values() if e['flat'] == fl]       # same text pieces and the same filters
            ent = same[0] if same else None
            if ent is not None:
                gone = [c['verb']] if c['op'] == 'remove_via' else (
                    c['methods'] if isinstance(c['methods'], list) else [c['methods']])
                for m in gone:
                    ent['methods'].pop(m, None)
        elif c['op'] in ('dispatch', 'resolve_route'):
            sp = c['path'].strip('/')
            hits = []
            for p, e in table.items():
                # filters rebuilt from the rule text: independent of Parser and FilterFactory
                vals = L.plain_match(e['pattern'], e['ifilters'], sp)
                if vals is not None:
                    hits.append((e, vals))
            best = [(e, v) for e, v in hits if all(e2 is e or L.better(e['flat'], e2['flat']) for e2, _v in hits)]
            if hits and len(best) != 1:
                return 'spec: %d best rules among %d matching for %r' % (len(best), len(hits), c['path'])
            if c['op'] == 'resolve_route':
                want = None if not hits else [L.cps(best[0][0]['pattern']), sorted(best[0][0]['methods'])]
                got = None if o is None else [o['pattern'], sorted(''.join(map(chr, m[0])) for m in o['methods'])]
                if want != got:
                    return 'resolve(%r) without methods returns %s, the rule-by-rule matcher selects %s' % (c['path'], got, want)
                continue
            verb = (c['verb'] if c['verb'] is not None else 'GET').upper()
            cands = [verb, 'GET', 'ANY'] if verb == 'HEAD' else [verb, 'ANY']
            for view in ('direct', 'wsgi'):
                got = o[view]
                if not hits:
                    ok = got.get('kind') == 404 if view == 'direct' else (got.get('status') == 404 and got.get('calls') == [])
                    if not ok:
                        return '%s: no registered rule matches %r but the answer is %s' % (view, c['path'], _short(got))
                    continue
                e, vals = best[0]
                m = next((x for x in cands if x in e['methods']), None)
                if m is None:
                    allow = L.cps(','.join(sorted(e['methods'])))
                    ok = (got.get('kind') == 405 if view == 'direct' else got.get('status') == 405) and got.get('allow') == allow
                    if not ok:
                        return '%s: %r matches %r (methods %s) but the answer to %s is %s' % (
                            view, c['path'], e['rule'], sorted(e['methods']), verb, _short(got))
                    continue
                h, names = e['methods'][m]
                kw = sorted([L.cps(n), L.enc_value(v)] for n, v in zip(names, vals) if not n.startswith('anon-'))
                if len(names) != len(vals):
                    return 'spec: %d names for %d values' % (len(names), len(vals))
                if view == 'direct':
                    ok = got.get('kind') == 200 and got.get('h') == h and got.get('kw') == kw and got.get('method') == L.cps(m)
                else:
                    calls = [x for x in got.get('calls', []) if x[0] == 'handler']
                    ok = got.get('status') == 200 and calls == [['handler', h, kw]]
                if not ok:
                    return '%s: %r should select %r (%s, handler %d) with %s, got %s' % (
                        view, c['path'], e['rule'], m, h, _kw(kw), _short(got))
    return None


def _kw(kw):
    return {''.join(map(chr, k)): ''.join(chr(x) if x < 0x110000 else '#' for x in v) for k, v in kw}


def _short(got):
    g = dict(got)
    if 'kw' in g:
        g['kw'] = _kw(g['kw'])
    return str(g)[:300]


def nontrivial(case, obs):
    case = _sanitize(case)
    firsts = {}
    for c, o in zip(case['cmds'], obs):
        if c['op'] == 'add' and o == 0:
            seg = c['rule'].split('/')[1] if '/' in c['rule'] else ''
            firsts[seg] = firsts.get(seg, set()) | {c['rule']}
    shared = any(len(v) >= 2 for v in firsts.values())
    wild = any(c['op'] == 'dispatch' and isinstance(o, dict) and o['direct'].get('kind') == 200
               and o['direct'].get('kw') for c, o in zip(case['cmds'], obs))
    return shared and wild


def key(case):
    return (tuple(c.get('rule') or c.get('path') for c in case['cmds']),)


def classify(case, obs):
    if case.get('malformed'):
        return 'malformed-stream'
    kinds = set()
    rej = set()
    for c, o in zip(_sanitize(case)['cmds'], obs):
        if c['op'] == 'dispatch' and isinstance(o, dict):
            kinds.add(o['direct'].get('kind'))
        elif c['op'] == 'add' and o != 0:
            rej.add({1: 'filter-conflict', 5: 'method-taken'}.get(o, 'err%s' % o))
    return 'answers=%s/rejected=%s' % (sorted(kinds, key=str), sorted(rej))


def shrink(case):
    return L.shrink_cmds(case)


def _cr_in_path(case, what, m):
    return any(c['op'] == 'dispatch' and '\r' in c['path'] for c in case['cmds'])


API_SURFACE = L.API_SURFACE          # audit round 4: see tools/props/routerC_lib.py

PREDICATES = {'cr_in_path': _cr_in_path}

MANIFEST = dict(
    text=('Proof (Coq 8.16.1, every theorem closed under the global context, for ALL filters, rule scripts and paths): '
          'C01_get_dfs_spec (on every well-formed radix tree the depth-first lookup with look-back returns exactly the held '
          'pattern the left-to-right matcher prefers: literal before wildcard at the first difference, whole path, and '
          'fails iff no held pattern matches — the answer depends only on the set of held patterns, not on the tree shape); '
          'C01_wf_insert / C01_insert_paths (_set/_match/_split/_make_route/_mount keep the tree well-formed and add exactly '
          'the new pattern; splits change nothing); C01_resolve_eq_spec (for every script of registrations in any order — '
          'duplicates, overwrite, rejected conflicting filters, several rules on one pattern, names, method removals — '
          'RadiRouter.resolve equals the rule-by-rule spec of coq/model/RouteSpec.v on the rules the routes index lists, '
          '404 iff no rule matches); C01_accepted_rule_is_registered / C01_rejected_rule_changes_nothing; C01_params_exact '
          '(kwargs = names of the registration the handler was made with, zipped with the spec values; one value per '
          'wildcard) and C01_no_rejected_value (a filtered value is the first component of a successful answer of its own '
          'filter); C01_F1_unguarded_variant_refuted records the repaired defect F1. The model (coq/model/Router.v) is tied '
          'to /repo on every run by a differential correspondence on Ombott.to_route and Ombott.__call__ (extracted OCaml + '
          'vm_compute), and an independent plain matcher using the real filters is the oracle.'),
    note=('Trusted: Coq kernel + vm_compute; extraction (ExtrOcamlBasic); the Python harness. Filters enter as a section '
          'variable (regex engine and int/float converters not modelled; the correspondence samples the real filter on '
          'every suffix of the probe path); rex selectors excluded; guard = one filter per wildcard (what parse_rule '
          'produces; duplicate wildcard names make the code raise IndexError). The rule parser is exercised through the '
          'correspondence here and modelled with a print/parse round trip in the sub-check C01p. Not proved: that a '
          'registration is rejected ONLY when a conflicting rule exists (checked by the oracle on every run).'),
    technique='Coq proof (structural induction on the tree; refinement to a list-of-rules spec) + correspondence',
    design_ref='DESIGN.md section 4, C01; Appendix A.2, A.6',
)
