"""C19 — building a URL from matched parameters leads back to the same match."""
import itertools

from props.common import enc_str, enc_list, Reader

ID = 'C19'
COQ_MODEL = 'model.RouteUrl'
COQ_CORR = 'corr_C19'
N_QUICK = 2500
N_THOROUGH = 12000
THOROUGH_EXHAUSTIVE = False
VM_CASES = 80          # the first cases are also evaluated inside Coq (vm_compute); the corpus minus its last entry
RULE = ('cases = corpus + random rules printed from abstract token lists (literal chunks incl. digits, "-", ".", '
        'non-ASCII; values containing CR (the wildcard marker), LF, NUL, TAB; plain wildcards in the three flavours :n <n> {n}; int/float/re/path filters in bottle and dotted '
        'flavour, named and anonymous; adjacent wildcards, adjacent literals, leading/trailing literals) x paths that '
        'instantiate the rule (then mutated) -> single-rule RadiRouter.resolve, Route.url(*anon, **kw) with the matched '
        'values, resolve again; plus a malformed stream calling Route.url with missing/extra/wrongly typed arguments. '
        'Round-4 additions: sequences of url() calls on several Route objects built side by side or held by one '
        'router (same rule twice, renamed copy, other filter argument; repeated calls; a complete call followed by one '
        'lacking an argument), a fresh-interpreter baseline for ~1% of the cases, rex selectors and a user-registered '
        'filter (implementation only), Unicode digits / lone surrogates / trailing newline. '
        'non-trivial = the path matched and the rule has at least one wildcard and one literal chunk; '
        'distinct by (rule, path or arguments)')
TRUSTED = [
    'section variables of coq/model/RouteUrl.v: rx (Python re: compiled mask matched once at the start of the text, '
    'None or m.end()) and fconv (float(text) printed by str()); theorems hold for every rx/fconv; the correspondence '
    'instantiates them with tables filled by calling the real compiled filters',
    'modelled, not verified: the int filter as -?[0-9]+ / int / str.int over ASCII digits (lib/PyIntDec.v, on top of '
    'Coq stdlib DecimalZ); Python \\d and int() also accept non-ASCII decimal digits — such paths are checked by the '
    'oracle on the implementation only',
    'modelled, not verified: the rule parser (Parser/SymStream): the model receives Route.parse_rule\'s result '
    '(pattern_out, params, filters); the oracle compares every syntax flavour against the abstract rule it was printed from',
    'model/RouteSpec.v match1 (owned by C01) is the meaning of "the rule matches the path"; its agreement with '
    'RadiRouter.resolve on single-rule routers is part of this correspondence, the general statement is C01',
    'rex filters (group selectors) and filters registered by the user are outside the model and the theorems; the '
    'oracle checks the round trip for them on the implementation',
    'C19_calls_independent holds of the model because it is a function; that Route.url keeps no state between calls is '
    'checked by the correspondence on call sequences and by the fresh-interpreter baseline (VERIF_COVERAGE=1 prints the '
    'line coverage of the anchored functions: 125/125)',
]
ASSUMPTIONS = ['literal text of a rule contains no CR', 'wildcard names of a rule are distinct',
               'no rex selector filters']

TAG_S, TAG_I, TAG_F = 0, 1, 2

# Round-4 audit: everything of the anchored classes that can influence what C19 observes.
API_SURFACE = [
    ('Route(rule) / Route.__init__', 'covered by every case (single: through RadiRouter.add; multi via=route: built directly, '
                                     'several side by side, the same rule twice)'),
    ('Route.url(*args, **kw)', 'covered by path cases (matched values, anonymous ones positional), args cases (missing / '
                               'extra / wrongly typed), multi cases (repeated and interleaved calls on shared objects)'),
    ('Route.url early return (no params)', 'covered by static rules in all three kinds, incl. extra args/kw'),
    ('Route.parse_rule (classmethod; also RadiRouter.parse_rule)', 'covered by every case; every syntax flavour printed by '
                                                                     'print_tok; the oracle compares with the abstract rule'),
    ('Route.make_params_dict', 'covered by path cases (kwargs of resolve compared with the named wildcards)'),
    ('Route.params_signature', 'covered by every RadiRouter.add (filters handed to the tree); a mismatch shows as a '
                               'rejected add in multi via=router'),
    ('Route.anon_prefix', "covered: names starting with 'anon' but not 'anon-' (anon_1, anonymous2) are generated"),
    ('Route.parser (class-level Parser instance)', 'covered: shared by all Routes of the process; fresh-process baseline'),
    ('Route.pattern / pattern_out / params / filters / filters_out', 'covered (read by url / by the correspondence encoder)'),
    ('Route.make_filter = FilterFactory.make_filter(filter, args)', 'covered: all table entries, with and without args, bottle '
                                                                     'and dotted syntax, cache hit and miss'),
    ('FilterFactory.filters (public table)', "covered: re, int, float, path in the model; rex and a user-registered entry "
                                             "('up2', two-argument converter + own formatter) on the implementation only"),
    ('FilterFactory._filter_cache (class-level, key filter(args))', 'covered: equal keys shared between Routes, same filter '
                                                                    'with other args (_refilter), path filters with different following literals; fresh-process baseline'),
    ('handler variants of make_filter', 'covered: one-argument converter (int, float), no converter (re, path), two-argument '
                                        'converter returning _RouteFilterExhaust (rex) and a plain value (up2)'),
    ('_rex / _RouteFilterExhaust / selectors', 'covered on the implementation only (oracle); excluded from the model and the '
                                               'theorems: the selector rewrites the remaining path'),
    ('RadiRouter.add(rule, methods, handler, name=)', 'covered: single rule; several rules, one method and one name each '
                                                      '(multi via=router); overwrite= and meta= excluded: do not reach url'),
    ('RadiRouter.__getitem__(name)', 'covered by multi via=router (the Route is fetched by name); dict/set keys excluded: '
                                     'same Route object'),
    ('RadiRouter.resolve(path, methods)', 'covered (observation point); methods=None form excluded: returns the Route only'),
    ('RadiDict.get (param_keys / param_values)', 'covered (near-public: anonymous values are not in the kwargs)'),
    ('RouteMethod.params (names per registration, fix F2)', 'covered by multi via=router with renamed rules -> finding '
                                                            'F19-shared-route-names (url uses Route.params)'),
    ('Route.add_method / set_method / remove_method / __call__ / methods', 'excluded: method table, C02'),
    ('RadiRouter.remove / add_hook / remove_hook', 'excluded: C11'),
    ('Parser / SymStream internals', 'excluded from the model (C01 stage 4); exercised by every rule flavour'),
]


# --------------------------------------------------------------------------
# abstract rules.  token = ['L', text] | ['W', name|None, filter|None, arg|None, flavour(, rex selector)]
# --------------------------------------------------------------------------

def print_tok(t, nxt):
    if t[0] == 'L':
        return t[1]
    _, name, flt, arg, fl = t[:5]
    sel = t[5] if len(t) > 5 else None
    if flt is None:
        if fl == ':':
            return ':' + name
        return {'<': '<%s>', '{': '{%s}'}[fl] % name
    op, cl = ('<', '>') if fl.endswith('<') else ('{', '}')
    if fl[0] == 'b':      # bottle style  <name:filter[:args]>
        s = (name or '') + ':' + flt
        if arg:
            s += ':' + arg
    else:                 # dotted style  <name.filter(args)> / <filter(args)>
        s = (name + '.' if name else '') + flt + '(' + (arg or '') + ')'
        if sel is not None:
            s += '[%d]' % sel          # rex group selector
    return op + s + cl


def print_rule(toks):
    return '/' + ''.join(print_tok(t, toks[i + 1] if i + 1 < len(toks) else None) for i, t in enumerate(toks))


def W(name, flt=None, arg=None, fl='<'):
    if flt is not None and fl in ('<', '{'):
        fl = 'b' + fl
    return ['W', name, flt, arg, fl]


def L(s):
    return ['L', s]


def mk(toks, path=None, args=None, kw=None, **extra):
    c = dict(toks=toks, rule=print_rule(toks), path=path)
    if path is None:
        c['args'] = args or []
        c['kw'] = kw or {}
    c.update(extra)
    return c


def corpus():
    big = '12345678901234567890'
    return [
        # ---- F19: float formatter leaves the plain decimal syntax (finding)
        mk([L('f/'), W('x', 'float')], '/f/0.00001'),
        mk([L('f/'), W('x', 'float')], '/f/' + big),
        mk([L('f/'), W('x', 'float')], '/f/1.5'),
        mk([L('f/'), W('x', 'float')], '/f/-0'),
        # ---- F19: a regex filter that matches the empty string (finding)
        mk([W('x', 're', 'a*', 'd<'), L('z')], '/z'),
        mk([W('x', 're', 'a*', 'd<'), L('z')], '/aaz'),
        # ---- F19path (fixed): path wildcard followed by literal text
        mk([L('p/'), W('x', 'path'), L('/e')], '/p/a/b/e'),
        mk([L('p/'), W('x', 'path', fl='d<'), L('/e/'), W('y')], '/p/a/e/b/e/q'),
        mk([L('p/'), W('x', 'path')], '/p/a/b/e'),
        mk([W(None, 'path', fl='d{'), L('.txt')], '/a/b.txt'),
        # ---- adjacent int wildcards, "-0" prints as "0" (finding)
        mk([W('x', 'int'), W('y', 'int')], '/12-0'),
        mk([W('x', 'int'), W('y', 'int')], '/12-3'),
        mk([W('x', 'float'), W('y', 'int')], '/1.5-0'),
        # ---- slice bookkeeping: adjacent wildcards, leading/trailing literals
        mk([W('x'), W('y', 'int')], '/ab/12'),
        mk([L('a'), W('x', fl='{'), L('bc'), W('y'), L('/'), W('z', fl=':')], '/aXbcY/Z'),
        mk([L('abc/de')], '/abc/de'),
        mk([W('x')], '/v'),
        mk([W('x'), L('/'), W('y'), L('/'), W('z')], '/1//3'),
        mk([L('a/'), W('x'), L('/b')], '/a//b'),
        mk([W(None, 'int'), L('/'), W(None, 're', '[a-z]+'), L('/'), W('n')], '/12/abc/q'),
        mk([W('x', 'int')], '/-007'),
        mk([W('x', 'int'), L('0')], '/120'),
        mk([L('a'), W('x', 'int', fl='d{'), L('-'), W('y', 'int', fl='d<')], '/a-0--0'),
        mk([W('x', 'int')], '/١٢'),                       # non-ASCII digits: oracle only
        mk([L('é/'), W('x'), L('\U0001f600')], '/é/中\U0001f600'),
        # ---- values that contain the wildcard marker CR / control characters, more wildcards following
        # (a builder that re-scans already substituted text fills the next value into the previous one)
        mk([W('a'), L('/'), W('b')], '/x\ry/z'),
        mk([W('a'), L('/'), W('b', fl='{'), L('/'), W('c', 'int')], '/\r/\r\r/7'),
        mk([L('p/'), W('a', 'path'), L('/e/'), W('b'), L('.'), W(None, 're', '[^/]+')], '/p/q\rr/e/\n.\r'),
        mk([W('a'), L('-'), W(None, 'int')], None, [['i', 5]], {'a': ['s', 'x\ry']}),
        # ---- one fixed witness per listed finding, so that every run prints all six KNOWN-FINDING lines whatever the seed:
        # F19-float: /f/0.00001 ; F19-empty: /<x.re(a*)>z on /z ; F19-minus-zero: /12-0 (all above) ;
        # F19-shared-route-names: the /u/<a> + /u/<b> router below ; and the two that follow
        mk([W('x', 'path'), L('.'), W('y', 'float'), L('//b')], '/1.0//b'),                       # F19-float-regex
        mk([['W', 'x', 'rex', '(x+)y', 'd<', None], L('/'), W('n', 'int')], '/xy/7'),             # F19-rex-group
        # ---- a value that begins with '/' directly after a literal ending in '/' (doubled slash in the request path)
        mk([L('files/'), W('p', 'path')], '/files//etc/passwd'),
        mk([L('files/'), W('p', 'path')], '/files//'),
        mk([L('files/'), W('p', 're', '.+', 'd<'), L('.txt')], '/files//a//b.txt'),
        mk([L('d/'), W(None, 're', '/?[a-z]+'), L('/'), W('q', 're', '/?[a-z]+', 'd{')], '/d//abc//q'),
        mk([L('files/'), W('p', 'path')], None, [], {'p': ['s', '/abs/path']}),
        # ---- percent signs in the request path are plain text: a value is written back verbatim and must come back verbatim
        mk([L('files/'), W('name')], '/files/%2541'),
        mk([L('files/'), W('name', 're', '[^/]+')], '/files/a%2Fb'),
        mk([W('a'), L('/'), W('p', 'path')], '/%/%zz/100%/%25'),
        # ---- masks that look behind their own start, at a non-zero offset (the filter sees only the rest of the path)
        mk([L('img/'), W('w', 'int'), L('x'), W('h', 're', r'(?<=x)\d+')], '/img/640x480'),
        mk([L('id'), W('num', 're', r'\B\d+', 'd<')], '/id123'),
        mk([L('id'), W('num', 're', r'\b\d+', 'd<')], '/id123'),
        mk([L('v-'), W('w', 're', r'\b[a-z]+'), L('/'), W('u', 're', '^a+', 'd{')], '/v-abc/aa'),
        mk([W('w', 'int'), W('h', 're', r'(?<![0-9])-?\d+', 'd<')], '/12-5'),
        mk([L('a'), W('h', 're', r'(?<!a)\d+')], '/a12'),
        # ---- literal text containing closing delimiters / template metacharacters
        mk([L('tpl/}/'), W('name')], '/tpl/}/v'),
        mk([L('set'), W('a', 'int', fl='d{'), L('}/end')], '/set7}/end'),
        mk([L('js/}}/'), W('n', 'int')], '/js/}}/7'),
        mk([L('a>%s/'), W('x'), L('$1')], '/a>%s/v$1'),
        # ---- raw request paths with doubled slashes at their ends, first/last wildcard able to hold '/'
        mk([L('files/'), W('p', 'path')], '/files/css//'),
        mk([L('files/'), W('p', 'path')], '//files/css'),
        mk([W('p', 'path')], '//a/b//'),
        mk([W('p', 're', '.+', 'd<')], '/x//'),
        mk([W('p', 're', '.+', 'd<'), L('/e')], '//x/e/'),
        mk([W('p', 'path')], '///'),
        mk([L('a/'), W('x')], '/a/v//'),
        # ---- several rules in one process: Route objects side by side / one router; repeated calls
        mk_multi('route', [[W('x', 'int')], [W('x', 'float')], [W('x')], [W('x', 're', '[a-z]+')], [W('x', 're', 'a*', 'd<')]],
                 [[0, '/7'], [1, '/7'], [2, '/7'], [0, '/7'], [3, '/ab'], [4, '/aa'], [1, '/1.5'], [0, None, [], {'x': ['s', '+3']}]],
                 fresh=True),
        mk_multi('router', [[L('u/'), W('a')], [L('u/'), W('b')]], [[0, '/u/5'], [1, '/u/5'], [0, '/u/5']]),  # finding
        mk_multi('router', [[L('p/'), W('x', 'path'), L('/e')], [L('p/'), W('y', 'path'), L('.txt')], [L('p/'), W('x', 'int')]],
                 [[0, '/p/a/b/e'], [1, '/p/a/b.txt'], [2, '/p/12'], [0, '/p/a/b/e']], fresh=True),
        mk_multi('route', [[L('a/'), W('x')], [L('a/'), W('x')]], [[0, '/a/1'], [1, '/a/2'], [0, '/a/1']]),
        # arguments of an earlier call must not be remembered: complete call, then calls that lack a parameter
        mk_multi('route', [[L('a/'), W('x'), L('/'), W(None, 'int')], [L('b/'), W('x')]],
                 [[0, None, [['i', 5]], {'x': ['s', 'v']}], [0, None, [['i', 5]], {}], [1, None, [], {}],
                  [0, None, [], {'x': ['s', 'v']}]]),
        # ---- rex selectors and a user-registered filter (implementation only)
        mk([L('a/'), ['W', 'x', 'rex', '(foo)|(bar)', 'd<', 1], L('baz')], '/a/foobaz'),
        mk([L('a/'), ['W', 'x', 'rex', '(foo)|(bar)', 'd<', 2], L('baz')], '/a/barbaz'),
        mk([L('a/'), ['W', None, 'rex', 'fo+', 'd{', None], L('/q')], '/a/foo/q'),
        mk([L('a/'), ['W', 'x', 'rex', '(foo)|(bar)', 'd<', 1], L('baz')], '/a/barbaz'),
        mk([W('x', 'up2'), L('/'), W('y', 'up2', fl='d{')], '/abc/q', fresh=True),
        # ---- alphabets: Unicode digits (\\d and int() take them, the model does not), lone surrogate, '$' vs newline
        mk([W('x', 'int'), L('/'), W('y', 'float')], '/１２/٣.٥'),
        mk([W('x'), L('/'), W('y', 're', '[^/]+')], '/\ud800/\udfff²'),
        mk([L('p/'), W('x', 'path')], '/p/a/b\n'),
        mk([W('x', 're', '[a-z]+', 'd<')], '/ab\n'),
        # ---- explicit arguments (malformed stream)
        mk([L('a/'), W('x'), L('/b')], None, [], {}),                               # KeyError
        mk([L('a/'), W(None, 'int')], None, [], {}),                                # IndexError
        mk([L('a/'), W('x', 'int')], None, [], {'x': ['s', 'abc']}),                # ValueError
        mk([L('a/'), W('x', 'int')], None, [], {'x': ['s', '+007']}),
        mk([L('a/'), W('x')], None, [], {'x': ['i', 5]}),                           # TypeError at join
        mk([L('a/'), W('x', 're', '[a-z]+')], None, [], {'x': ['i', 5]}),           # TypeError in the filter
        mk([L('a/'), W('x', 're', '[a-z]+')], None, [], {'x': ['s', '123']}),       # AssertionError
        mk([L('a/'), W('x', 're', '[a-z]+')], None, [], {'x': ['s', 'abc123']}),    # passes the weak assertion
        mk([L('a/'), W('x'), L('/'), W(None, 'int'), W(None, 'int')], None, [['i', 1], ['i', -2], ['i', 3]],
           {'x': ['s', 'v'], 'y': ['s', 'unused']}),
        mk([L('abc')], None, [['i', 1]], {'x': ['s', 'v']}),
        # float('9' * 400) = inf: the builder asserts (kept last: its filter table is large, see VM_CASES)
        mk([L('f/'), W('x', 'float')], '/f/' + '9' * 400),
    ]


LITS = ['a', 'ab', 'abc', 'b', 'e', 'x-y', '0', '7', '-', '.5', 'a.b', '.txt', 'z', 'é', '10', 'files/', 'a/',
        # closing delimiters are plain literal text for the parser (and special for str.format / % templates)
        '}', '}}', 'a}b', '>', '%s', '$1']
SEPS = ['/', '/', '/', '', '-', '.']
RE_ARGS = ['[a-z]+', 'a*', '[^/]+', r'\d{2}', 'ab|a', '[a-z]*', '/?[a-z]+', '.+']
# masks that look BEHIND their own start (lookbehind, word boundary, anchors): the router applies a filter to the rest
# of the path, so for them the wildcard starts a fresh string — exactly what Route.url validates against
CTX_ARGS = [r'(?<=x)\d+', r'(?<!a)\d+', r'\B\d+', r'\b\d+', r'\b[a-z]+', r'\B[a-z]+', '^a+', r'\Aab?', r'(?<![0-9])-?\d+']
CTX_VALS = {r'(?<=x)\d+': ['480', '7'], r'(?<!a)\d+': ['12', '0'], r'\B\d+': ['123', '4'], r'\b\d+': ['123', '4'],
            r'\b[a-z]+': ['abc', 'q'], r'\B[a-z]+': ['abc', 'q'], '^a+': ['a', 'aaa'], r'\Aab?': ['a', 'ab'],
            r'(?<![0-9])-?\d+': ['-5', '5']}
CTX_PREFIX = ['x', 'id', 'ax', 'a', '-', '/', '0', 'img/640x', 'z.', '']
# values may contain the wildcard marker itself (%0D in a request path is plain text since fix F1) and other controls
PLAIN_VALS = ['v', 'abc', '', '12', 'a.b', 'é', '-0', 'x y', '0', 'a-b', 'x\ry', '\r', '\r\r', 'a\nb', '\x00', '\t7',
              'b\n', '\ud800', '²', 'ß\u0130', '\U0001f600',
              # percent signs are plain text for the router (decoding PATH_INFO is the server's business, once)
              '%41', '%2541', '%2F', '%', '%zz', 'a%20b', '%252F', '%25', '100%']
# (\d and int() accept every Unicode Nd digit; isdigit() also accepts superscripts, which \d does not)
INT_VALS = ['0', '7', '-7', '007', '-0', '42', '12345678901234567890', '-00', '10', '１２', '٣', '7²']
FLOAT_VALS = ['1.5', '0.00001', '3', '-0', '-2.50', '12345678901234567890', '0.1', '10.0', '1.0', '123456.789',
              '0.0001', '100000000000000000', '-0.0']
REX_ARGS = [('(foo)|(bar)', 1), ('(foo)|(bar)', 2), ('fo+', None), ('(a)|(b)|(c)', 3), ('(x+)y', None)]
REX_VALS = {('(foo)|(bar)', 1): ['foo', 'bar'], ('(foo)|(bar)', 2): ['bar', 'foo'], ('fo+', None): ['fo', 'foo', 'f'],
            ('(a)|(b)|(c)', 3): ['c', 'a'], ('(x+)y', None): ['xxy', 'xy']}
RE_VALS = {'/?[a-z]+': ['/abc', 'abc', '/q'], '.+': ['/etc/passwd', '/', 'a/b', '//', 'x'],
           '[a-z]+': ['a', 'abc', 'zz', '', 'ab\n'], 'a*': ['', 'a', 'aaa'], '[^/]+': ['a', 'a-b.c', '12', 'x\ry', '\r', '%41', '%2541', 'a%2Fb'],
           r'\d{2}': ['12', '00', '123'], 'ab|a': ['ab', 'a'], '[a-z]*': ['', 'q', 'abc']}
# (a path/re value may begin with '/': a request path with a doubled slash at the wildcard, /files//etc/passwd)
PATH_VALS = ['a%2Fb/c', '%2541/%', '/etc/passwd', '/', '//x', '/a/', 'a', 'a/b', 'a/b/c.txt', 'e/e', 'x.y/z', 'q\rr/s', '\r/\r', 'a\n', 'a\nb/c', '\ud800/x']


def gen_toks(rng):
    n = rng.choice([1, 2, 2, 3, 3, 4, 5])
    toks = []
    k = 0
    for i in range(n):
        if i:
            sep = rng.choice(SEPS)
            if sep:
                toks.append(L(sep))
        r = rng.random()
        if r < 0.35:
            toks.append(L(rng.choice(LITS)))
            continue
        name = 'x%d' % k if rng.random() < 0.9 else rng.choice(['anon_%d', 'anonymous%d', 'an%d']) % k
        k += 1
        r = rng.random()
        if r < 0.3:
            toks.append(W(name, fl=rng.choice(['<', '{', ':'])))
        else:
            flt = rng.choice(['int', 'int', 'float', 're', 're', 'path'])
            arg = rng.choice(RE_ARGS) if flt == 're' else None
            fl = rng.choice(['b<', 'd<', 'b{', 'd{'])
            if rng.random() < 0.25:
                name = None
            r = rng.random()
            if r < 0.04:
                # rex: group selector filters (implementation only, not in the model)
                arg, sel = rng.choice(REX_ARGS)
                toks.append(['W', name, 'rex', arg, rng.choice(['d<', 'd{']), sel])
                continue
            if r < 0.07:
                toks.append(W(name, 'up2', None, fl))      # a filter registered by the user (harness)
                continue
            toks.append(W(name, flt, arg, fl))
    if rng.random() < 0.15:
        toks.append(L(rng.choice(['/', '/x', 'end'])))
    # merge adjacent literals half of the time (both shapes must parse to the same rule)
    # repair what the rule syntax cannot express
    out = []
    for i, t in enumerate(toks):
        if t[0] == 'W' and t[4] == ':':
            nxt = toks[i + 1] if i + 1 < len(toks) else None
            if nxt is not None and not (nxt[0] == 'L' and nxt[1].startswith('/')):
                t = W(t[1], fl='<')
        out.append(t)
    # a literal chunk must not contain rule syntax
    return out


def tok_value(rng, t):
    if t[0] == 'L':
        return t[1]
    flt = t[2]
    if flt is None:
        return rng.choice(PLAIN_VALS)
    if flt == 'int':
        return rng.choice(INT_VALS)
    if flt == 'float':
        return rng.choice(FLOAT_VALS)
    if flt == 're':
        return rng.choice(CTX_VALS[t[3]] if t[3] in CTX_VALS else RE_VALS[t[3]])
    if flt == 'rex':
        return rng.choice(REX_VALS[(t[3], t[5])])
    if flt == 'up2':
        return rng.choice(['abc', 'q', 'zz', 'aB'])
    return rng.choice(PATH_VALS)


def mutate(rng, p):
    r = rng.random()
    if not p:
        return p
    i = rng.randrange(len(p))
    if r < 0.3:
        return p[:i] + p[i + 1:]
    if r < 0.6:
        return p[:i] + rng.choice(['/', '0', '-', 'a', '.', '٣', '\r', '\n']) + p[i:]
    if r < 0.8:
        return p + rng.choice(['/', '/x', '0', 'a'])
    return p[:i]


def slashes(rng, p):
    """doubled slashes at the ends of the raw request path (resolve's normalisation must be idempotent)"""
    return rng.choice(['/', '//', '', '/']) + p + rng.choice(['/', '//', '///', '/'])


def rand_pyval(rng):
    r = rng.random()
    if r < 0.5:
        return ['s', rng.choice(PLAIN_VALS + INT_VALS + ['abc', '+5', '1_0', ' 7', '٣', 'p\rq'])]
    if r < 0.8:
        return ['i', rng.choice([0, 7, -7, 12345678901234567890, -1, 10])]
    return ['f', rng.choice(['1.5', '1e-05', 'inf', '-0.0', '3.0'])]


def gen_args(rng, toks):
    """explicit arguments for a rule (malformed stream: missing, extra, wrongly typed)"""
    args, kw = [], {}
    for t in toks:
        if t[0] != 'W':
            continue
        r = rng.random()
        if r < 0.12:
            continue                                    # missing
        if r < 0.6:
            flt = t[2]
            v = tok_value(rng, t)
            if flt == 'int' and rng.random() < 0.7:
                try:
                    val = ['i', int(v)]
                except ValueError:
                    val = ['s', v]
            elif flt == 'float':
                val = ['f', repr(float(v))]
            else:
                val = ['s', v]
        else:
            val = rand_pyval(rng)
            if t[2] == 'float' and val[0] != 'f':
                val = ['f', '2.5']                      # float() of str/int is not modelled
            if t[2] == 'int' and val[0] == 'f':
                val = ['i', 3]                          # int() of a float is not modelled
        if t[1] is None:
            args.append(val)
        else:
            kw[t[1]] = val
    if rng.random() < 0.15:
        args.append(rand_pyval(rng))
    if rng.random() < 0.15:
        kw['extra'] = rand_pyval(rng)
    return args, kw


def _full_args(rng, toks):
    args, kw = [], {}
    for t in toks:
        if t[0] != 'W':
            continue
        v = tok_value(rng, t)
        if t[2] == 'int':
            try:
                val = ['i', int(v)]
            except ValueError:
                val = ['i', 7]
        elif t[2] == 'float':
            val = ['f', repr(float(v))]
        else:
            val = ['s', v]
        if t[1] is None:
            args.append(val)
        else:
            kw[t[1]] = val
    return args, kw


def mk_multi(via, rules, ops, **extra):
    c = dict(kind='multi', via=via, rules=rules, ops=ops, toks=[], rule='<%d rules>' % len(rules), path=None)
    c.update(extra)
    return c


def _rename(toks):
    return [t if t[0] == 'L' or t[1] is None else [t[0], t[1] + 'r'] + list(t[2:]) for t in toks]


def _refilter(rng, toks):
    """the same shape with another filter / filter argument at one wildcard (cache keys, shared masks)"""
    out = [list(t) for t in toks]
    ws = [i for i, t in enumerate(out) if t[0] == 'W' and t[2] not in ('rex', 'up2')]
    if not ws:
        return out
    t = out[rng.choice(ws)]
    if t[2] == 're':
        t[3] = rng.choice([a for a in RE_ARGS if a != t[3]])
    elif t[2] == 'int':
        t[2] = 'float'
    elif t[2] == 'float':
        t[2] = 'int'
    elif t[2] is None and t[4] != ':':
        t[2], t[4] = 'int', 'b' + t[4]
    return out


def gen_ctx_toks(rng):
    """a re wildcard with a context-sensitive mask at a non-zero offset: after literal text and/or another wildcard"""
    toks = []
    if rng.random() < 0.4:
        toks += [L(rng.choice(['img/', 'n/', ''])), W('w', rng.choice(['int', None, 'float']))]
        toks = [t for t in toks if t != L('')]
    pre = rng.choice(CTX_PREFIX)
    if pre and not (pre.startswith('/') and not toks):       # '//...' is not a rule
        toks.append(L(pre))
    toks.append(W(rng.choice(['h', None]), 're', rng.choice(CTX_ARGS), rng.choice(['b<', 'd<', 'b{', 'd{'])))
    if rng.random() < 0.4:
        toks += [L(rng.choice(['/', '.png', '-'])), W('t')]
    return toks


def gen_multi(rng):
    n = rng.choice([2, 2, 3, 4])
    rules = [gen_toks(rng)]
    while len(rules) < n:
        r = rng.random()
        base = rng.choice(rules)
        if r < 0.25:
            rules.append(_rename(base))                  # same pattern, other names
        elif r < 0.4:
            rules.append([list(t) for t in base])        # the same rule once more
        elif r < 0.6:
            rules.append(_refilter(rng, base))
        else:
            rules.append(gen_toks(rng))
    ops = []
    for _ in range(rng.randrange(2, 7)):
        ri = rng.randrange(n)
        if rng.random() < 0.8:
            ops.append([ri, '/' + ''.join(tok_value(rng, t) for t in rules[ri])])
        else:
            a, k = gen_args(rng, rules[ri])
            ops.append([ri, None, a, k])
    if rng.random() < 0.6:
        ops.append(list(rng.choice(ops)))                # the same call again, after others
    if rng.random() < 0.4:
        # a complete call, then the same call with one argument less (on the same rule or on one with equal names)
        ri = rng.randrange(n)
        a, k = _full_args(rng, rules[ri])
        ops.append([ri, None, a, k])
        if k and rng.random() < 0.7:
            k2 = dict(k)
            del k2[rng.choice(sorted(k2))]
            ops.append([ri, None, a, k2])
        elif a:
            ops.append([ri, None, a[:-1], k])
    return mk_multi(rng.choice(['route', 'router']), rules, ops)


def gen(rng, n):
    for _ in range(n):
        if rng.random() < 0.08:
            c = gen_multi(rng)
        else:
            toks = gen_ctx_toks(rng) if rng.random() < 0.05 else gen_toks(rng)
            if rng.random() < 0.82:
                p = '/' + ''.join(tok_value(rng, t) for t in toks)
                if rng.random() < 0.2:
                    p = mutate(rng, p)
                if rng.random() < 0.12:
                    p = slashes(rng, p)
                c = mk(toks, p)
            else:
                # malformed stream: explicit arguments
                a, k = gen_args(rng, toks)
                c = mk(toks, None, a, k)
        if rng.random() < 0.008:
            c['fresh'] = True                            # also observed in a fresh interpreter
        yield c


def thorough():
    """bounded enumeration: every rule of <= 3 tokens over a small pool x every path that instantiates it"""
    pool = [L('a'), L('/'), L('-'), L('0'),
            W('x'), W('y', fl='{'), W('n', 'int'), W('m', 'int', fl='d{'), W(None, 'int', fl='d<'),
            W('r', 're', 'a*', 'd<'), W('p', 'path'), W('f', 'float')]
    vals = {None: ['', 'v', '0', '\r'], 'int': ['0', '-0', '12', '-3'], 're': ['', 'aa'], 'path': ['q', 'q/r', '/q', '/'],
            'float': ['1.5', '-0', '0.00001']}
    for ln in (1, 2, 3):
        for toks in itertools.product(pool, repeat=ln):
            names = [t[1] for t in toks if t[0] == 'W' and t[1]]
            if len(set(names)) != len(names):
                continue
            if not any(t[0] == 'W' for t in toks):
                continue
            if toks[0] == L('/'):
                continue                      # '//...' is not a rule
            choices = [[t[1]] if t[0] == 'L' else vals[t[2]] for t in toks]
            for combo in itertools.product(*choices):
                yield mk([list(t) for t in toks], '/' + ''.join(combo))
                if toks[0][2:3] == ['path'] or toks[-1][2:3] == ['path']:
                    yield mk([list(t) for t in toks], '//' + ''.join(combo) + '//')


# --------------------------------------------------------------------------
# implementation side
# --------------------------------------------------------------------------

# (OverflowError: int(float('inf')) when a float reaches an int wildcard — a wrongly typed argument, never built by the model)
_EXC = {'IndexError': 1, 'KeyError': 2, 'ValueError': 3, 'TypeError': 4, 'AssertionError': 5, 'OverflowError': 7}


def _cps(s):
    return [ord(c) for c in s]


def obs_val(v):
    """canonical observation of a parameter value"""
    if isinstance(v, bool):
        return ['other', repr(v)]
    if isinstance(v, int):
        return [TAG_I, _cps(str(v))]
    if isinstance(v, float):
        return [TAG_F, _cps(repr(v))]
    if isinstance(v, str):
        return [TAG_S, _cps(v)]
    return ['other', repr(v)]


def py_val(t):
    kind, x = t
    if kind == 's':
        return x
    if kind == 'i':
        return int(x)
    return float(x)


def _router(rule):
    from ombott.router.radirouter import RadiRouter
    R = RadiRouter()
    route = R.add(rule, 'GET', _handler)
    return R, route


def _handler(**kw):
    return kw


def _resolve(R, path):
    """-> (values in rule order, kwargs) or None; via the public resolve + the lookup it is built on"""
    # the RAW request path goes through RadiRouter.resolve, the entry the application uses; the values of the
    # anonymous wildcards (absent from the kwargs) are taken from the very lookup resolve performed, recorded on
    # the way, never from a lookup of our own on a path we normalised ourselves
    rd = R.radidict
    if not hasattr(rd, '_verif_seen'):
        inner = rd.get

        def recording_get(route, allow_partial=False):
            res = inner(route, allow_partial=allow_partial)
            rd._verif_seen = res
            return res
        rd._verif_seen = None
        rd.get = recording_get
    rd._verif_seen = None
    ep, err = R.resolve(path, 'GET')
    if err is not None:
        return None
    route, extra = rd._verif_seen
    return list(extra['param_values']), dict(ep[1]), list(extra['param_keys'])


def _build(route, args, kw):
    try:
        u = route.url(*args, **kw)
    except Exception as e:          # the enum below is what the model distinguishes
        name = type(e).__name__
        return ['err', name if name in _EXC else 'other:' + name]
    if not isinstance(u, str):
        return ['err', 'other:not-a-str']
    return ['ok', _cps(u)]


# ---- dev-only: line coverage of the anchored functions (VERIF_COVERAGE=1 ./check C19 --no-coq) ----

_COV = {'on': None, 'hit': set(), 'files': None}


def _cov_targets():
    """{filename: {lineno: function name}} for the anchored functions of C19"""
    from ombott.router import radirouter, filter_factory
    out = {}

    def add(code, label, drop_first=True):
        lines = {ln for _, _, ln in code.co_lines() if ln is not None}
        if drop_first and code.co_name != '<lambda>':
            lines.discard(code.co_firstlineno)           # the `def` line itself
        d = out.setdefault(code.co_filename, {})
        for ln in lines:
            d.setdefault(ln, label)
        for c in code.co_consts:
            if hasattr(c, 'co_lines'):
                add(c, label + '.' + c.co_name)

    R = radirouter.Route
    for name in ('__init__', 'url', 'params_signature', 'make_params_dict', 'parse_rule'):
        f = R.__dict__[name]
        f = getattr(f, '__func__', f)
        add(f.__code__, 'Route.' + name)
    F = filter_factory.FilterFactory
    add(F.__dict__['make_filter'].__func__.__code__, 'FilterFactory.make_filter')
    for k, lam in F.filters.items():
        add(lam.__code__, 'FilterFactory.filters[%s]' % k)
    add(filter_factory._RouteFilterExhaust.__init__.__code__, '_RouteFilterExhaust.__init__')
    add(filter_factory._RouteFilterExhaust.get.__code__, '_RouteFilterExhaust.get')
    return out


def _cov_tracer(frame, event, arg):
    fn = frame.f_code.co_filename
    if fn not in _COV['files']:
        return None
    if event == 'line' or event == 'call':
        _COV['hit'].add((fn, frame.f_lineno))
    return _cov_tracer


def _cov_report():
    import sys
    tg = _COV['files']
    total = sum(len(v) for v in tg.values())
    hit = sum(1 for fn, d in tg.items() for ln in d if (fn, ln) in _COV['hit'])
    print('COVERAGE C19: %d / %d lines of the anchored functions reached' % (hit, total), file=sys.stderr)
    for fn, d in sorted(tg.items()):
        src = open(fn).read().split('\n')
        for ln in sorted(d):
            if (fn, ln) not in _COV['hit']:
                print('  unreached %s:%d [%s] %s' % (fn.split('/ombott/')[-1], ln, d[ln], src[ln - 1].strip()),
                      file=sys.stderr)


def _cov_enabled():
    import os
    if _COV['on'] is None:
        _COV['on'] = os.environ.get('VERIF_COVERAGE') == '1'
        if _COV['on']:
            import atexit
            _COV['files'] = _cov_targets()
            atexit.register(_cov_report)
    return _COV['on']


def run_impl(case):
    if case.get('isolate'):
        # hermetic observation (used while shrinking sequences of calls, and by their replays)
        return _fresh_process_observation({k: v for k, v in case.items() if k != 'isolate'})
    if _cov_enabled():
        import sys
        sys.settrace(_cov_tracer)
        try:
            obs = _observe(case)
        finally:
            sys.settrace(None)
    else:
        obs = _observe(case)
    if case.get('fresh'):
        obs['fresh_same'] = _fresh_process_observation(case) == _canon(obs)
    return obs


def _canon(x):
    import json
    return json.loads(json.dumps(x))


def _fresh_process_observation(case):
    """the same case observed in a new interpreter: nothing another case left in class- or module-level state
    (FilterFactory._filter_cache, FilterFactory.filters, Route.parser, re's cache) can be seen there"""
    import json
    import os
    import subprocess
    import sys
    import ombott
    repo = os.path.dirname(os.path.dirname(os.path.abspath(ombott.__file__)))
    tools = os.path.dirname(os.path.dirname(os.path.abspath(__file__)))
    code = ('import sys, json; sys.path[:0] = [%r, %r]; sys.dont_write_bytecode = True; import props.C19 as m; '
            'print(json.dumps(m._observe(json.loads(sys.stdin.read()))))' % (repo, tools))
    c = {k: v for k, v in case.items() if k not in ('fresh', 'isolate')}
    r = subprocess.run([sys.executable, '-c', code], input=json.dumps(c), capture_output=True, text=True,
                       timeout=60, env=dict(os.environ, PYTHONHASHSEED='0'))
    if r.returncode != 0:
        return {'fresh_failed': r.stderr[-300:]}
    return json.loads(r.stdout)


def _observe(case):
    if case.get('kind') == 'multi':
        return _observe_multi(case)
    return _observe_single(case)


def _subcases(case):
    out = []
    for op in case['ops']:
        toks = case['rules'][op[0]]
        if op[1] is not None:
            out.append(mk(toks, op[1]))
        else:
            out.append(mk(toks, None, op[2], op[3]))
    return out


def _observe_multi(case):
    """several rules in one process: Route objects built side by side (via='route') or one RadiRouter holding
    all the rules, each under its own name and method (via='router'); then a sequence of url() calls on them,
    some repeated.  Every call is observed like a single case; values and re-match come from a router that
    holds only that rule."""
    from ombott.router.radirouter import Route, RadiRouter
    _ensure_custom_filter()
    rules = [print_rule(t) for t in case['rules']]
    routes = []
    if case['via'] == 'route':
        for r in rules:
            try:
                routes.append(Route(r))
            except Exception as e:
                routes.append(type(e).__name__)
    else:
        R = RadiRouter()
        for i, r in enumerate(rules):
            try:
                R.add(r, 'M%d' % i, _handler, name='n%d' % i)
                routes.append(R['n%d' % i])
            except Exception as e:
                routes.append(type(e).__name__)
    ops = []
    for op, sub in zip(case['ops'], _subcases(case)):
        route = routes[op[0]]
        if isinstance(route, str):
            ops.append(dict(add_error=route))
            continue
        o = _observe_single(sub, route=route)
        lone = _observe_single(sub)
        o['lone_same'] = (lone.get('url') == o.get('url'))
        ops.append(o)
    return dict(ops=ops)


def _ensure_custom_filter():
    """a user-registered filter (FilterFactory.filters is a public table): two-argument converter that does
    not return a _RouteFilterExhaust, with its own formatter"""
    from ombott.router.filter_factory import FilterFactory
    if 'up2' not in FilterFactory.filters:
        FilterFactory.filters['up2'] = lambda conf: (r'[a-z]+', lambda m, mo: m.upper(), lambda x: str(x).lower())


def _observe_single(case, route=None):
    _ensure_custom_filter()
    try:
        R, own = _router(case['rule'])
    except Exception as e:
        return dict(rule_error=type(e).__name__)
    if route is None:
        route = own                      # else: a Route object shared with other calls (kind 'multi')
    obs = {}
    if case.get('path') is not None:
        m = _resolve(R, case['path'])
        if m is None:
            obs['match'] = None
            return obs
        values, kw, keys = m
        obs['match'] = [obs_val(v) for v in values]
        obs['kw'] = sorted((k, obs_val(v)) for k, v in kw.items())
        args = [v for n, v in zip(keys, values) if n.startswith('anon-')]
    else:
        args = [py_val(t) for t in case['args']]
        kw = {k: py_val(t) for k, t in case['kw'].items()}
    b = _build(route, args, kw)
    obs['url'] = b
    if b[0] == 'ok':
        u = ''.join(chr(c) for c in b[1])
        m2 = _resolve(R, '/' + u)                 # as PATH_INFO
        if m2 is None:
            obs['rematch'] = None
        else:
            obs['rematch'] = [obs_val(v) for v in m2[0]]
            obs['rekw'] = sorted((k, obs_val(v)) for k, v in m2[1].items())
    return obs


def _project_single(obs, case):
    if 'rule_error' in obs or not _modelled(case):
        return {'skip': 1}
    out = {}
    for k in ('match', 'url', 'rematch'):
        if k in obs:
            out[k] = obs[k]
    return out


def _ascii_digits_only(s):
    return all((not ch.isdigit()) or ch in '0123456789' for ch in s) and all(not ch.isdecimal() or ch in '0123456789'
                                                                                for ch in s)


def _has_kind(case, k):
    return any(t[0] == 'W' and t[2] == k for t in case['toks'])


def _modelled(case):
    if case.get('kind') == 'multi':
        return True            # decided per call
    """inputs the Gallina model covers (the rest is checked by the oracle on the implementation only)"""
    if '\r' in case['rule']:
        return False               # literal text with a CR is outside the property (lits_ok)
    if _has_kind(case, 'rex') or _has_kind(case, 'up2'):
        return False               # selectors / user-registered filters: implementation only
    if _has_kind(case, 'int'):
        texts = [case.get('path') or '']
        texts += [t[1] for t in case.get('args', []) if t[0] == 's']
        texts += [t[1] for t in case.get('kw', {}).values() if t[0] == 's']
        if not all(_ascii_digits_only(s) for s in texts):
            return False
        # int(str) inside the formatter: only the plain spelling [+-]?[0-9]+ is modelled
        given = [t[1] for t in case.get('args', []) if t[0] == 's']
        given += [t[1] for t in case.get('kw', {}).values() if t[0] == 's']
        if not all(33 <= ord(ch) <= 126 and ch != '_' for s in given for ch in s):
            return False
    if case.get('path') is None:
        # float(str|int) and int(float) inside the formatters are not modelled
        ai = 0
        for t in case['toks']:
            if t[0] != 'W':
                continue
            if t[1] is None:
                v = case['args'][ai] if ai < len(case['args']) else None
                ai += 1
            else:
                v = case['kw'].get(t[1])
            if v is None:
                break                      # the builder raises here, nothing later is evaluated
            if (t[2] == 'float' and v[0] != 'f') or (t[2] == 'int' and v[0] == 'f'):
                return False
            if t[2] == 'int' and v[0] == 's' and _int_raises(v[1]):
                break
    return True


def _int_raises(s):
    try:
        int(s)
    except ValueError:
        return True
    return False


# --------------------------------------------------------------------------
# model side
# --------------------------------------------------------------------------

_KIND = {'re': 0, 'int': 1, 'float': 2, 'path': 3}


def _parsed(case):
    """Route.parse_rule's view of the rule + the kind of every compiled filter"""
    from ombott.router.radirouter import Route
    route = Route(case['rule'])
    names_of_filters = [fl for part, prm, fl, fa, sel in Route.parser.iter_parse(case['rule'][1:]) if not part]
    handlers = []
    fids = []
    kinds = []
    for h, fname in zip(route.filters, names_of_filters):
        if h is None:
            fids.append(-1)
            continue
        for i, g in enumerate(handlers):
            if g is h:
                fids.append(i)
                break
        else:
            handlers.append(h)
            kinds.append(_KIND[fname])
            fids.append(len(handlers) - 1)
    return route, fids, kinds, handlers


def _suffixes(s):
    return [s[i:] for i in range(len(s) + 1)]


def _enc_pyval(t):
    kind, x = t
    if kind == 's':
        return [TAG_S] + enc_str(_cps(x))
    if kind == 'i':
        return [TAG_I] + enc_str(_cps(str(int(x))))
    return [TAG_F] + enc_str(_cps(repr(float(x))))


def _encode_single(case):
    if not _modelled(case):
        return [-1]
    try:
        route, fids, kinds, handlers = _parsed(case)
    except Exception:
        return [-1]
    po = route.pattern_out
    obs = _observe(case)
    if 'rule_error' in obs:
        return [-1]
    # the texts on which the model may consult a filter
    texts = set()
    if case.get('path') is not None:
        texts.update(_suffixes(case['path'].strip('/')))
    if obs.get('url', ['err'])[0] == 'ok':
        u = ''.join(chr(c) for c in obs['url'][1])
        texts.update(_suffixes(u.strip('/')))
    # validation texts: every formatted value alone and in front of the literal that follows it
    chunks = po.split('\r')
    if case.get('path') is not None:
        pool = []
        R, _ = _router(case['rule'])
        m = _resolve(R, case['path'])
        if m is not None:
            pool = [[v] for v in m[0]]
    else:
        allv = [py_val(t) for t in case['args']] + [py_val(t) for t in case['kw'].values()]
        pool = [allv for _ in route.params]
    for i, cands in enumerate(pool):
        if i >= len(route.params):
            break
        f_out = route.filters_out[i]
        for v in cands:
            try:
                s = f_out(v) if f_out else v
            except Exception:
                continue
            if isinstance(s, str):
                texts.add(s)
                texts.add(s + chunks[i + 1])
    rxt = []
    fct = {}
    for k, h in enumerate(handlers):
        if kinds[k] == 1:
            continue                       # the int filter is concrete in the model
        for s in sorted(texts):
            val, pos, sel = h(s)
            n = -1 if val is None else pos
            rxt.append([k] + enc_str(_cps(s)) + [n])
            if kinds[k] == 2 and val is not None:
                fct[s[:pos]] = repr(val)
    out = enc_str(_cps(po))
    out += enc_list(route.params, lambda n: enc_str(_cps(n)))
    out += enc_list(fids, lambda f: [f])
    out += enc_list(kinds, lambda k: [k])
    out += [len(rxt)] + [x for e in rxt for x in e]
    out += enc_list(sorted(fct.items()), lambda kv: enc_str(_cps(kv[0])) + enc_str(_cps(kv[1])))
    if case.get('path') is not None:
        out += [1] + enc_str(_cps(case['path']))
    else:
        out += [0] + enc_list(case['args'], _enc_pyval)
        out += enc_list(list(case['kw'].items()), lambda kv: enc_str(_cps(kv[0])) + _enc_pyval(kv[1]))
    return out


def _r_pyval(r):
    tag = r.int()
    return [tag, r.str()]


def _r_match(r):
    if r.int() == 0:
        return None
    return r.list(_r_pyval)


_EXC_NAME = {v: k for k, v in _EXC.items()}


def _r_url(r):
    tag = r.int()
    if tag == 0:
        return ['ok', r.str()]
    return ['err', _EXC_NAME.get(tag, 'unmodelled')]


def _decode_single(out, case):
    if out == [-999]:
        return {'skip': 1}
    r = Reader(out)
    obs = {}
    if case.get('path') is not None:
        obs['match'] = _r_match(r)
        if obs['match'] is None:
            return obs
    obs['url'] = _r_url(r)
    if obs['url'][0] == 'ok':
        obs['rematch'] = _r_match(r)
    return obs


# --------------------------------------------------------------------------
# the property, stated on the implementation
# --------------------------------------------------------------------------

def _expected_text(v):
    tag, cps = v
    return ''.join(chr(c) for c in cps)


def _oracle_single(case, obs):
    if 'rule_error' in obs:
        return None          # not a rule (only reachable while shrinking); counted by classify()
    toks = case['toks']
    if case.get('path') is None:
        # only the shape half of the property applies: literals verbatim and in order
        b = obs.get('url')
        if b and b[0] == 'ok':
            u = ''.join(chr(c) for c in b[1])
            # a url is a function of the arguments of THIS call: nothing can be built for a wildcard that got none
            n_anon = sum(1 for t in toks if t[0] == 'W' and t[1] is None)
            if len(case['args']) < n_anon:
                return 'built %r although only %d of %d positional parameters were supplied' % (u, len(case['args']), n_anon)
            for t in toks:
                if t[0] == 'W' and t[1] is not None and t[1] not in case['kw']:
                    return 'built %r although parameter %r was not supplied in this call' % (u, t[1])
            if not any(t[0] == 'W' for t in toks):
                want = ''.join(t[1] for t in toks)
                return None if u == want else 'rule without wildcards built %r' % u
            at = 0
            for t in toks:
                if t[0] == 'L':
                    j = u.find(t[1], at)
                    if j < 0:
                        return 'literal %r missing or out of order in the built url %r' % (t[1], u)
                    at = j + len(t[1])
        elif b and b[1].startswith('other:'):
            return 'builder raised an unexpected %s' % b[1]
        return None
    if obs.get('match') is None:
        return None
    values = obs['match']
    nw = sum(1 for t in toks if t[0] == 'W')
    if len(values) != nw:
        return 'the rule has %d wildcards but the match produced %d values' % (nw, len(values))
    named = sorted((t[1], v) for t, v in zip([t for t in toks if t[0] == 'W'], values) if t[1])
    if [list(x) for x in named] != [list(x) for x in obs['kw']]:
        return 'kwargs %r are not the named wildcards with their values %r' % (obs['kw'], named)
    b = obs['url']
    if b[0] != 'ok':
        return 'building the url from matched parameters raised %s' % b[1]
    u = ''.join(chr(c) for c in b[1])
    it = iter(values)
    want = ''.join(t[1] if t[0] == 'L' else
                   (_expected_text(next(it)).lower() if t[2] == 'up2' else _expected_text(next(it))) for t in toks)
    if u != want:
        return 'built url %r is not the literals interleaved with the values (%r)' % (u, want)
    if obs.get('rematch') is None:
        return 'the built url %r is not matched by the rule' % u
    if obs['rematch'] != values:
        return 'the built url %r matches with other values: %r instead of %r' % (u, obs['rematch'], values)
    if obs.get('rekw') != obs['kw']:
        return 'the built url %r resolves to other kwargs' % u
    return None


def _nontrivial_single(case, obs):
    toks = case['toks']
    if not (any(t[0] == 'W' for t in toks) and any(t[0] == 'L' for t in toks)):
        return False
    if case.get('path') is not None:
        return obs.get('match') is not None
    return obs.get('url', ['err'])[0] == 'ok'


def _key_single(case):
    if case.get('path') is not None:
        return (case['rule'], case['path'])
    return (case['rule'], repr(case['args']), repr(sorted(case['kw'].items())))


def _classify_single(case, obs):
    kinds = sorted({(t[2] or 'plain') for t in case['toks'] if t[0] == 'W'}) or ['static']
    if 'rule_error' in obs:
        return 'rule_error'
    if case.get('path') is not None:
        if obs.get('match') is None:
            out = 'no-match'
        elif obs['url'][0] != 'ok':
            out = 'matched/' + obs['url'][1]
        else:
            out = 'matched/built/' + ('rematched' if obs.get('rematch') == obs['match'] else 'LOST')
        return 'path/%s/%s' % ('+'.join(kinds), out)
    b = obs.get('url', ['err', '?'])
    return 'args/%s/%s' % ('+'.join(kinds), 'built' if b[0] == 'ok' else b[1])


def _shrink_single(case):
    toks = case['toks']
    if case.get('path') is not None:
        p = case['path']
        for i in range(len(toks)):
            nt = toks[:i] + toks[i + 1:]
            if nt:
                yield mk(nt, p)
        for i in range(1, len(p)):
            yield mk(toks, p[:i] + p[i + 1:])
        for i, t in enumerate(toks):
            if t[0] == 'L' and len(t[1]) > 1:
                yield mk(toks[:i] + [L(t[1][1:])] + toks[i + 1:], p)
    else:
        for i in range(len(case['args'])):
            yield mk(toks, None, case['args'][:i] + case['args'][i + 1:], case['kw'])
        for k in list(case['kw']):
            kw = dict(case['kw'])
            del kw[k]
            yield mk(toks, None, case['args'], kw)


# --------------------------------------------------------------------------
# known findings: predicates over the case (the implementation is consulted to
# learn which values the path produces)
# --------------------------------------------------------------------------

def _matched_values(case):
    if case.get('path') is None:
        return None
    try:
        R, _ = _router(case['rule'])
        m = _resolve(R, case['path'])
    except Exception:
        return None
    return None if m is None else m[0]


def pred_float_repr_not_plain(case, what, m):
    """a float wildcard whose value str() prints with an exponent, or as inf/nan"""
    vals = _matched_values(case)
    if vals is None:
        return False
    return any(isinstance(v, float) and any(ch in repr(v) for ch in 'en') for v in vals)


def pred_regex_matched_empty(case, what, m):
    """a re-filtered wildcard matched the empty string"""
    vals = _matched_values(case)
    if vals is None:
        return False
    ws = [t for t in case['toks'] if t[0] == 'W']
    return any(t[2] == 're' and v == '' for t, v in zip(ws, vals))


def pred_minus_zero_after_number(case, what, m):
    """an int wildcard whose text was -0 (printed back as 0) directly after an int/float wildcard"""
    vals = _matched_values(case)
    if vals is None:
        return False
    toks = case['toks']
    ws = [i for i, t in enumerate(toks) if t[0] == 'W']
    for j in range(1, len(ws)):
        a, b = ws[j - 1], ws[j]
        if b == a + 1 and toks[a][2] in ('int', 'float') and toks[b][2] == 'int' and vals[j] == 0:
            return True
    return False


def pred_float_reformatted_after_regex(case, what, m):
    """a float wildcard printed differently from the text it matched (3 -> 3.0) after a re/path wildcard,
    whose greedy / look-ahead extent depends on the text that follows it"""
    if case.get('path') is None:
        return False
    toks = [t for t in case['toks'] if t[0] == 'W']
    seen_regex = False
    hit = False
    for t in toks:
        if t[2] in ('re', 'path'):
            seen_regex = True
        elif t[2] == 'float' and seen_regex:
            hit = True
    if not hit:
        return False
    obs = _observe(case)
    b = obs.get('url')
    return bool(b) and b[0] == 'ok' and ''.join(chr(c) for c in b[1]) != case['path'].strip('/')


# --------------------------------------------------------------------------
# dispatch: single cases and sequences of calls (kind 'multi')
# --------------------------------------------------------------------------

def _is_multi(case):
    return case.get('kind') == 'multi'


def _renamed_calls(case):
    """indices of the calls of a via=router sequence that go to a rule sharing its Route with an EARLIER rule of
    the same pattern but other wildcard names (finding F19-shared-route-names; not in the model)"""
    if not (_is_multi(case) and case['via'] == 'router'):
        return set()
    rules = case['rules']
    out = set()
    for k, op in enumerate(case['ops']):
        j = op[0]
        if any(_shape(rules[i]) == _shape(rules[j]) and _names(rules[i]) != _names(rules[j]) for i in range(j)):
            out.add(k)
    return out


def project(obs, case):
    if _is_multi(case):
        ren = _renamed_calls(case)
        return {'ops': [{'skip': 1} if ('add_error' in o or k in ren) else _project_single(o, sub)
                        for k, (o, sub) in enumerate(zip(obs.get('ops', []), _subcases(case)))]}
    return _project_single(obs, case)


def encode(case):
    if not _is_multi(case):
        return _encode_single(case)
    obs = _observe(case)
    out = [-2, len(case['ops'])]
    ren = _renamed_calls(case)
    for k, (o, sub) in enumerate(zip(obs['ops'], _subcases(case))):
        e = [-1] if ('add_error' in o or k in ren) else _encode_single(sub)
        out += [len(e)] + e
    return out


def decode(out, case):
    if not _is_multi(case):
        return _decode_single(out, case)
    r = Reader(out)
    n = r.int()
    ops = []
    for sub in _subcases(case)[:n]:
        ops.append(_decode_single(r.str(), sub))
    return {'ops': ops}


def oracle(case, obs):
    if obs.get('fresh_same') is False:
        return 'the observation differs from the one a fresh process gives (class- or module-level state)'
    if not _is_multi(case):
        return _oracle_single(case, obs)
    seen = {}
    for i, (op, o, sub) in enumerate(zip(case['ops'], obs['ops'], _subcases(case))):
        if 'add_error' in o:
            continue
        f = _oracle_single(sub, o)
        if f:
            return 'call %d on rule %r: %s' % (i, sub['rule'], f)
        if o.get('lone_same') is False:
            return 'call %d on rule %r: a Route built alone for that rule answers differently' % (i, sub['rule'])
        k = repr(op)
        o2 = {x: y for x, y in o.items()}
        if k in seen and seen[k] != o2:
            return 'call %d repeats an earlier call on the same Route but gives another result' % i
        seen[k] = o2
    return None


def nontrivial(case, obs):
    if not _is_multi(case):
        return _nontrivial_single(case, obs)
    good = [op[0] for op, o, sub in zip(case['ops'], obs['ops'], _subcases(case))
            if 'add_error' not in o and _nontrivial_single(sub, o)]
    return len(set(good)) >= 2 or len(good) > len(set(good)) >= 1


def key(case):
    if _is_multi(case):
        return ('multi', case['via'], repr(case['rules']), repr(case['ops']))
    return _key_single(case)


def classify(case, obs):
    if not _is_multi(case):
        return _classify_single(case, obs) + ('/fresh-process-baseline' if case.get('fresh') else '')
    n_err = sum(1 for o in obs['ops'] if 'add_error' in o)
    n_ok = sum(1 for o in obs['ops'] if o.get('url', ['err'])[0] == 'ok')
    return 'multi/%s/%d-rules/%s%s%s' % (case['via'], len(case['rules']),
                                         'some-built' if n_ok else 'none-built',
                                         '/add-rejected' if n_err else '',
                                         '/fresh-process-baseline' if case.get('fresh') else '')


def shrink(case):
    if not _is_multi(case):
        for c in _shrink_single(case):
            yield c
        return
    # candidates are observed in a fresh interpreter each, so that what is kept does not depend on what
    # other cases left behind in this process and the replay reproduces on its own
    base = {k: v for k, v in case.items() if k != 'fresh'}
    if not case.get('isolate'):
        yield dict(base, isolate=True)
    ops = case['ops']
    for i in range(len(ops)):
        if len(ops) > 1:
            yield dict(base, ops=ops[:i] + ops[i + 1:], isolate=True)
    for sub in _subcases(case):
        yield dict(sub, isolate=True)                # does one call alone fail?


def _shape(toks):
    """the rule without its wildcard names (what RadiRouter identifies a Route by)"""
    out = []
    for t in toks:
        if t[0] == 'L':
            if out and isinstance(out[-1], str):
                out[-1] += t[1]
            else:
                out.append(t[1])
        else:
            out.append(('W', t[2], t[3] if t[2] != 'path' else None, t[5] if len(t) > 5 else None))
    return out


def _names(toks):
    return [t[1] for t in toks if t[0] == 'W']


def pred_shared_pattern_other_names(case, what, m):
    """one RadiRouter, two rules with the same pattern and filters but different wildcard names: they share one
    Route object, whose url() knows only the names of the rule registered first -> KeyError on exactly those calls"""
    import re
    mt = re.match(r'call (\d+) on rule .*?: (.*)$', str(what), re.S)
    if not mt or int(mt.group(1)) not in _renamed_calls(case):
        return False
    k, msg = int(mt.group(1)), mt.group(2)
    if msg == 'building the url from matched parameters raised KeyError':
        return True
    if msg == 'a Route built alone for that rule answers differently':
        # explicit arguments under the second rule's names: the shared Route raises KeyError, a lone one does not
        return _observe(case)['ops'][k].get('url') == ['err', 'KeyError']
    return False


def pred_rex_group_not_whole_match(case, what, m):
    """a rex wildcard whose value is a capturing group that is not the whole match ((x+)y on 'xy' gives 'x'):
    the value alone can never be matched by the mask again (rex is outside the property)"""
    import re
    vals = _matched_values(case)
    if vals is None:
        return False
    ws = [t for t in case['toks'] if t[0] == 'W']
    return any(t[2] == 'rex' and isinstance(v, str) and re.fullmatch(t[3], v) is None for t, v in zip(ws, vals))


# what the oracle says when a finding shows (a finding excuses nothing else: not a url that is not the literals
# interleaved with the values, not another exception, not a model/implementation disagreement)
_W_ASSERT = 'building the url from matched parameters raised AssertionError'
_W_LOST = ('the built url ', ' is not matched by the rule')
_W_OTHER = ('the built url ', ' matches with other values')


def _what_is(what, *kinds):
    what = str(what)
    for k in kinds:
        if isinstance(k, tuple):
            if what.startswith(k[0]) and k[1] in what:
                return True
        elif what == k:
            return True
    return False


def _finding(pred, *kinds):
    """the predicate on the case, restricted to the failure kinds the finding produces and, in a sequence of calls,
    to the call the oracle names"""
    import re

    def f(case, what, m):
        what = str(what)
        if _is_multi(case):
            mt = re.match(r'call (\d+) on rule .*?: (.*)$', what, re.S)
            if not mt or int(mt.group(1)) >= len(case['ops']):
                return False
            case, what = _subcases(case)[int(mt.group(1))], mt.group(2)
        return _what_is(what, *kinds) and pred(case, what, m)
    return f


PREDICATES = {
    'float_reformatted_after_regex': _finding(pred_float_reformatted_after_regex, _W_LOST, _W_OTHER),
    'float_repr_not_plain': _finding(pred_float_repr_not_plain, _W_ASSERT, _W_LOST, _W_OTHER),
    'regex_matched_empty': _finding(pred_regex_matched_empty, _W_ASSERT),
    'minus_zero_after_number': _finding(pred_minus_zero_after_number, _W_LOST, _W_OTHER),
    'shared_pattern_other_names': pred_shared_pattern_other_names,
    'rex_group_not_whole_match': _finding(pred_rex_group_not_whole_match, _W_ASSERT),
}

MANIFEST = dict(
    text=('Proof: Coq theorems (all closed under the global context) about a hand-written model of Route.url as '
          'written (cidx/clen/end slice bookkeeping over pattern_out, positional anonymous parameters, formatters, the '
          'validation assertion as an explicit error) on top of C01\'s rule-by-rule matcher match1. C19_url_shape: for '
          'ALL rules (adjacent wildcards, adjacent/empty/leading/trailing literal chunks), names and arguments the builder '
          'equals the segment-wise specification, every error outcome included; a built url is the literal chunks verbatim '
          'and in order with one text per wildcard. C19_identity_formatters / _roundtrip / _roundtrip_resolve: for plain, re '
          'and path wildcards and EVERY regex engine, the url built from the values of a match is the matched path itself '
          '(so it matches with the same values, also through resolve\'s \'/\'-stripping), unless the builder\'s own assertion '
          'fails, and `validates` states exactly when. C19_int: for the concrete int filter (-?[0-9]+, int, str.int) rules of '
          'literals, plain and int wildcards without two adjacent int wildcards rebuild to a url that matches with the same '
          'values. Refuted with witnesses (findings): adjacent int wildcards with -0, float printing with exponent/inf, re '
          'filter matching the empty string; recorded repair F19path (path wildcard followed by a literal). Model tied to '
          '/repo on every run by a differential correspondence (extracted OCaml + vm_compute) over match -> url -> re-match '
          'and by pinning FilterFactory.filters; an independent oracle states the round trip on the implementation. '
          'C19_calls_independent: in a sequence of url() calls the i-th observation is a function of the i-th call alone; '
          'the correspondence runs such sequences on shared Route objects, on one router holding several rules and '
          'against a fresh-interpreter baseline.'),
    note=('Trusted: Coq kernel + vm_compute; extraction (ExtrOcamlBasic only); the Python harness; Python re and float '
          'conversion/printing enter only as universally quantified functions (rx, fconv). Modelled, not verified: the int '
          'filter over ASCII digits only; the rule parser (the model starts from Route.parse_rule\'s output). match1 = the '
          'router\'s behaviour is C01\'s theorem; here it is validated on single-rule routers by the correspondence. '
          'Findings F19-float, F19-float-regex, F19-empty, F19-minus-zero are reproduced by the model and reported as '
          'KNOWN-FINDING; F19-shared-route-names (two rules of one router sharing a Route) and F19-rex-group lie outside '
          'the property\'s quantifier (single rule, no rex) and are reported the same way.'),
    technique='Coq proof (loop invariant for the slice bookkeeping, induction over rule segments) + model/implementation '
              'correspondence + implementation-level round-trip oracle',
    design_ref='DESIGN.md section 4, C19 (and C01 for match1)',
)
