"""C19 — building a URL from matched parameters leads back to the same match."""
import itertools

from props.common import enc_str, enc_list, Reader

ID = 'C19'
COQ_MODEL = 'model.RouteUrl'
COQ_CORR = 'corr_C19'
N_QUICK = 2500
N_THOROUGH = 12000
THOROUGH_EXHAUSTIVE = False
VM_CASES = 39          # the first cases are also evaluated inside Coq (vm_compute); the corpus minus its last entry
RULE = ('cases = corpus + random rules printed from abstract token lists (literal chunks incl. digits, "-", ".", '
        'non-ASCII; values containing CR (the wildcard marker), LF, NUL, TAB; plain wildcards in the three flavours :n <n> {n}; int/float/re/path filters in bottle and dotted '
        'flavour, named and anonymous; adjacent wildcards, adjacent literals, leading/trailing literals) x paths that '
        'instantiate the rule (then mutated) -> single-rule RadiRouter.resolve, Route.url(*anon, **kw) with the matched '
        'values, resolve again; plus a malformed stream calling Route.url with missing/extra/wrongly typed arguments. '
        'non-trivial = the path matched and the rule has at least one wildcard and one literal chunk; '
        'distinct by (rule, path or arguments)')
TRUSTED = [
    'section variables of coq/model/RouteUrl.v: rx (Python re: compiled mask matched once at the start of the text, '
    'None or m.end()) and fconv (float(text) printed by str()); theorems hold for every rx/fconv; the correspondence '
    'instantiates them with tables filled by calling the real compiled filters',
    'modelled, not verified: the int filter as -?[0-9]+ / int / str.int over ASCII digits (lib/PyIntDec.v, on top of '
    'Coq stdlib DecimalZ); Python \\d and int() also accept non-ASCII decimal digits — such paths are checked by the '
    'oracle on the implementation only',
    'modelled, not verified: the rule parser (Parser/SymStream): the model receives Route.parse_rule\'s result '
    '(pattern_out, params, filters); the oracle compares every syntax flavour against the abstract rule it was printed from',
    'model/RouteSpec.v match1 (owned by C01) is the meaning of "the rule matches the path"; its agreement with '
    'RadiRouter.resolve on single-rule routers is part of this correspondence, the general statement is C01',
    'rex filters (group selectors) are outside the property',
]
ASSUMPTIONS = ['literal text of a rule contains no CR', 'wildcard names of a rule are distinct',
               'no rex selector filters']

TAG_S, TAG_I, TAG_F = 0, 1, 2


# --------------------------------------------------------------------------
# abstract rules.  token = ['L', text] | ['W', name|None, filter|None, arg|None, flavour]
# --------------------------------------------------------------------------

def print_tok(t, nxt):
    if t[0] == 'L':
        return t[1]
    _, name, flt, arg, fl = t
    if flt is None:
        if fl == ':':
            return ':' + name
        return {'<': '<%s>', '{': '{%s}'}[fl] % name
    op, cl = ('<', '>') if fl.endswith('<') else ('{', '}')
    if fl[0] == 'b':      # bottle style  <name:filter[:args]>
        s = (name or '') + ':' + flt
        if arg:
            s += ':' + arg
    else:                 # dotted style  <name.filter(args)> / <filter(args)>
        s = (name + '.' if name else '') + flt + '(' + (arg or '') + ')'
    return op + s + cl


def print_rule(toks):
    return '/' + ''.join(print_tok(t, toks[i + 1] if i + 1 < len(toks) else None) for i, t in enumerate(toks))


def W(name, flt=None, arg=None, fl='<'):
    if flt is not None and fl in ('<', '{'):
        fl = 'b' + fl
    return ['W', name, flt, arg, fl]


def L(s):
    return ['L', s]


def mk(toks, path=None, args=None, kw=None, **extra):
    c = dict(toks=toks, rule=print_rule(toks), path=path)
    if path is None:
        c['args'] = args or []
        c['kw'] = kw or {}
    c.update(extra)
    return c


def corpus():
    big = '12345678901234567890'
    return [
        # ---- F19: float formatter leaves the plain decimal syntax (finding)
        mk([L('f/'), W('x', 'float')], '/f/0.00001'),
        mk([L('f/'), W('x', 'float')], '/f/' + big),
        mk([L('f/'), W('x', 'float')], '/f/1.5'),
        mk([L('f/'), W('x', 'float')], '/f/-0'),
        # ---- F19: a regex filter that matches the empty string (finding)
        mk([W('x', 're', 'a*', 'd<'), L('z')], '/z'),
        mk([W('x', 're', 'a*', 'd<'), L('z')], '/aaz'),
        # ---- F19path (fixed): path wildcard followed by literal text
        mk([L('p/'), W('x', 'path'), L('/e')], '/p/a/b/e'),
        mk([L('p/'), W('x', 'path', fl='d<'), L('/e/'), W('y')], '/p/a/e/b/e/q'),
        mk([L('p/'), W('x', 'path')], '/p/a/b/e'),
        mk([W(None, 'path', fl='d{'), L('.txt')], '/a/b.txt'),
        # ---- adjacent int wildcards, "-0" prints as "0" (finding)
        mk([W('x', 'int'), W('y', 'int')], '/12-0'),
        mk([W('x', 'int'), W('y', 'int')], '/12-3'),
        mk([W('x', 'float'), W('y', 'int')], '/1.5-0'),
        # ---- slice bookkeeping: adjacent wildcards, leading/trailing literals
        mk([W('x'), W('y', 'int')], '/ab/12'),
        mk([L('a'), W('x', fl='{'), L('bc'), W('y'), L('/'), W('z', fl=':')], '/aXbcY/Z'),
        mk([L('abc/de')], '/abc/de'),
        mk([W('x')], '/v'),
        mk([W('x'), L('/'), W('y'), L('/'), W('z')], '/1//3'),
        mk([L('a/'), W('x'), L('/b')], '/a//b'),
        mk([W(None, 'int'), L('/'), W(None, 're', '[a-z]+'), L('/'), W('n')], '/12/abc/q'),
        mk([W('x', 'int')], '/-007'),
        mk([W('x', 'int'), L('0')], '/120'),
        mk([L('a'), W('x', 'int', fl='d{'), L('-'), W('y', 'int', fl='d<')], '/a-0--0'),
        mk([W('x', 'int')], '/١٢'),                       # non-ASCII digits: oracle only
        mk([L('é/'), W('x'), L('\U0001f600')], '/é/中\U0001f600'),
        # ---- values that contain the wildcard marker CR / control characters, more wildcards following
        # (a builder that re-scans already substituted text fills the next value into the previous one)
        mk([W('a'), L('/'), W('b')], '/x\ry/z'),
        mk([W('a'), L('/'), W('b', fl='{'), L('/'), W('c', 'int')], '/\r/\r\r/7'),
        mk([L('p/'), W('a', 'path'), L('/e/'), W('b'), L('.'), W(None, 're', '[^/]+')], '/p/q\rr/e/\n.\r'),
        mk([W('a'), L('-'), W(None, 'int')], None, [['i', 5]], {'a': ['s', 'x\ry']}),
        # ---- explicit arguments (malformed stream)
        mk([L('a/'), W('x'), L('/b')], None, [], {}),                               # KeyError
        mk([L('a/'), W(None, 'int')], None, [], {}),                                # IndexError
        mk([L('a/'), W('x', 'int')], None, [], {'x': ['s', 'abc']}),                # ValueError
        mk([L('a/'), W('x', 'int')], None, [], {'x': ['s', '+007']}),
        mk([L('a/'), W('x')], None, [], {'x': ['i', 5]}),                           # TypeError at join
        mk([L('a/'), W('x', 're', '[a-z]+')], None, [], {'x': ['i', 5]}),           # TypeError in the filter
        mk([L('a/'), W('x', 're', '[a-z]+')], None, [], {'x': ['s', '123']}),       # AssertionError
        mk([L('a/'), W('x', 're', '[a-z]+')], None, [], {'x': ['s', 'abc123']}),    # passes the weak assertion
        mk([L('a/'), W('x'), L('/'), W(None, 'int'), W(None, 'int')], None, [['i', 1], ['i', -2], ['i', 3]],
           {'x': ['s', 'v'], 'y': ['s', 'unused']}),
        mk([L('abc')], None, [['i', 1]], {'x': ['s', 'v']}),
        # float('9' * 400) = inf: the builder asserts (kept last: its filter table is large, see VM_CASES)
        mk([L('f/'), W('x', 'float')], '/f/' + '9' * 400),
    ]


LITS = ['a', 'ab', 'abc', 'b', 'e', 'x-y', '0', '7', '-', '.5', 'a.b', '.txt', 'z', 'é', '10']
SEPS = ['/', '/', '/', '', '-', '.']
RE_ARGS = ['[a-z]+', 'a*', '[^/]+', r'\d{2}', 'ab|a', '[a-z]*']
# values may contain the wildcard marker itself (%0D in a request path is plain text since fix F1) and other controls
PLAIN_VALS = ['v', 'abc', '', '12', 'a.b', 'é', '-0', 'x y', '0', 'a-b', 'x\ry', '\r', '\r\r', 'a\nb', '\x00', '\t7']
INT_VALS = ['0', '7', '-7', '007', '-0', '42', '12345678901234567890', '-00', '10']
FLOAT_VALS = ['1.5', '0.00001', '3', '-0', '-2.50', '12345678901234567890', '0.1', '10.0', '1.0', '123456.789',
              '0.0001', '100000000000000000', '-0.0']
RE_VALS = {'[a-z]+': ['a', 'abc', 'zz', ''], 'a*': ['', 'a', 'aaa'], '[^/]+': ['a', 'a-b.c', '12', 'x\ry', '\r'],
           r'\d{2}': ['12', '00', '123'], 'ab|a': ['ab', 'a'], '[a-z]*': ['', 'q', 'abc']}
PATH_VALS = ['a', 'a/b', 'a/b/c.txt', 'e/e', 'x.y/z', 'q\rr/s', '\r/\r']


def gen_toks(rng):
    n = rng.choice([1, 2, 2, 3, 3, 4, 5])
    toks = []
    k = 0
    for i in range(n):
        if i:
            sep = rng.choice(SEPS)
            if sep:
                toks.append(L(sep))
        r = rng.random()
        if r < 0.35:
            toks.append(L(rng.choice(LITS)))
            continue
        name = 'x%d' % k if rng.random() < 0.9 else rng.choice(['anon_%d', 'anonymous%d', 'an%d']) % k
        k += 1
        r = rng.random()
        if r < 0.3:
            toks.append(W(name, fl=rng.choice(['<', '{', ':'])))
        else:
            flt = rng.choice(['int', 'int', 'float', 're', 're', 'path'])
            arg = rng.choice(RE_ARGS) if flt == 're' else None
            fl = rng.choice(['b<', 'd<', 'b{', 'd{'])
            if rng.random() < 0.25:
                name = None
            toks.append(W(name, flt, arg, fl))
    if rng.random() < 0.15:
        toks.append(L(rng.choice(['/', '/x', 'end'])))
    # merge adjacent literals half of the time (both shapes must parse to the same rule)
    # repair what the rule syntax cannot express
    out = []
    for i, t in enumerate(toks):
        if t[0] == 'W' and t[4] == ':':
            nxt = toks[i + 1] if i + 1 < len(toks) else None
            if nxt is not None and not (nxt[0] == 'L' and nxt[1].startswith('/')):
                t = W(t[1], fl='<')
        out.append(t)
    # a literal chunk must not contain rule syntax
    return out


def tok_value(rng, t):
    if t[0] == 'L':
        return t[1]
    flt = t[2]
    if flt is None:
        return rng.choice(PLAIN_VALS)
    if flt == 'int':
        return rng.choice(INT_VALS)
    if flt == 'float':
        return rng.choice(FLOAT_VALS)
    if flt == 're':
        return rng.choice(RE_VALS[t[3]])
    return rng.choice(PATH_VALS)


def mutate(rng, p):
    r = rng.random()
    if not p:
        return p
    i = rng.randrange(len(p))
    if r < 0.3:
        return p[:i] + p[i + 1:]
    if r < 0.6:
        return p[:i] + rng.choice(['/', '0', '-', 'a', '.', '٣', '\r', '\n']) + p[i:]
    if r < 0.8:
        return p + rng.choice(['/', '/x', '0', 'a'])
    return p[:i]


def rand_pyval(rng):
    r = rng.random()
    if r < 0.5:
        return ['s', rng.choice(PLAIN_VALS + INT_VALS + ['abc', '+5', '1_0', ' 7', '٣', 'p\rq'])]
    if r < 0.8:
        return ['i', rng.choice([0, 7, -7, 12345678901234567890, -1, 10])]
    return ['f', rng.choice(['1.5', '1e-05', 'inf', '-0.0', '3.0'])]


def gen(rng, n):
    for _ in range(n):
        toks = gen_toks(rng)
        if rng.random() < 0.82:
            p = '/' + ''.join(tok_value(rng, t) for t in toks)
            if rng.random() < 0.2:
                p = mutate(rng, p)
            yield mk(toks, p)
        else:
            # malformed stream: explicit arguments
            args, kw = [], {}
            for t in toks:
                if t[0] != 'W':
                    continue
                r = rng.random()
                if r < 0.12:
                    continue                                    # missing
                if r < 0.6:
                    flt = t[2]
                    v = tok_value(rng, t)
                    if flt == 'int' and rng.random() < 0.7:
                        try:
                            val = ['i', int(v)]
                        except ValueError:
                            val = ['s', v]
                    elif flt == 'float':
                        val = ['f', repr(float(v))]
                    else:
                        val = ['s', v]
                else:
                    val = rand_pyval(rng)
                    if t[2] == 'float' and val[0] != 'f':
                        val = ['f', '2.5']                      # float() of str/int is not modelled
                    if t[2] == 'int' and val[0] == 'f':
                        val = ['i', 3]                          # int() of a float is not modelled
                if t[1] is None:
                    args.append(val)
                else:
                    kw[t[1]] = val
            if rng.random() < 0.15:
                args.append(rand_pyval(rng))
            if rng.random() < 0.15:
                kw['extra'] = rand_pyval(rng)
            yield mk(toks, None, args, kw)


def thorough():
    """bounded enumeration: every rule of <= 3 tokens over a small pool x every path that instantiates it"""
    pool = [L('a'), L('/'), L('-'), L('0'),
            W('x'), W('y', fl='{'), W('n', 'int'), W('m', 'int', fl='d{'), W(None, 'int', fl='d<'),
            W('r', 're', 'a*', 'd<'), W('p', 'path'), W('f', 'float')]
    vals = {None: ['', 'v', '0', '\r'], 'int': ['0', '-0', '12', '-3'], 're': ['', 'aa'], 'path': ['q', 'q/r'],
            'float': ['1.5', '-0', '0.00001']}
    for ln in (1, 2, 3):
        for toks in itertools.product(pool, repeat=ln):
            names = [t[1] for t in toks if t[0] == 'W' and t[1]]
            if len(set(names)) != len(names):
                continue
            if not any(t[0] == 'W' for t in toks):
                continue
            if toks[0] == L('/'):
                continue                      # '//...' is not a rule
            choices = [[t[1]] if t[0] == 'L' else vals[t[2]] for t in toks]
            for combo in itertools.product(*choices):
                yield mk([list(t) for t in toks], '/' + ''.join(combo))


# --------------------------------------------------------------------------
# implementation side
# --------------------------------------------------------------------------

_EXC = {'IndexError': 1, 'KeyError': 2, 'ValueError': 3, 'TypeError': 4, 'AssertionError': 5}


def _cps(s):
    return [ord(c) for c in s]


def obs_val(v):
    """canonical observation of a parameter value"""
    if isinstance(v, bool):
        return ['other', repr(v)]
    if isinstance(v, int):
        return [TAG_I, _cps(str(v))]
    if isinstance(v, float):
        return [TAG_F, _cps(repr(v))]
    if isinstance(v, str):
        return [TAG_S, _cps(v)]
    return ['other', repr(v)]


def py_val(t):
    kind, x = t
    if kind == 's':
        return x
    if kind == 'i':
        return int(x)
    return float(x)


def _router(rule):
    from ombott.router.radirouter import RadiRouter
    R = RadiRouter()
    route = R.add(rule, 'GET', _handler)
    return R, route


def _handler(**kw):
    return kw


def _resolve(R, path):
    """-> (values in rule order, kwargs) or None; via the public resolve + the lookup it is built on"""
    ep, err = R.resolve(path, 'GET')
    if err is not None:
        return None
    route, extra = R.radidict.get(path.strip('/'), allow_partial=True)
    return list(extra['param_values']), dict(ep[1]), list(extra['param_keys'])


def _build(route, args, kw):
    try:
        u = route.url(*args, **kw)
    except Exception as e:          # the enum below is what the model distinguishes
        name = type(e).__name__
        return ['err', name if name in _EXC else 'other:' + name]
    if not isinstance(u, str):
        return ['err', 'other:not-a-str']
    return ['ok', _cps(u)]


# ---- dev-only: line coverage of the anchored functions (VERIF_COVERAGE=1 ./check C19 --no-coq) ----

_COV = {'on': None, 'hit': set(), 'files': None}


def _cov_targets():
    """{filename: {lineno: function name}} for the anchored functions of C19"""
    from ombott.router import radirouter, filter_factory
    out = {}

    def add(code, label, drop_first=True):
        lines = {ln for _, _, ln in code.co_lines() if ln is not None}
        if drop_first and code.co_name != '<lambda>':
            lines.discard(code.co_firstlineno)           # the `def` line itself
        d = out.setdefault(code.co_filename, {})
        for ln in lines:
            d.setdefault(ln, label)
        for c in code.co_consts:
            if hasattr(c, 'co_lines'):
                add(c, label + '.' + c.co_name)

    R = radirouter.Route
    for name in ('__init__', 'url', 'params_signature', 'make_params_dict', 'parse_rule'):
        f = R.__dict__[name]
        f = getattr(f, '__func__', f)
        add(f.__code__, 'Route.' + name)
    F = filter_factory.FilterFactory
    add(F.__dict__['make_filter'].__func__.__code__, 'FilterFactory.make_filter')
    for k, lam in F.filters.items():
        add(lam.__code__, 'FilterFactory.filters[%s]' % k)
    add(filter_factory._RouteFilterExhaust.__init__.__code__, '_RouteFilterExhaust.__init__')
    add(filter_factory._RouteFilterExhaust.get.__code__, '_RouteFilterExhaust.get')
    return out


def _cov_tracer(frame, event, arg):
    fn = frame.f_code.co_filename
    if fn not in _COV['files']:
        return None
    if event == 'line' or event == 'call':
        _COV['hit'].add((fn, frame.f_lineno))
    return _cov_tracer


def _cov_report():
    import sys
    tg = _COV['files']
    total = sum(len(v) for v in tg.values())
    hit = sum(1 for fn, d in tg.items() for ln in d if (fn, ln) in _COV['hit'])
    print('COVERAGE C19: %d / %d lines of the anchored functions reached' % (hit, total), file=sys.stderr)
    for fn, d in sorted(tg.items()):
        src = open(fn).read().split('\n')
        for ln in sorted(d):
            if (fn, ln) not in _COV['hit']:
                print('  unreached %s:%d [%s] %s' % (fn.split('/ombott/')[-1], ln, d[ln], src[ln - 1].strip()),
                      file=sys.stderr)


def _cov_enabled():
    import os
    if _COV['on'] is None:
        _COV['on'] = os.environ.get('VERIF_COVERAGE') == '1'
        if _COV['on']:
            import atexit
            _COV['files'] = _cov_targets()
            atexit.register(_cov_report)
    return _COV['on']


def run_impl(case):
    if _cov_enabled():
        import sys
        sys.settrace(_cov_tracer)
        try:
            return _observe(case)
        finally:
            sys.settrace(None)
    return _observe(case)


def _observe(case):
    try:
        R, route = _router(case['rule'])
    except Exception as e:
        return dict(rule_error=type(e).__name__)
    obs = {}
    if case.get('path') is not None:
        m = _resolve(R, case['path'])
        if m is None:
            obs['match'] = None
            return obs
        values, kw, keys = m
        obs['match'] = [obs_val(v) for v in values]
        obs['kw'] = sorted((k, obs_val(v)) for k, v in kw.items())
        args = [v for n, v in zip(keys, values) if n.startswith('anon-')]
    else:
        args = [py_val(t) for t in case['args']]
        kw = {k: py_val(t) for k, t in case['kw'].items()}
    b = _build(route, args, kw)
    obs['url'] = b
    if b[0] == 'ok':
        u = ''.join(chr(c) for c in b[1])
        m2 = _resolve(R, u)
        if m2 is None:
            obs['rematch'] = None
        else:
            obs['rematch'] = [obs_val(v) for v in m2[0]]
            obs['rekw'] = sorted((k, obs_val(v)) for k, v in m2[1].items())
    return obs


def project(obs, case):
    if 'rule_error' in obs or not _modelled(case):
        return {'skip': 1}
    out = {}
    for k in ('match', 'url', 'rematch'):
        if k in obs:
            out[k] = obs[k]
    return out


def _ascii_digits_only(s):
    return all((not ch.isdigit()) or ch in '0123456789' for ch in s) and all(not ch.isdecimal() or ch in '0123456789'
                                                                                for ch in s)


def _has_kind(case, k):
    return any(t[0] == 'W' and t[2] == k for t in case['toks'])


def _modelled(case):
    """inputs the Gallina model covers (the rest is checked by the oracle on the implementation only)"""
    if '\r' in case['rule']:
        return False               # literal text with a CR is outside the property (lits_ok)
    if _has_kind(case, 'int'):
        texts = [case.get('path') or '']
        texts += [t[1] for t in case.get('args', []) if t[0] == 's']
        texts += [t[1] for t in case.get('kw', {}).values() if t[0] == 's']
        if not all(_ascii_digits_only(s) for s in texts):
            return False
        # int(str) inside the formatter: only the plain spelling [+-]?[0-9]+ is modelled
        given = [t[1] for t in case.get('args', []) if t[0] == 's']
        given += [t[1] for t in case.get('kw', {}).values() if t[0] == 's']
        if not all(33 <= ord(ch) <= 126 and ch != '_' for s in given for ch in s):
            return False
    if case.get('path') is None:
        # float(str|int) and int(float) inside the formatters are not modelled
        ai = 0
        for t in case['toks']:
            if t[0] != 'W':
                continue
            if t[1] is None:
                v = case['args'][ai] if ai < len(case['args']) else None
                ai += 1
            else:
                v = case['kw'].get(t[1])
            if v is None:
                break                      # the builder raises here, nothing later is evaluated
            if (t[2] == 'float' and v[0] != 'f') or (t[2] == 'int' and v[0] == 'f'):
                return False
            if t[2] == 'int' and v[0] == 's' and _int_raises(v[1]):
                break
    return True


def _int_raises(s):
    try:
        int(s)
    except ValueError:
        return True
    return False


# --------------------------------------------------------------------------
# model side
# --------------------------------------------------------------------------

_KIND = {'re': 0, 'int': 1, 'float': 2, 'path': 3}


def _parsed(case):
    """Route.parse_rule's view of the rule + the kind of every compiled filter"""
    from ombott.router.radirouter import Route
    route = Route(case['rule'])
    names_of_filters = [fl for part, prm, fl, fa, sel in Route.parser.iter_parse(case['rule'][1:]) if not part]
    handlers = []
    fids = []
    kinds = []
    for h, fname in zip(route.filters, names_of_filters):
        if h is None:
            fids.append(-1)
            continue
        for i, g in enumerate(handlers):
            if g is h:
                fids.append(i)
                break
        else:
            handlers.append(h)
            kinds.append(_KIND[fname])
            fids.append(len(handlers) - 1)
    return route, fids, kinds, handlers


def _suffixes(s):
    return [s[i:] for i in range(len(s) + 1)]


def _enc_pyval(t):
    kind, x = t
    if kind == 's':
        return [TAG_S] + enc_str(_cps(x))
    if kind == 'i':
        return [TAG_I] + enc_str(_cps(str(int(x))))
    return [TAG_F] + enc_str(_cps(repr(float(x))))


def encode(case):
    if not _modelled(case):
        return [-1]
    try:
        route, fids, kinds, handlers = _parsed(case)
    except Exception:
        return [-1]
    po = route.pattern_out
    obs = run_impl(case)
    if 'rule_error' in obs:
        return [-1]
    # the texts on which the model may consult a filter
    texts = set()
    if case.get('path') is not None:
        texts.update(_suffixes(case['path'].strip('/')))
    if obs.get('url', ['err'])[0] == 'ok':
        u = ''.join(chr(c) for c in obs['url'][1])
        texts.update(_suffixes(u.strip('/')))
    # validation texts: every formatted value alone and in front of the literal that follows it
    chunks = po.split('\r')
    if case.get('path') is not None:
        pool = []
        R, _ = _router(case['rule'])
        m = _resolve(R, case['path'])
        if m is not None:
            pool = [[v] for v in m[0]]
    else:
        allv = [py_val(t) for t in case['args']] + [py_val(t) for t in case['kw'].values()]
        pool = [allv for _ in route.params]
    for i, cands in enumerate(pool):
        if i >= len(route.params):
            break
        f_out = route.filters_out[i]
        for v in cands:
            try:
                s = f_out(v) if f_out else v
            except Exception:
                continue
            if isinstance(s, str):
                texts.add(s)
                texts.add(s + chunks[i + 1])
    rxt = []
    fct = {}
    for k, h in enumerate(handlers):
        if kinds[k] == 1:
            continue                       # the int filter is concrete in the model
        for s in sorted(texts):
            val, pos, sel = h(s)
            n = -1 if val is None else pos
            rxt.append([k] + enc_str(_cps(s)) + [n])
            if kinds[k] == 2 and val is not None:
                fct[s[:pos]] = repr(val)
    out = enc_str(_cps(po))
    out += enc_list(route.params, lambda n: enc_str(_cps(n)))
    out += enc_list(fids, lambda f: [f])
    out += enc_list(kinds, lambda k: [k])
    out += [len(rxt)] + [x for e in rxt for x in e]
    out += enc_list(sorted(fct.items()), lambda kv: enc_str(_cps(kv[0])) + enc_str(_cps(kv[1])))
    if case.get('path') is not None:
        out += [1] + enc_str(_cps(case['path']))
    else:
        out += [0] + enc_list(case['args'], _enc_pyval)
        out += enc_list(list(case['kw'].items()), lambda kv: enc_str(_cps(kv[0])) + _enc_pyval(kv[1]))
    return out


def _r_pyval(r):
    tag = r.int()
    return [tag, r.str()]


def _r_match(r):
    if r.int() == 0:
        return None
    return r.list(_r_pyval)


_EXC_NAME = {v: k for k, v in _EXC.items()}


def _r_url(r):
    tag = r.int()
    if tag == 0:
        return ['ok', r.str()]
    return ['err', _EXC_NAME.get(tag, 'unmodelled')]


def decode(out, case):
    if out == [-999]:
        return {'skip': 1}
    r = Reader(out)
    obs = {}
    if case.get('path') is not None:
        obs['match'] = _r_match(r)
        if obs['match'] is None:
            return obs
    obs['url'] = _r_url(r)
    if obs['url'][0] == 'ok':
        obs['rematch'] = _r_match(r)
    return obs


# --------------------------------------------------------------------------
# the property, stated on the implementation
# --------------------------------------------------------------------------

def _expected_text(v):
    tag, cps = v
    return ''.join(chr(c) for c in cps)


def oracle(case, obs):
    if 'rule_error' in obs:
        return None          # not a rule (only reachable while shrinking); counted by classify()
    toks = case['toks']
    if case.get('path') is None:
        # only the shape half of the property applies: literals verbatim and in order
        b = obs.get('url')
        if b and b[0] == 'ok':
            u = ''.join(chr(c) for c in b[1])
            if not any(t[0] == 'W' for t in toks):
                want = ''.join(t[1] for t in toks)
                return None if u == want else 'rule without wildcards built %r' % u
            at = 0
            for t in toks:
                if t[0] == 'L':
                    j = u.find(t[1], at)
                    if j < 0:
                        return 'literal %r missing or out of order in the built url %r' % (t[1], u)
                    at = j + len(t[1])
        elif b and b[1].startswith('other:'):
            return 'builder raised an unexpected %s' % b[1]
        return None
    if obs.get('match') is None:
        return None
    values = obs['match']
    nw = sum(1 for t in toks if t[0] == 'W')
    if len(values) != nw:
        return 'the rule has %d wildcards but the match produced %d values' % (nw, len(values))
    named = sorted((t[1], v) for t, v in zip([t for t in toks if t[0] == 'W'], values) if t[1])
    if [list(x) for x in named] != [list(x) for x in obs['kw']]:
        return 'kwargs %r are not the named wildcards with their values %r' % (obs['kw'], named)
    b = obs['url']
    if b[0] != 'ok':
        return 'building the url from matched parameters raised %s' % b[1]
    u = ''.join(chr(c) for c in b[1])
    it = iter(values)
    want = ''.join(t[1] if t[0] == 'L' else _expected_text(next(it)) for t in toks)
    if u != want:
        return 'built url %r is not the literals interleaved with the values (%r)' % (u, want)
    if obs.get('rematch') is None:
        return 'the built url %r is not matched by the rule' % u
    if obs['rematch'] != values:
        return 'the built url %r matches with other values: %r instead of %r' % (u, obs['rematch'], values)
    if obs.get('rekw') != obs['kw']:
        return 'the built url %r resolves to other kwargs' % u
    return None


def nontrivial(case, obs):
    toks = case['toks']
    if not (any(t[0] == 'W' for t in toks) and any(t[0] == 'L' for t in toks)):
        return False
    if case.get('path') is not None:
        return obs.get('match') is not None
    return obs.get('url', ['err'])[0] == 'ok'


def key(case):
    if case.get('path') is not None:
        return (case['rule'], case['path'])
    return (case['rule'], repr(case['args']), repr(sorted(case['kw'].items())))


def classify(case, obs):
    kinds = sorted({(t[2] or 'plain') for t in case['toks'] if t[0] == 'W'}) or ['static']
    if 'rule_error' in obs:
        return 'rule_error'
    if case.get('path') is not None:
        if obs.get('match') is None:
            out = 'no-match'
        elif obs['url'][0] != 'ok':
            out = 'matched/' + obs['url'][1]
        else:
            out = 'matched/built/' + ('rematched' if obs.get('rematch') == obs['match'] else 'LOST')
        return 'path/%s/%s' % ('+'.join(kinds), out)
    b = obs.get('url', ['err', '?'])
    return 'args/%s/%s' % ('+'.join(kinds), 'built' if b[0] == 'ok' else b[1])


def shrink(case):
    toks = case['toks']
    if case.get('path') is not None:
        p = case['path']
        for i in range(len(toks)):
            nt = toks[:i] + toks[i + 1:]
            if nt:
                yield mk(nt, p)
        for i in range(1, len(p)):
            yield mk(toks, p[:i] + p[i + 1:])
        for i, t in enumerate(toks):
            if t[0] == 'L' and len(t[1]) > 1:
                yield mk(toks[:i] + [L(t[1][1:])] + toks[i + 1:], p)
    else:
        for i in range(len(case['args'])):
            yield mk(toks, None, case['args'][:i] + case['args'][i + 1:], case['kw'])
        for k in list(case['kw']):
            kw = dict(case['kw'])
            del kw[k]
            yield mk(toks, None, case['args'], kw)


# --------------------------------------------------------------------------
# known findings: predicates over the case (the implementation is consulted to
# learn which values the path produces)
# --------------------------------------------------------------------------

def _matched_values(case):
    if case.get('path') is None:
        return None
    try:
        R, _ = _router(case['rule'])
        m = _resolve(R, case['path'])
    except Exception:
        return None
    return None if m is None else m[0]


def pred_float_repr_not_plain(case, what, m):
    """a float wildcard whose value str() prints with an exponent, or as inf/nan"""
    vals = _matched_values(case)
    if vals is None:
        return False
    return any(isinstance(v, float) and any(ch in repr(v) for ch in 'en') for v in vals)


def pred_regex_matched_empty(case, what, m):
    """a re-filtered wildcard matched the empty string"""
    vals = _matched_values(case)
    if vals is None:
        return False
    ws = [t for t in case['toks'] if t[0] == 'W']
    return any(t[2] == 're' and v == '' for t, v in zip(ws, vals))


def pred_minus_zero_after_number(case, what, m):
    """an int wildcard whose text was -0 (printed back as 0) directly after an int/float wildcard"""
    vals = _matched_values(case)
    if vals is None:
        return False
    toks = case['toks']
    ws = [i for i, t in enumerate(toks) if t[0] == 'W']
    for j in range(1, len(ws)):
        a, b = ws[j - 1], ws[j]
        if b == a + 1 and toks[a][2] in ('int', 'float') and toks[b][2] == 'int' and vals[j] == 0:
            return True
    return False


def pred_float_reformatted_after_regex(case, what, m):
    """a float wildcard printed differently from the text it matched (3 -> 3.0) after a re/path wildcard,
    whose greedy / look-ahead extent depends on the text that follows it"""
    if case.get('path') is None:
        return False
    toks = [t for t in case['toks'] if t[0] == 'W']
    seen_regex = False
    hit = False
    for t in toks:
        if t[2] in ('re', 'path'):
            seen_regex = True
        elif t[2] == 'float' and seen_regex:
            hit = True
    if not hit:
        return False
    obs = run_impl(case)
    b = obs.get('url')
    return bool(b) and b[0] == 'ok' and ''.join(chr(c) for c in b[1]) != case['path'].strip('/')


PREDICATES = {
    'float_reformatted_after_regex': pred_float_reformatted_after_regex,
    'float_repr_not_plain': pred_float_repr_not_plain,
    'regex_matched_empty': pred_regex_matched_empty,
    'minus_zero_after_number': pred_minus_zero_after_number,
}

MANIFEST = dict(
    text=('Proof: Coq theorems (all closed under the global context) about a hand-written model of Route.url as '
          'written (cidx/clen/end slice bookkeeping over pattern_out, positional anonymous parameters, formatters, the '
          'validation assertion as an explicit error) on top of C01\'s rule-by-rule matcher match1. C19_url_shape: for '
          'ALL rules (adjacent wildcards, adjacent/empty/leading/trailing literal chunks), names and arguments the builder '
          'equals the segment-wise specification, every error outcome included; a built url is the literal chunks verbatim '
          'and in order with one text per wildcard. C19_identity_formatters / _roundtrip / _roundtrip_resolve: for plain, re '
          'and path wildcards and EVERY regex engine, the url built from the values of a match is the matched path itself '
          '(so it matches with the same values, also through resolve\'s \'/\'-stripping), unless the builder\'s own assertion '
          'fails, and `validates` states exactly when. C19_int: for the concrete int filter (-?[0-9]+, int, str.int) rules of '
          'literals, plain and int wildcards without two adjacent int wildcards rebuild to a url that matches with the same '
          'values. Refuted with witnesses (findings): adjacent int wildcards with -0, float printing with exponent/inf, re '
          'filter matching the empty string; recorded repair F19path (path wildcard followed by a literal). Model tied to '
          '/repo on every run by a differential correspondence (extracted OCaml + vm_compute) over match -> url -> re-match '
          'and by pinning FilterFactory.filters; an independent oracle states the round trip on the implementation.'),
    note=('Trusted: Coq kernel + vm_compute; extraction (ExtrOcamlBasic only); the Python harness; Python re and float '
          'conversion/printing enter only as universally quantified functions (rx, fconv). Modelled, not verified: the int '
          'filter over ASCII digits only; the rule parser (the model starts from Route.parse_rule\'s output). match1 = the '
          'router\'s behaviour is C01\'s theorem; here it is validated on single-rule routers by the correspondence. '
          'Findings F19-float, F19-float-regex, F19-empty, F19-minus-zero are reproduced by the model and reported as '
          'KNOWN-FINDING.'),
    technique='Coq proof (loop invariant for the slice bookkeeping, induction over rule segments) + model/implementation '
              'correspondence + implementation-level round-trip oracle',
    design_ref='DESIGN.md section 4, C19 (and C01 for match1)',
)
